"""C07 - namespaces and includes reach other templates with the right context and URI.

regen : group PathCfg (C09's; Props/C07 imports Props/C09, so its Generated file is refreshed here too) and
        group NsFlow (tools/regen_nsflow.py -> Generated/NsFlow.lean): the shape of the two import branches of
        codegen.write_variable_declares (plain / strict_undefined: _import_ns before the context) and of the two
        call sites of runtime._include_file (both run the target with the cleaned context); Props/C07 pins them
        with the obligations codegen_import_first_obligation / include_call_sites_obligation.
corr  : corr.render - template *sets* (2..8 templates in directory trees of depth 0..3, some sharing a base name in
        different directories, connected by <%namespace file/module>, <%include>, <%inherit> and the
        get_namespace/get_template/include_file API with relative and absolute URIs, inline-def namespaces,
        import lists and '*', include args overlapping context names, named blocks), served from files (1-3
        directories, with shadowed duplicates), from put_string, or both, with strict_undefined on/off and
        include_error_handler set/unset (a handler that answers false), are rendered by the real mako and by the
        Lean model (Namespace/Model.lean, driver op `ns render`); compared: the output (or the exception class)
        and, for every _lookup_template call, (kind of construct found from the calling frames, relativeto, raw
        URI, adjusted URI, found?) as recorded by wrapping the lookup's adjust_uri/get_template.
        Op-level: corr.kwargs_for_include (_kwargs_for_include on association lists vs a real signature),
        corr.ns_getattr (Namespace/TemplateNamespace/ModuleNamespace.__getattr__ on inherits chains of 1..4 real
        objects), corr.get_star (_get_star of the top object), corr.adjust_uri (incl. the empty URI).
oracle: (no Lean) families whose demanded output is computed from the generator's ground truth by the rule in the
        property text:
        oracle.adversarial   fixed witnesses of the recorded findings and of their neighbours (defs named like
                             Namespace attributes, URIs differing only in non-word characters, body()/blocks
                             through tag and get_namespace, inline defs x import= order, '*' vs inline def, local in
                             inline defs at every inheritance level, dotted URIs x put_string/files, unresolvable
                             and empty URIs from all six constructs; URIs that leave the lookup root towards files
                             planted above the root, in a private sibling directory and in the second lookup
                             directory, from all six constructs and lookup.get_template;
                             chains of get_namespace (oracle_ns_chain, 14 always-run cases: callers in 2..3
                             directories each obtain local.get_namespace('helper.html'), every helper asks for
                             'leaf.html' through get_namespace def / body(), include_file, get_template, two
                             three-link chains: chain i must end beside helper i - the namespaces made by
                             get_namespace share their *name*, only the objects differ; seeded C07l));
        oracle.same_relative 2..4 callers in different directories, reached in one render, writing the same relative
                             string through get_namespace/get_template/include_file/<%include>/<%namespace file>
                             (half of the get_namespace cases as two-link chains: the helper asks for 'leaf.html');
        oracle.uri_tree      random reference trees (7 kinds of reference x body/def/inline-def placement x
                             inheritance), shrunk by dropping references;
        oracle.unresolvable  a reached reference of a tree replaced by a missing or empty URI, or by a URI that climbs
                             above the root (dir/../../x from the writer's depth, /d/../../x, down-then-up) to a file
                             that exists there: TemplateLookupException, never the outside content;
        oracle.precedence    n.k() and k() for every name over inline defs / file or real-module members / inherited
                             defs / own defs / import list,'*',none / context, strict_undefined on/off; inheritable
                             namespaces reached as self.n from derived templates of depth 1..3;
        oracle.include       7 includer situations x page-argument sourcing x inheriting target x
                             include_error_handler set/unset, with a probe of self/local/parent/next.
        One violation per site and run; every violation carries the whole set (`repro`) and what is demanded.
replay: re-renders the recorded set; oracle cases are judged against the recorded demand, correspondence cases
        against the model.
"""
from __future__ import annotations

import os
import posixpath
import re
import shutil
import sys
import tempfile

from harness.common import enc, dec

RULE = ("corr.render: template sets of n in 2..8 templates at canonical URIs of directory depth 0..3, about a third of "
        "them sharing a base name (h.html, k.html) in different directories; references only point to higher-numbered "
        "templates (no cycles); each reference is written absolute, relative to the directory of the template it is "
        "written in (with ../ as needed; mostly avoided under put_string), or with redundant ./, // and seg/../ "
        "segments, 2.5% unresolvable or empty, 3% (file-backed sets with files planted above the root and in a private "
        "sibling directory, 60% of them) leaving the lookup root; backing = put_string | files in 1-3 directories (with shadowed and "
        "shadowing duplicates) | both; strict_undefined on in 25%, include_error_handler set in 35% of the sets; "
        "namespaces: file/module/plain x inline defs x import list/'*'/none x inheritable; page arguments with and "
        "without defaults; bodies, defs, inline defs and named blocks made of identity tags, unqualified names (called "
        "or printed), calls through namespaces/self/local/parent/next, includes (tag and API) with args overlapping "
        "context names, get_namespace/get_template, probes of self/local/parent/next; 2..6 context variables. A "
        "case is non-trivial when at least one _lookup_template call happened; distinct = distinct (sources, context, "
        "entry). Op-level streams: random association lists / chains of 1..4 namespace objects / URI x relativeto "
        "pairs. Oracle families: see the module docstring; their sizes are printed per run")
ASSUMPTIONS = [
    "identifiers are ASCII, pairwise distinct within a template across defs / namespaces / page arguments, and none is a Python builtin (except `next`, whose builtin fallback is modelled) or one of self/local/parent/caller/capture/pageargs/context",
    "inherit/namespace/include URIs are string literals (the tags accept ${} expressions; their evaluation is C02/C04's subject)",
    "__import__ of a module namespace succeeds (module written by the harness to a directory on sys.path)",
    "defs take no arguments (argument passing to defs is C05's subject); page arguments take string-literal defaults",
    "output order inside one render is the write order; blocks and defs are unbuffered (buffering/caller stacks are C05/C13's subject)",
    "the include_error_handler answers false (the error propagates); what a handler that swallows the error leaves behind is C13's subject",
    "a printed function/namespace object (address-dependent text) is compared as the marker <<repr>> only",
]
TRUSTED_EXTRA = [
    "C07: posixpath.join/dirname/normpath and adjust_uri as modelled in Path/Model.lean (compared with CPython by C09, adjust_uri also here)",
    "C07: the harness' printer from template descriptions to Mako source and its wire encoder; the classification of a _lookup_template call by the names of the calling frames",
    "C07: tools/regen_nsflow.py (reads mako/codegen.py and mako/runtime.py with ast)",
]

FUEL = 4000
REGEN = ["NsFlow", "PathCfg"]   # PathCfg: Props/C07 imports Props/C09, whose obligations read Generated/PathCfg.lean

# --------------------------------------------------------------------------- template descriptions
# template = dict(page=[(name, default|None)], inherit=None|uri, nss=[ns], defs=[(name, isblock, items)], body=items)
# ns       = dict(name, src=('f', uri)|('m', module)|('p',), inheritable=bool, imports=None|[names], inline=[(name, items)])
# item     = ('t', s) | ('n', x, called) | ('c', recv, f) | ('i', uri, args) | ('ai', recv, uri, args)
#          | ('an', recv, uri, f) | ('at', recv, uri) | ('p',) | ('b', name)
# recv     = 'self' | 'local' | 'parent' | 'next' | ('ns', name)


def T(page=(), inherit=None, nss=(), defs=(), body=()):
    return dict(page=list(page), inherit=inherit, nss=list(nss), defs=list(defs), body=list(body))


def NS(name, src=("p",), inheritable=False, imports=None, inline=()):
    return dict(name=name, src=tuple(src), inheritable=inheritable, imports=imports, inline=list(inline))


def recv_src(r):
    return r if isinstance(r, str) else r[1]


def args_src(args):
    return ", ".join("%s='%s'" % (k, v) for k, v in args)


def items_src(t, items):
    out = []
    for it in items:
        k = it[0]
        if k == "t":
            out.append(it[1])
        elif k == "n":
            out.append("${%s%s}" % (it[1], "()" if it[2] else ""))
        elif k == "c":
            out.append("${%s.%s()}" % (recv_src(it[1]), it[2]))
        elif k == "i":
            a = args_src(it[2])
            out.append('<%%include file="%s"%s/>' % (it[1], (' args="%s"' % a) if a else ""))
        elif k == "ai":
            a = args_src(it[3])
            out.append("${%s.include_file('%s'%s) or ''}" % (recv_src(it[1]), it[2], (", " + a) if a else ""))
        elif k == "an":
            out.append("${%s.get_namespace('%s').%s()}" % (recv_src(it[1]), it[2], it[3]))
        elif k == "at":
            out.append("${%s.get_template('%s').uri}" % (recv_src(it[1]), it[2]))
        elif k == "p":
            out.append("[${self.uri};${local.uri};${'parent' in context.keys()};${'next' in context.keys()}]")
        elif k == "b":
            d = [x for x in t["defs"] if x[0] == it[1]][0]
            out.append('<%%block name="%s">%s</%%block>' % (it[1], items_src(t, d[2])))
        else:
            raise ValueError(it)
    return "".join(out)


def template_src(t):
    out = []
    if t["page"]:
        out.append('<%%page args="%s"/>' % ", ".join(n if d is None else "%s='%s'" % (n, d) for n, d in t["page"]))
    if t["inherit"] is not None:
        out.append('<%%inherit file="%s"/>' % t["inherit"])
    for ns in t["nss"]:
        a = ' name="%s"' % ns["name"]
        if ns["src"][0] == "f":
            a += ' file="%s"' % ns["src"][1]
        elif ns["src"][0] == "m":
            a += ' module="%s"' % ns["src"][1]
        if ns["inheritable"]:
            a += ' inheritable="True"'
        if ns["imports"] is not None:
            a += ' import="%s"' % ", ".join(ns["imports"])
        if ns["inline"]:
            out.append("<%%namespace%s>" % a)
            for dn, its in ns["inline"]:
                out.append('<%%def name="%s()">%s</%%def>' % (dn, items_src(t, its)))
            out.append("</%namespace>")
        else:
            out.append("<%%namespace%s/>" % a)
    for dn, isblock, its in t["defs"]:
        if not isblock:
            out.append('<%%def name="%s()">%s</%%def>' % (dn, items_src(t, its)))
    out.append(items_src(t, t["body"]))
    return "".join(out)


# --------------------------------------------------------------------------- wire

def w_recv(r):
    return [r] if isinstance(r, str) else ["ns", enc(r[1])]


def w_args(args):
    out = [str(len(args))]
    for k, v in args:
        out += [enc(k), enc(v)]
    return out


def w_items(items):
    out = [str(len(items))]
    for it in items:
        k = it[0]
        if k == "t":
            out += ["t", enc(it[1])]
        elif k == "n":
            out += ["n", enc(it[1]), "1" if it[2] else "0"]
        elif k == "c":
            out += ["c"] + w_recv(it[1]) + [enc(it[2])]
        elif k == "i":
            out += ["i", enc(it[1])] + w_args(it[2])
        elif k == "ai":
            out += ["ai"] + w_recv(it[1]) + [enc(it[2])] + w_args(it[3])
        elif k == "an":
            out += ["an"] + w_recv(it[1]) + [enc(it[2]), enc(it[3])]
        elif k == "at":
            out += ["at"] + w_recv(it[1]) + [enc(it[2])]
        elif k == "p":
            out += ["p"]
        elif k == "b":
            out += ["b", enc(it[1])]
    return out


def w_template(t):
    out = [str(len(t["page"]))]
    for n, d in t["page"]:
        out += [enc(n), "none" if d is None else enc(d)]
    out.append("none" if t["inherit"] is None else enc(t["inherit"]))
    out.append(str(len(t["nss"])))
    for ns in t["nss"]:
        out.append(enc(ns["name"]))
        s = ns["src"]
        out += ["p"] if s[0] == "p" else [s[0], enc(s[1])]
        out.append("1" if ns["inheritable"] else "0")
        if ns["imports"] is None:
            out.append("none")
        else:
            out += [str(len(ns["imports"]))] + [enc(x) for x in ns["imports"]]
        out.append(str(len(ns["inline"])))
        for dn, its in ns["inline"]:
            out += [enc(dn)] + w_items(its)
    out.append(str(len(t["defs"])))
    for dn, isblock, its in t["defs"]:
        out += [enc(dn), "1" if isblock else "0"] + w_items(its)
    out += w_items(t["body"])
    return out


def w_set(case):
    out = [str(len(case["coll"]))]
    for u, t in case["coll"]:
        out += [enc(u)] + w_template(t)
    out += [str(len(case["dirs"]))] + [enc(posixpath.normpath(d)) for d in case["dirs"]]
    out.append(str(len(case["files"])))
    for (d, rel), t in case["files"]:
        out += [enc(posixpath.normpath(posixpath.join(case["dirs"][d], rel)))] + w_template(t)
    out.append(str(len(case["mods"])))
    for name, members in case["mods"]:
        out += [enc(name), str(len(members))]
        for m, kind, tag in members:
            out += [enc(m), kind, enc(tag)]
    out += ["1" if case.get("strict") else "0", "1" if case.get("ieh") else "0"]
    return out


def w_render(case):
    data = case["data"]
    out = ["ns", "render", str(FUEL), enc(case["entry"]), str(len(data))]
    for k, (kind, v) in data:
        out += [enc(k), kind, enc(v)]
    return " ".join(out + w_set(case))


def parse_model(resp):
    parts = resp.split(" ")
    status = parts[0]
    out = dec(parts[1])
    events = []
    for e in parts[2:]:
        k, rel, raw, res, found = e.split(":")
        events.append((k, None if rel == "none" else dec(rel), dec(raw), dec(res), found == "1"))
    return status, out, events


# --------------------------------------------------------------------------- implementation

class V:
    """context value: prints as its tag and returns it when called"""

    def __init__(self, s):
        self.s = s

    def __str__(self):
        return self.s

    def __call__(self):
        return self.s


class Sandbox:
    """a temp directory holding template directories and Python modules (on sys.path)"""

    def __init__(self):
        self.base = os.path.realpath(tempfile.mkdtemp(prefix="c07_"))
        self.moddir = os.path.join(self.base, "pymods")
        os.makedirs(self.moddir)
        sys.path.insert(0, self.moddir)
        self.modnames = set()
        self.n = 0

    def fresh(self):
        self.n += 1
        d = os.path.join(self.base, "s%d" % self.n)
        os.makedirs(d)
        return d

    def write_module(self, name, members):
        if name in self.modnames:
            return
        lines = []
        for m, kind, tag in members:
            if kind == "fn":
                lines.append("def %s(context):\n    context.write(%r)\n    return ''\n" % (m, tag))
            else:
                lines.append("%s = %r\n" % (m, tag))
        with open(os.path.join(self.moddir, name + ".py"), "w") as f:
            f.write("".join(lines))
        self.modnames.add(name)

    def close(self):
        try:
            sys.path.remove(self.moddir)
        except ValueError:
            pass
        for m in self.modnames:
            sys.modules.pop(m, None)
        shutil.rmtree(self.base, ignore_errors=True)


def materialise(case, sb):
    """write the files of a case below a fresh directory; case['dirs'] become real paths"""
    if case.get("_real"):
        return
    root = sb.fresh()
    real = []
    for d in case["dirs"]:
        p = os.path.join(root, d)
        os.makedirs(p, exist_ok=True)
        real.append(p)
    for (d, rel), t in case["files"]:
        p = os.path.join(real[d], rel)
        os.makedirs(os.path.dirname(p), exist_ok=True)
        with open(p, "w") as f:
            f.write(template_src(t))
    case["dirs"] = real
    case["_root"] = root
    case["_real"] = True
    for name, members in case["mods"]:
        sb.write_module(name, members)


def release(case):
    r = case.pop("_root", None)
    if r:
        shutil.rmtree(r, ignore_errors=True)


def _kind_of_call():
    """which construct asked _lookup_template (frames: wrapper <- adjust wrapper <- _lookup_template <- caller)"""
    f = sys._getframe(3)
    name = f.f_code.co_name
    up = f.f_back.f_code.co_name if f.f_back is not None else ""
    if name == "_include_file":
        return "api" if up == "include_file" else "incl"
    if name == "_inherit_from":
        return "inherit"
    if name == "__init__":
        return "api" if up == "get_namespace" else "nstag"
    if name == "get_template":
        return "api"
    return "?" + name


def run_impl(case, want_lookup=False):
    """render the case with the real mako; returns (status, output, events)"""
    from mako.lookup import TemplateLookup
    from mako import exceptions as X
    handler_calls = []

    def handler(context, error):          # include_error_handler: asked, answers false -> the error propagates
        handler_calls.append(type(error).__name__)
        return False
    lk = TemplateLookup(directories=list(case["dirs"]), strict_undefined=bool(case.get("strict")),
                        include_error_handler=handler if case.get("ieh") else None)
    for u, t in case["coll"]:
        lk.put_string(u, template_src(t))
    events = []
    pending = []
    orig_adjust, orig_get = lk.adjust_uri, lk.get_template

    def adjust(uri, relativeto):
        v = orig_adjust(uri, relativeto)
        pending.append((_kind_of_call(), relativeto, uri, v))
        return v

    def get(uri):
        p = pending.pop() if pending else ("top", None, uri, uri)
        try:
            t = orig_get(uri)
        except X.TemplateLookupException:
            events.append(p + (False,))
            raise
        events.append(p + (True,))
        return t
    entry = orig_get(case["entry"])
    lk.adjust_uri, lk.get_template = adjust, get
    data = {k: (V(v) if kind == "obj" else v) for k, (kind, v) in case["data"]}
    status, out = "ok", ""
    try:
        out = entry.render(**data)
        if " at 0x" in out or "<function" in out or "functools.partial" in out:
            out = "<<repr>>"
    except X.TopLevelLookupException:
        status = "err:lookup-toplevel"
    except X.TemplateLookupException as e:
        status = "err:lookup" if type(e) is X.TemplateLookupException else "err:lookup-" + type(e).__name__
    except IndexError:
        status = "err:index"
    except AttributeError:
        status = "err:attr"
    except NameError:
        status = "err:name"
    except TypeError:
        status = "err:type"
    except RecursionError:
        status = "err:fuel"
    if want_lookup:
        return status, out, events, lk
    return status, out, events


def compare(case, model_resp):
    """returns None when model and implementation agree, else (model, impl)"""
    ms, mo, me = parse_model(model_resp)
    is_, io, ie = run_impl(case)
    if ms == "err:fuel" or is_ == "err:fuel":
        return "fuel"
    if ms != "ok":
        mo = ""
    elif "<<repr>>" in mo or io == "<<repr>>":
        mo = "<<repr>>" if "<<repr>>" in mo else mo
    if (ms, mo, me) != (is_, io, ie):
        return {"status": ms, "out": mo, "events": me}, {"status": is_, "out": io, "events": ie}
    return None


# --------------------------------------------------------------------------- generator (correspondence)

DEFNAMES = ["foo", "bar", "baz", "qux"]
NSNAMES = ["n1", "n2", "n3"]
CTXNAMES = ["x", "y", "z", "foo", "bar", "qux"]
PAGENAMES = ["x", "y", "z", "w"]
DIRPOOL = ["a", "b", "c"]
MODS = [
    ("c07mod_a", [("foo", "fn", "[ma.foo]"), ("zap", "fn", "[ma.zap]"), ("_hid", "fn", "[ma._hid]"), ("KONST", "const", "k")]),
    ("c07mod_b", [("bar", "fn", "[mb.bar]"), ("baz", "fn", "[mb.baz]"), ("_foo", "fn", "[mb._foo]")]),
]


def canon_uri(rng, i, used=None):
    """canonical URI of template i; with `used` (a set) some templates share a base name (h.html, k.html) in different
    directories, so that the same relative string means different templates depending on who writes it"""
    depth = rng.choice([0, 0, 1, 1, 2, 3])
    d = "/" + "".join(rng.choice(DIRPOOL) + "/" for _ in range(depth))
    u = d + "t%d.html" % i
    if used is not None:
        if i > 0 and rng.random() < 0.35:
            v = d + rng.choice(["h.html", "k.html"])
            if v not in used:
                u = v
        used.add(u)
    return u


def ref_uri(rng, owner, target, spice=True, avoid_dotdot=False):
    """a way to write `target` (canonical) inside the template at `owner` (canonical)"""
    rel = posixpath.relpath(target, posixpath.dirname(owner))
    if rng.random() < 0.3 or (avoid_dotdot and ".." in rel):
        u = target
    else:
        u = rel
    if spice and not (avoid_dotdot and rng.random() < 0.7):
        r = rng.random()
        if r < 0.08 and not u.startswith("/"):
            u = "./" + u
        elif r < 0.14 and "/" in u.lstrip("/"):
            i = u.index("/", 1)
            u = u[:i] + "/" + u[i:]
        elif r < 0.2 and "/" in u.lstrip("/") and not u.startswith(".."):
            lead = "/" if u.startswith("/") else ""
            segs = u.lstrip("/").split("/")
            u = lead + segs[0] + "/../" + "/".join(segs)
    return u


# files planted OUTSIDE the lookup directories (relative to directory 0; all directories are siblings below one root):
# above the root and in a sibling directory that is not a lookup directory
OUTSIDE = [("../outside.html", "[OUTSIDE-TOP]"), ("../private/secret.html", "[OUTSIDE-PRIVATE]")]


def plant_outside(case):
    for rel, txt in OUTSIDE:
        case["files"].append(((0, rel), T(body=[("t", txt)])))


def escaping_uri(rng, owner, siblings=()):
    """a URI written in the template at canonical URI `owner` that climbs above the lookup root and names a file that
    exists there (`siblings`: paths 'rK/rel' of files in lookup directories, reached by leaving the root first)"""
    k = owner.count("/") - 1
    up = "../" * (k + 1)
    tails = ["outside.html", "private/secret.html"] + list(siblings)
    tail = rng.choice(tails)
    r = rng.random()
    if r < 0.5:
        return up + tail                                   # dir/../../x from the owner's depth
    if r < 0.75:
        d = rng.choice(["a", "a/b", "x/y/z"])              # absolute, with a directory part before the ..
        return "/" + d + "/" + "../" * (d.count("/") + 2) + tail
    if r < 0.9:
        return "sub/" + "../" + up + tail                  # down first, then up
    return "/../" + tail                                   # leading ..


class Gen:
    def __init__(self, rng):
        self.rng = rng

    def gen_case(self):
        rng = self.rng
        n = rng.randint(2, 8)
        self.n = n
        used = set()
        self.uris = [canon_uri(rng, i, used) for i in range(n)]
        self.backing = rng.choice(["put", "put", "files", "files", "mixed"])
        self.planted = self.backing != "put" and rng.random() < 0.6
        self.base = {}
        self.inherit_targets = set()
        for i in range(n - 1):
            if rng.random() < 0.3:
                self.base[i] = rng.randint(i + 1, n - 1)
                self.inherit_targets.add(self.base[i])
        self.defs_of = {i: sorted(rng.sample(DEFNAMES, rng.choice([0, 1, 1, 2, 3]))) for i in range(n)}
        tpls = [None] * n
        for i in reversed(range(n)):
            tpls[i] = self.gen_template(i)
        mods = [m for m in MODS if any(ns["src"] == ("m", m[0]) for t in tpls for ns in t["nss"])]
        ndirs = rng.randint(1, 3)
        case = dict(entry=self.uris[0], coll=[], dirs=["r%d" % k for k in range(ndirs)], files=[], mods=mods,
                    backing=self.backing, strict=rng.random() < 0.25, ieh=rng.random() < 0.35)
        if self.backing == "put":
            case["dirs"] = []
        for i, u in enumerate(self.uris):
            where = self.backing if self.backing != "mixed" else rng.choice(["put", "files"])
            if where == "put":
                case["coll"].append((u, tpls[i]))
            else:
                d = rng.randrange(ndirs)
                case["files"].append(((d, u.lstrip("/")), tpls[i]))
                if rng.random() < 0.15 and d + 1 < ndirs:
                    # a shadowed duplicate in a later directory
                    case["files"].append(((d + 1, u.lstrip("/")), T(body=[("t", "[SHADOWED %s]" % u)])))
                elif rng.random() < 0.1 and d > 0 and i > 0:
                    # a duplicate in an earlier directory wins
                    case["files"].append(((d - 1, u.lstrip("/")), T(body=[("t", "[EARLIER %s]" % u)])))
        if self.planted:
            plant_outside(case)
        names = rng.sample(CTXNAMES, rng.randint(2, len(CTXNAMES)))
        case["data"] = [(x, ("obj", "<ctx.%s>" % x)) for x in names]
        return case

    # ---- ground knowledge
    def members(self, j):
        """names reachable by attribute lookup on a namespace of template j (its defs, body, and its bases')"""
        out = set(self.defs_of[j]) | {"body"} | set(self.blocks_of.get(j, ()))
        if j in self.base:
            out |= self.members(self.base[j])
        return out

    blocks_of = {}

    def target(self, i):
        """a higher-numbered template, or None"""
        if i + 1 >= self.n:
            return None
        return self.rng.randint(i + 1, self.n - 1)

    def uri_to(self, i, j):
        if self.rng.random() < 0.025:
            return self.rng.choice(["missing.html", "/nowhere/x.html", "../zz.html", ""])
        if self.planted and self.rng.random() < 0.03:
            return escaping_uri(self.rng, self.uris[i])
        return ref_uri(self.rng, self.uris[i], self.uris[j], avoid_dotdot=self.backing != "files")

    def inc_args(self):
        rng = self.rng
        k = rng.choice([0, 0, 1, 1, 2])
        return [(x, "arg.%s" % x) for x in rng.sample(PAGENAMES, k)]

    def ns_members(self, ns):
        out = set(d for d, _ in ns["inline"])
        if ns["src"][0] == "f" and ns.get("_j") is not None:
            out |= self.members(ns["_j"])
        elif ns["src"][0] == "m":
            out |= set(m for m, k, _ in dict((a, b) for a, b in MODS)[ns["src"][1]] if k == "fn")
        return out

    def pick_recv(self, i, nss, api=False):
        rng = self.rng
        opts = [("ns", ns["name"]) for ns in nss] * (1 if api else 4)
        opts += ["local"] * (4 if api else 2) + ["self"]
        opts += ["parent"] * 2 if i in self.base else (["parent"] if rng.random() < 0.05 else [])
        opts += ["next"] if i in self.inherit_targets else (["next"] if rng.random() < 0.05 else [])
        return rng.choice(opts)

    def pick_member(self, i, recv, nss, cur):
        rng = self.rng
        if rng.random() < 0.1:
            return rng.choice(DEFNAMES + ["zap", "body", "n1"])
        if isinstance(recv, tuple):
            ns = [x for x in nss if x["name"] == recv[1]][0]
            valid = sorted(self.ns_members(ns))
        elif recv in ("self", "local"):
            valid = [d for d in self.defs_of[i] if cur == "body" or (cur in DEFNAMES and d > cur)]
        elif recv == "parent":
            valid = sorted(self.members(self.base[i]) - {"body"}) if i in self.base else ["foo"]
        else:
            valid = ["body"]
        return rng.choice(valid) if valid else None

    def gen_items(self, i, where, nss, cur):
        """`cur`: 'body', a def name, or None for inline defs / blocks"""
        rng = self.rng
        items = [("t", "[t%d.%s]" % (i, where))]
        k = rng.randint(0, 3 if cur != "body" else 6)
        imported = []
        for ns in nss:
            if ns["imports"] is not None:
                imported += sorted(self.ns_members(ns) - {"body"}) if ns["imports"] == ["*"] else ns["imports"]
        for _ in range(k):
            r = rng.random()
            j = self.target(i)
            if r < 0.16:
                later = [d for d in self.defs_of[i] if cur == "body" or (cur in DEFNAMES and d > cur)]
                x = rng.choice(later * 2 + imported * 3 + CTXNAMES)
                items.append(("n", x, rng.random() < (0.97 if x in DEFNAMES else 0.6)))
            elif r < 0.2:
                items.append(("n", rng.choice(PAGENAMES), False))
            elif r < 0.45:
                recv = self.pick_recv(i, nss)
                f = self.pick_member(i, recv, nss, cur)
                if f is not None:
                    items.append(("c", recv, f))
            elif r < 0.64 and j is not None:
                items.append(("i", self.uri_to(i, j), self.inc_args()))
            elif r < 0.71 and j is not None:
                items.append(("ai", self.pick_recv(i, nss, True), self.uri_to(i, j), self.inc_args()))
            elif r < 0.79 and j is not None:
                f = rng.choice(sorted(self.members(j))) if rng.random() < 0.9 else rng.choice(DEFNAMES)
                items.append(("an", self.pick_recv(i, nss, True), self.uri_to(i, j), f))
            elif r < 0.85 and j is not None:
                items.append(("at", self.pick_recv(i, nss, True), self.uri_to(i, j)))
            elif r < 0.94:
                items.append(("p",))
            else:
                items.append(("t", "."))
        return items

    def gen_template(self, i):
        rng = self.rng
        nss = []
        names = rng.sample(NSNAMES, rng.choice([0, 1, 1, 2]))
        for nm in names:
            r = rng.random()
            j = self.target(i)
            if r < 0.7 and j is not None:
                src = ("f", self.uri_to(i, j))
            elif r < 0.85:
                src = ("m", rng.choice(MODS)[0])
                j = None
            else:
                src = ("p",)
                j = None
            r = rng.random()
            if r < 0.45:
                imports = None
            elif r < 0.7:
                imports = ["*"]
            else:
                imports = rng.sample(DEFNAMES + ["zap", "body"], rng.randint(1, 2))
            ns = NS(nm, src, rng.random() < 0.3, imports, [])
            ns["_j"] = j
            nss.append(ns)
            if imports not in (None, ["*"]) and rng.random() < 0.85:
                valid = sorted(self.ns_members(ns))
                ns["imports"] = rng.sample(valid, min(len(valid), rng.randint(1, 2))) or None
        # inline defs (their bodies may use the namespaces declared in this template)
        for ns in nss:
            for dn in rng.sample(DEFNAMES, rng.choice([0, 0, 1, 2])):
                if dn in self.defs_of[i]:
                    continue
                its = self.gen_items(i, "%s.%s" % (ns["name"], dn), nss, None)
                ns["inline"].append((dn, its))
        page = []
        if rng.random() < 0.4:
            for x in rng.sample(PAGENAMES, rng.randint(1, 2)):
                page.append((x, "dflt.%s" % x if rng.random() < 0.9 else None))
            page.sort(key=lambda p: p[1] is not None)
        defs = []
        for dn in self.defs_of[i]:
            defs.append((dn, False, self.gen_items(i, dn, nss, dn)))
        body = self.gen_items(i, "body", nss, "body")
        for x, _ in page:
            if rng.random() < 0.8:
                body.append(("n", x, False))
        if i in self.inherit_targets and rng.random() < 0.92:
            body.insert(rng.randint(1, len(body)), ("c", "next", "body"))
        # a named block now and then
        self.blocks_of = dict(self.blocks_of)
        if rng.random() < 0.2:
            bn = "blk%d" % rng.randint(0, 1)
            its = [it for it in self.gen_items(i, bn, nss, None) if it[0] != "b"]
            defs.append((bn, True, its))
            body.insert(rng.randint(1, len(body)), ("b", bn))
            self.blocks_of[i] = [bn]
        else:
            self.blocks_of.pop(i, None)
        inherit = None
        if i in self.base:
            inherit = self.uri_to(i, self.base[i])
        for ns in nss:
            ns.pop("_j", None)
        return T(page, inherit, nss, defs, body)


def case_key(case):
    return (tuple((u, template_src(t)) for u, t in case["coll"]),
            tuple((k, template_src(t)) for k, t in case["files"]), tuple(case["data"]), case["entry"])


def strip_case(case):
    """JSON-able copy (for replays): the structure of the set plus the Mako sources for the reader"""
    import json
    c = {k: v for k, v in case.items() if not k.startswith("_")}
    c["dirs"] = [os.path.basename(d) for d in case["dirs"]]
    c = json.loads(json.dumps(c))
    c["sources"] = {("%s" % (k,)): template_src(t) for k, t in list(case["coll"]) + [(str(k), t) for k, t in case["files"]]}
    return c


def revive(rc):
    """a case as generated, from its stripped form"""
    import json
    c = json.loads(json.dumps(rc))
    c.pop("sources", None)
    return c


def holds(case, status, out):
    """does the outcome satisfy what the property demands for this recorded oracle case?"""
    if "want" in case:
        return status == "ok" and out == case["want"]
    if "want_re" in case:
        return status == "ok" and re.fullmatch(case["want_re"], norm_probe(out)) is not None
    if "want_status" in case:
        return status in case["want_status"]
    return False


def corr_render(ctx, sb):
    drv = ctx.driver()
    st = ctx.stream("corr.render")
    n = 600 if ctx.quick else 8000
    gen = Gen(ctx.rng)
    batch = 200
    done = 0
    while done < n:
        cases = [gen.gen_case() for _ in range(min(batch, n - done))]
        for c in cases:
            materialise(c, sb)
        resps = drv.ask_many([w_render(c) for c in cases])
        for c, r in zip(cases, resps):
            st["cases"] += 1
            if r.startswith("bad-"):
                ctx.disagree("corr.render", strip_case(c), r, "(request not understood by the driver)")
                continue
            d = compare(c, r)
            ms, mo, me = parse_model(r)
            ctx.branch("render:" + ms)
            ctx.branch("backing:" + c["backing"])
            ctx.branch("config:strict=%d,include_error_handler=%d" % (bool(c.get("strict")), bool(c.get("ieh"))))
            for e in me:
                ctx.branch("event:%s:%s:%s" % (e[0], "abs" if e[2].startswith("/") else "rel", "found" if e[4] else "missing"))
            for e in me:
                if not e[4] and posixpath.normpath(e[3].replace("\\", "/").lstrip("/")).startswith(".."):
                    ctx.branch("event:leaves-the-root:" + ("outside-files-planted" if any(k[1].startswith("../") for k, _ in c["files"]) else "nothing-there"))
            if me:
                ctx.nontriv(case_key(c))
            if d == "fuel":
                ctx.branch("render:fuel-skipped")
            elif d is not None:
                ctx.disagree("corr.render", strip_case(c), d[0], d[1])
            release(c)
        done += len(cases)
    ctx.log("corr.render: %d sets; %s" % (st["cases"], ", ".join("%s=%d" % kv for kv in sorted(ctx.branches.items())
                                                          if kv[0].startswith(("render:", "backing:", "event:")))))
    ctx.sample({"stream": "corr.render", "sources": strip_case(cases[0])["sources"], "model": parse_model(resps[0])[:2]})


# --------------------------------------------------------------------------- op-level correspondence

def corr_ops(ctx):
    from mako import runtime
    from mako.lookup import TemplateLookup
    from mako.template import Template
    drv = ctx.driver()
    rng = ctx.rng
    # (1) _kwargs_for_include on association lists ------------------------------------------------
    st = ctx.stream("corr.kwargs_for_include")
    pool = ["context", "a", "b", "c", "d", "pageargs", "x"]
    cases = []
    n = 3000 if ctx.quick else 40000
    for _ in range(n):
        named = ["context"] + rng.sample(pool[1:5], rng.randint(0, 4)) + (["pageargs"] if rng.random() < 0.8 else [])
        data = [(k, "D" + k) for k in rng.sample(pool, rng.randint(0, 6))]
        kw = [(k, "K" + k) for k in rng.sample(pool[1:], rng.randint(0, 4))]
        cases.append((named, data, kw))
    reqs = []
    for named, data, kw in cases:
        reqs.append(" ".join(["ns", "kwargs", str(len(named))] + [enc(x) for x in named] + w_args(data) + w_args(kw)))
    outs = drv.ask_many(reqs)
    for (named, data, kw), o in zip(cases, outs):
        st["cases"] += 1
        ns = {}
        sig = ", ".join(x for x in named if x not in ("context", "pageargs"))
        src = "def f(context%s%s): pass" % ((", " + sig) if sig else "", ", **pageargs" if "pageargs" in named else "")
        exec(src, ns)
        want = runtime._kwargs_for_include(ns["f"], dict(data), **dict(kw))
        got = {} if o == "[]" else {dec(p.split("=")[0]): dec(p.split("=")[1]) for p in o.split(" ")}
        if got != want:
            ctx.disagree("corr.kwargs_for_include", {"named": named, "data": data, "kw": kw}, got, want)
        ctx.nontriv(("kw", tuple(named), tuple(data), tuple(kw)))
    # (2) Namespace.__getattr__ on chains; _get_star ------------------------------------------------
    st = ctx.stream("corr.ns_getattr")
    st2 = ctx.stream("corr.get_star")
    names = ["foo", "bar", "baz", "body", "_hid", "K", "name", "uri"]
    lk = TemplateLookup()
    n = 1500 if ctx.quick else 20000
    tcache = {}
    import types
    from mako.util import FastEncodingBuffer
    pend = []
    for ci in range(n):
        depth = rng.randint(1, 4)
        levels = []
        for i in range(depth):
            inline = rng.sample(["foo", "bar", "baz"], rng.randint(0, 2))
            kind = rng.choice(["t", "t", "m", "p"]) if i == 0 else "t"
            if kind == "t":
                mem = [(d, "fn") for d in rng.sample(["foo", "bar", "baz"], rng.randint(0, 3))]
            elif kind == "m":
                mem = [(d, "const" if d == "K" else "fn") for d in rng.sample(["foo", "bar", "_hid", "K"], rng.randint(0, 4))]
            else:
                mem = []
            levels.append((inline, kind, mem))
        key = rng.choice(names)
        # real objects
        c = runtime.Context(None)
        objs = []
        for i, (inline, kind, mem) in reversed(list(enumerate(levels))):
            fns = []
            for d in inline:
                f = (lambda tag: (lambda: tag))("%d:inline:%s" % (i, d))
                f.__name__ = d
                fns.append(f)
            inh = objs[0] if objs else None
            if kind == "t":
                src = "".join('<%%def name="%s()">%d:member:%s</%%def>' % (d, i, d) for d, _ in mem) + "%d:member:body" % i
                t = tcache.get(src)
                if t is None:
                    t = tcache[src] = Template(src, uri="/L%d" % i)
                o = runtime.TemplateNamespace("n", c, template=t, callables=fns or None, inherits=inh, populate_self=False)
            elif kind == "m":
                m = types.ModuleType("c07chain")
                for d, k in mem:
                    if k == "fn":
                        setattr(m, d, (lambda tag: (lambda context: tag))("%d:member:%s" % (i, d)))
                    else:
                        setattr(m, d, "konst")
                o = runtime.ModuleNamespace.__new__(runtime.ModuleNamespace)
                o.name, o.context, o.inherits, o.module = "n", c, inh, m
                if fns:
                    o.callables = {f.__name__: f for f in fns}
            else:
                o = runtime.Namespace("n", c, callables=fns or None, inherits=inh)
            objs.insert(0, o)
        top = objs[0]
        wantl = [k for k, _ in top._get_star()]
        buf = FastEncodingBuffer()
        c._buffer_stack = [buf]
        try:
            v = getattr(top, key)
            if key in ("name", "uri"):
                want = "other"
            else:
                r = v()
                want = buf.getvalue() + (r if isinstance(r, str) else "")
        except AttributeError:
            want = "err:attr"
        except TypeError:
            want = "err:type"

        def lv(inline, kind, mem):
            req = [str(len(inline))] + [enc(x) for x in inline] + [kind]
            if kind == "t":
                req += [str(len(mem))] + [enc(d) for d, _ in mem]
            elif kind == "m":
                req += [str(len(mem))]
                for d, k in mem:
                    req += [enc(d), k]
            return req
        req = ["ns", "getattr", enc(key), str(len(levels))]
        for l in levels:
            req += lv(*l)
        pend.append((" ".join(req), " ".join(["ns", "star"] + lv(*levels[0])), levels, key, want, wantl))
    outs = drv.ask_many([p[0] for p in pend] + [p[1] for p in pend])
    for idx, (_, _, levels, key, want, wantl) in enumerate(pend):
        o = outs[idx]
        st["cases"] += 1
        # canonicalise the model's answer to the same vocabulary
        if o.startswith("code:"):
            _, tu, what, d = o.split(":")
            got = "%s:%s:%s" % (dec(tu)[2:], what, dec(d))
        elif o.startswith("modfn:"):
            got = dec(o[6:])
        else:
            got = o
        if got != want:
            ctx.disagree("corr.ns_getattr", {"levels": levels, "input": key}, got, want)
        ctx.branch("getattr:" + (want if want.startswith("err") or want == "other" else want.split(":")[1] + "@" + want.split(":")[0]))
        ctx.nontriv(("ga", str(levels), key))
        inline, kind, mem = levels[0]
        o = outs[len(pend) + idx]
        st2["cases"] += 1
        gotl = [] if o == "[]" else [dec(x) for x in o.split(" ")]
        if (kind == "m" and (sorted(gotl[len(inline):]) != sorted(wantl[len(inline):]) or gotl[:len(inline)] != wantl[:len(inline)])) \
                or (kind != "m" and gotl != wantl):
            ctx.disagree("corr.get_star", {"level": levels[0]}, gotl, wantl)
    # (3) adjust_uri ---------------------------------------------------------------------------------
    st = ctx.stream("corr.adjust_uri")
    lk = TemplateLookup()
    segs = ["a", "b", "..", ".", "", "t.html"]
    cases = []
    for _ in range(2000 if ctx.quick else 30000):
        u = rng.choice(["", "/", "//"]) + "/".join(rng.choice(segs) for _ in range(rng.randint(1, 4)))
        if rng.random() < 0.03:
            u = ""
        r = rng.choice([None, "/", "/t.html", "/a/t.html", "/a/b/t.html", "a/t.html", "/a//b/", "/a/../t.html", "t.html", ""])
        cases.append((u, r))
    outs = drv.ask_many(["ns adjust %s %s" % (enc(u), "none" if r is None else enc(r)) for u, r in cases])
    for (u, r), o in zip(cases, outs):
        st["cases"] += 1
        lk._uri_cache.clear()
        try:
            want = enc(lk.adjust_uri(u, r))
        except Exception as e:
            want = "raised " + type(e).__name__
        if o != want:
            ctx.disagree("corr.adjust_uri", {"input": u, "relativeto": r}, o, want)


def corr(ctx, sb):
    corr_ops(ctx)
    corr_render(ctx, sb)


# --------------------------------------------------------------------------- oracle (no Lean)
#
# Every family builds template sets together with the output the *property text* demands, computed from the
# generator's ground truth (which template each reference is meant to reach, which definition each name is meant
# to denote), renders them with the real mako and compares.

def report(ctx, site, case, detail, stream):
    """one violation per site and run (the first, i.e. smallest-index, witness)"""
    seen = ctx.__dict__.setdefault("_c07_sites", set())
    if site in seen:
        ctx.branch("oracle:violation-repeated:" + site)
        return
    seen.add(site)
    ctx.violation(site, case, detail, stream)


def norm_probe(out):
    """normalise the URIs printed by probes (self=…;local=…;) – the property speaks of templates, not of spellings"""
    return re.sub(r"(self|local)=([^;{}]*);", lambda m: "%s=%s;" % (m.group(1), posixpath.normpath(m.group(2))), out)


def run_plain(case):
    """render with the real mako, no instrumentation: (status, output)"""
    st, out, _ = run_impl(case)
    return st, out


def put_or_files(rng, uris_tpls, backing, ndirs=None):
    """distribute (canonical uri, template) over put_string / directories"""
    ndirs = ndirs or rng.randint(1, 3)
    case = dict(coll=[], dirs=["r%d" % k for k in range(ndirs)] if backing != "put" else [], files=[], mods=[],
                backing=backing, data=[])
    for u, t in uris_tpls:
        where = backing if backing != "mixed" else rng.choice(["put", "files"])
        if where == "put":
            case["coll"].append((u, t))
        else:
            case["files"].append(((rng.randrange(ndirs), u.lstrip("/")), t))
    return case


# ---- O1/O2: URI resolution trees ---------------------------------------------------------------------------

REFKINDS = ["inc", "ns_body", "ns_def", "api_inc", "api_tmpl", "api_ns_body", "api_ns_def"]


class Tree:
    """ground truth: node i = template at canonical uri; refs[i][place] = [(kind, child, raw uri)] for place in
    body / def / inline; base[i] = inherited template"""

    def __init__(self, rng, n=None, backing=None, pbase=0.2):
        self.rng = rng
        self.n = n or rng.randint(2, 8)
        used = set()
        self.uris = [canon_uri(rng, i, used) for i in range(self.n)]
        self.backing = backing or rng.choice(["put", "files", "mixed"])
        self.ndirs = rng.randint(1, 3)
        self.planted = self.backing != "put"
        self.ieh = rng.random() < 0.4
        self.where = [(self.backing if self.backing != "mixed" else rng.choice(["put", "files"]), rng.randrange(self.ndirs))
                      for _ in range(self.n)]
        self.inh_raw = {}
        self.base = {}
        self.is_base = set()
        self.refs = {i: {"body": [], "def": [], "inline": []} for i in range(self.n)}
        self.has_d = {i: rng.random() < 0.6 for i in range(self.n)}
        order = list(range(1, self.n))
        for j in order:
            # every template j > 0 is referenced exactly once, from a lower-numbered non-base template
            cands = [i for i in range(j) if i not in self.is_base or True]
            i = rng.choice(cands)
            if rng.random() < pbase and i not in self.base and j not in self.is_base and not self.refs[j]["body"]:
                self.base[i] = j
                self.is_base.add(j)
                self.inh_raw[i] = ref_uri(rng, self.uris[i], self.uris[j])
                continue
            self.add_ref(i, j)
        # bases must only be reached through inheritance: re-route references to them
        for i in range(self.n):
            for place in self.refs[i]:
                self.refs[i][place] = [r for r in self.refs[i][place] if r[1] not in self.is_base]

    def add_ref(self, i, j, kind=None, place=None):
        rng = self.rng
        kind = kind or rng.choice(REFKINDS)
        if kind in ("ns_def", "api_ns_def") and not self.has_d[j]:
            kind = kind.replace("_def", "_body")
        place = place or rng.choice(["body", "body", "def", "inline"])
        if place == "def":
            self.has_d[i] = True
        if kind.startswith("ns") and place == "inline":
            place = "body"
        raw = ref_uri(rng, self.uris[i], self.uris[j])
        self.refs[i][place].append((kind, j, raw))

    # ---- sources
    def template(self, i):
        nss, body = [], [("t", "[%d:" % i)]
        k = 0

        def items_for(place):
            nonlocal k
            its = []
            for kind, j, raw in self.refs[i][place]:
                if kind == "inc":
                    its.append(("i", raw, []))
                elif kind in ("ns_body", "ns_def"):
                    k += 1
                    nm = "n%d" % k
                    nss.append(NS(nm, ("f", raw)))
                    its.append(("c", ("ns", nm), "body" if kind == "ns_body" else "d"))
                elif kind == "api_inc":
                    its.append(("ai", "local", raw, []))
                elif kind == "api_tmpl":
                    its.append(("atr", "local", raw))
                elif kind in ("api_ns_body", "api_ns_def"):
                    its.append(("an", "local", raw, "body" if kind == "api_ns_body" else "d"))
            return its
        defs = []
        body += items_for("body")
        if self.has_d[i]:
            defs.append(("d", False, [("t", "(%d.d:" % i)] + items_for("def") + [("t", ")")]))
            if self.refs[i]["def"]:
                body.append(("n", "d", True))
        if self.refs[i]["inline"]:
            nss.append(NS("m", ("p",), inline=[("g", [("t", "{%d.g:" % i)] + items_for("inline") + [("t", "}")])]))
            body.append(("c", ("ns", "m"), "g"))
        if i in self.is_base:
            body.append(("c", "next", "body"))
        body.append(("t", "]"))
        inherit = self.inh_raw[i] if i in self.base else None
        return T([], inherit, nss, defs, body)

    def walk(self):
        """the references in the order a render of template 0 reaches them: [(i, place, idx)]"""
        out = []

        def refs(i, place):
            for idx, (kind, j, raw) in enumerate(self.refs[i][place]):
                out.append((i, place, idx))
                if kind in ("inc", "api_inc", "api_tmpl"):
                    indep(j)
                elif kind in ("ns_body", "api_ns_body"):
                    body(j)
                else:
                    refs(j, "def")

        def body(i):
            refs(i, "body")
            if self.has_d[i] and self.refs[i]["def"]:
                refs(i, "def")
            refs(i, "inline")

        def indep(i):
            chain = [i]
            while chain[-1] in self.base:
                chain.append(self.base[chain[-1]])
            for lvl in reversed(chain):
                body(lvl)
        indep(0)
        return out

    # ---- expectation (the property text)
    def exp_refs(self, i, place):
        out = ""
        for kind, j, raw in self.refs[i][place]:
            if kind in ("inc", "api_inc", "api_tmpl"):
                out += self.exp_independent(j)
            elif kind in ("ns_body", "api_ns_body"):
                out += self.exp_body(j, "")
            else:
                out += self.exp_def(j)
        return out

    def exp_def(self, i):
        return "(%d.d:" % i + self.exp_refs(i, "def") + ")"

    def exp_body(self, i, nextbody):
        out = "[%d:" % i + self.exp_refs(i, "body")
        if self.has_d[i] and self.refs[i]["def"]:
            out += self.exp_def(i)
        if self.refs[i]["inline"]:
            out += "{%d.g:" % i + self.exp_refs(i, "inline") + "}"
        if i in self.is_base:
            out += nextbody
        return out + "]"

    def exp_independent(self, i):
        chain = [i]
        while chain[-1] in self.base:
            chain.append(self.base[chain[-1]])
        out = ""
        for lvl in chain:
            out = self.exp_body(lvl, out)
        return out

    def case(self):
        tpls = [self.template(i) for i in range(self.n)]
        c = dict(coll=[], dirs=["r%d" % k for k in range(self.ndirs)] if self.backing != "put" else [], files=[], mods=[],
                 backing=self.backing, data=[], entry=self.uris[0], ieh=self.ieh)
        for (how, d), u, t in zip(self.where, self.uris, tpls):
            if how == "put":
                c["coll"].append((u, t))
            else:
                c["files"].append(((d, u.lstrip("/")), t))
        if self.planted:
            plant_outside(c)
        return c

    def escape_uri(self, i):
        sib = ["r%d/%s" % (d, u.lstrip("/")) for (how, d), u in zip(self.where, self.uris) if how == "files"]
        return escaping_uri(self.rng, self.uris[i], sib[:3])

    def describe(self):
        d = []
        for i in range(self.n):
            for place, rs in self.refs[i].items():
                for kind, j, raw in rs:
                    d.append({"from": self.uris[i], "place": place, "kind": kind, "raw": raw, "to": self.uris[j],
                              "in_base_most": i in self.is_base and i not in self.base})
            if i in self.base:
                d.append({"from": self.uris[i], "place": "tag", "kind": "inherit", "to": self.uris[self.base[i]]})
        return d


def items_src_ext(t, items):
    """items_src plus the oracle-only item ('atr', recv, uri): ${recv.get_template(uri).render()}"""
    return items_src(t, [(("t", "${%s.get_template('%s').render()}" % (recv_src(it[1]), it[2])) if it[0] == "atr" else it)
                         for it in items])


def _patch_atr(t):
    """rewrite 'atr' items into literal text items (template_src only knows the model's item kinds)"""
    def fix(items):
        return [(("t", "${%s.get_template('%s').render()}" % (recv_src(it[1]), it[2])) if it[0] == "atr" else it)
                for it in items]
    t["body"] = fix(t["body"])
    t["defs"] = [(n, b, fix(its)) for n, b, its in t["defs"]]
    for ns in t["nss"]:
        ns["inline"] = [(n, fix(its)) for n, its in ns["inline"]]
    return t


def tree_check(tree, sb):
    """None if the implementation renders the tree as the property demands, else (status, out, expected)"""
    c = tree.case()
    for coll in (c["coll"], c["files"]):
        for _, t in coll:
            _patch_atr(t)
    materialise(c, sb)
    try:
        st, out, events = run_impl(c)
    finally:
        release(c)
    want = tree.exp_independent(0)
    if st == "ok" and out == want:
        return None
    tree.last_events = events
    return st, out, want


def shrink_tree(tree, sb, still_fails):
    """greedily drop references (and the sub-trees that become unreachable stay as unused templates)"""
    changed = True
    while changed:
        changed = False
        for i in range(tree.n):
            for place in ("body", "def", "inline"):
                for idx in range(len(tree.refs[i][place])):
                    saved = tree.refs[i][place]
                    tree.refs[i][place] = saved[:idx] + saved[idx + 1:]
                    if still_fails(tree):
                        changed = True
                        break
                    tree.refs[i][place] = saved
                if changed:
                    break
            if changed:
                break
        if not changed:
            for i in list(tree.base):
                b = tree.base.pop(i)
                tree.is_base.discard(b)
                if still_fails(tree):
                    changed = True
                    break
                tree.base[i] = b
                tree.is_base.add(b)
    return tree


def tree_site(tree, res):
    """a stable name for the failing situation of a shrunk tree"""
    refs = [r for r in tree.describe() if r["kind"] != "inherit"]
    st = res[0]
    ev = getattr(tree, "last_events", [])
    if st == "err:lookup" and ev and not ev[-1][4]:
        # the lookup that failed: was the adjusted URI merely a different spelling of a put_string entry?
        resolved = ev[-1][3]
        norm = posixpath.normpath(resolved)
        puts = [u for (how, _), u in zip(tree.where, tree.uris) if how == "put"]
        if norm != resolved and norm in puts:
            return "put_string-uri-not-normalised"
    if any(r["place"] == "inline" and r["in_base_most"] and r["kind"].startswith("api") for r in refs):
        return "local-in-inline-def-of-base-most-template"
    if len(refs) == 1:
        r = refs[0]
        return "uri:%s@%s:%s" % (r["kind"], r["place"], st)
    return "uri:%d-refs:%s" % (len(refs), st)


def oracle_uri_tree(ctx, sb):
    st = ctx.stream("oracle.uri_tree", "oracle")
    n = 180 if ctx.quick else 3000
    for _ in range(n):
        tree = Tree(ctx.rng)
        st["cases"] += 1
        res = tree_check(tree, sb)
        for r in tree.describe():
            ctx.branch("oracle:ref:%s@%s" % (r["kind"], r["place"]))
        ctx.branch("oracle:tree:backing:" + tree.backing)
        if res is None:
            continue
        shrink_tree(tree, sb, lambda t: tree_check(t, sb) is not None)
        res = tree_check(tree, sb)
        site = tree_site(tree, res)
        c = tree.case()
        for coll in (c["coll"], c["files"]):
            for _, t in coll:
                _patch_atr(t)
        report(ctx, site, {"input": site, "refs": tree.describe(), "repro": strip_case(c), "want": res[2]},
               "status %s, output %r, the property demands %r" % res, "oracle.uri_tree")


def oracle_unresolvable(ctx, sb):
    st = ctx.stream("oracle.unresolvable", "oracle")
    n = 100 if ctx.quick else 1500
    reported = set()
    for _ in range(n):
        tree = Tree(ctx.rng, backing="files", pbase=0.0)
        refs = tree.walk()
        if not refs:
            continue
        # keep only the path to one reference, then break it
        i, place, idx = ctx.rng.choice(refs)
        kind, j, raw = tree.refs[i][place][idx]
        escaping = ctx.rng.random() < 0.5
        if escaping:
            # climbs above the lookup root to a file that exists there (above the root, in a private sibling directory,
            # or in a lookup directory entered from outside): unresolvable, and its content must never be rendered
            bad = tree.escape_uri(i)
        else:
            bad = ctx.rng.choice(["nope.html", "/zz/nope.html", "sub/nope.html", "", "../" * 4 + "nope.html"])
        tree.refs[i][place][idx] = (kind, j, bad)
        st["cases"] += 1
        c = tree.case()
        for coll in (c["coll"], c["files"]):
            for _, t in coll:
                _patch_atr(t)
        materialise(c, sb)
        try:
            status, out = run_plain(c)
        finally:
            release(c)
        ctx.branch("oracle:unresolvable:%s:%s:%s" % (kind, "escaping" if escaping else "missing", status))
        if status == "err:lookup":
            continue
        # is the broken reference reached at all?  (an earlier one may be on a path that fails for a known reason)
        site = "unresolvable-uri:%s:%s" % ("escaping" if escaping else "empty" if bad == "" else "missing", status)
        report(ctx, site, {"input": bad, "kind": kind, "place": place, "from": tree.uris[i], "repro": strip_case(c),
                           "want_status": ["err:lookup"]},
               "an unresolvable URI must raise TemplateLookupException, got %s %r" % (status, out[:200]),
               "oracle.unresolvable")


# ---- O3: precedence -----------------------------------------------------------------------------------------

def oracle_precedence(ctx, sb):
    st = ctx.stream("oracle.precedence", "oracle")
    rng = ctx.rng
    n = 50 if ctx.quick else 800
    names = ["foo", "bar", "baz", "qux"]
    reported = set()
    for mod in MODS:
        sb.write_module(*mod)
    for _ in range(n):
        use_module = rng.random() < 0.25
        inline = set(rng.sample(names, rng.randint(0, 3)))
        dt = set(rng.sample(names, rng.randint(0, 3)))
        has_base = (not use_module) and rng.random() < 0.5
        db = set(rng.sample(names, rng.randint(0, 3))) if has_base else set()
        da = set(rng.sample(names, rng.randint(0, 2)))
        cvars = set(rng.sample(names, rng.randint(0, 4)))
        if use_module:
            modname, members = rng.choice(MODS)
            dt = {m for m, k, _ in members if k == "fn" and not m.startswith("_") and m in names}
            mod_all = {m: tag for m, k, tag in members if k == "fn"}
        mode = rng.choice(["none", "list", "star"])
        reachable = sorted(inline | dt | db)
        imp = None
        if mode == "list":
            imp = rng.sample(reachable, rng.randint(1, len(reachable))) if reachable else None
        elif mode == "star":
            imp = ["*"]
        auri, turi, buri = "/p/a.html", rng.choice(["/p/t.html", "/q/t.html", "/t.html"]), "/q/r/tb.html"
        backing = rng.choice(["put", "files"])
        nodd = backing != "files"
        strict = rng.random() < 0.5
        site_kind = rng.choice(["body", "def"])

        def qualified(k):
            if k in inline:
                return "[a.n.%s]" % k
            if k in dt:
                return mod_all[k] if use_module else "[t.%s]" % k
            if k in db:
                return "[tb.%s]" % k
            return None

        def unqualified(k):
            if k in da:
                return "[a.%s]" % k
            imported = (imp is not None) and ((k in imp) if imp != ["*"] else (k in inline or k in dt))
            if imported:
                return qualified(k)
            if k in cvars:
                return "<ctx.%s>" % k
            return None
        for k in names:
            for form in ("q", "u"):
                if form == "u" and site_kind == "def" and k == "probe":
                    continue
                want = qualified(k) if form == "q" else unqualified(k)
                ns = NS("n", ("m", modname) if use_module else ("f", ref_uri(rng, auri, turi, spice=False, avoid_dotdot=nodd)), False, imp,
                        [(d, [("t", "[a.n.%s]" % d)]) for d in sorted(inline)])
                q = ("c", ("ns", "n"), k) if form == "q" else ("n", k, True)
                adefs = [(d, False, [("t", "[a.%s]" % d)]) for d in sorted(da)]
                if site_kind == "def":
                    adefs.append(("probe", False, [q]))
                    body = [("n", "probe", True)]
                else:
                    body = [q]
                tpls = [(auri, T([], None, [ns], adefs, body))]
                if not use_module:
                    tpls.append((turi, T([], ref_uri(rng, turi, buri, spice=False, avoid_dotdot=nodd) if has_base else None, [],
                                         [(d, False, [("t", "[t.%s]" % d)]) for d in sorted(dt)], [("t", "[t.body]")])))
                    if has_base:
                        tpls.append((buri, T([], None, [], [(d, False, [("t", "[tb.%s]" % d)]) for d in sorted(db)],
                                             [("c", "next", "body")])))
                c = put_or_files(rng, tpls, backing)
                c["entry"] = auri
                c["data"] = [(x, ("obj", "<ctx.%s>" % x)) for x in sorted(cvars)]
                c["strict"] = strict
                if use_module:
                    c["mods"] = [(modname, members)]
                materialise(c, sb)
                try:
                    status, out = run_plain(c)
                finally:
                    release(c)
                rc = strip_case(c)
                st["cases"] += 1
                ctx.branch("oracle:precedence:%s:%s:%s:%s" % ("module" if use_module else "file", mode, form, "strict" if strict else "lax"))
                ok = (status == "ok" and out == want) if want is not None else status in ("err:attr", "err:type", "err:name")
                if ok:
                    continue
                if form == "u" and mode == "star" and k in inline and k in dt and k not in da and out == qualified_file(k, use_module, mod_all if use_module else None):
                    site = "star-import-shadows-inline-def"
                else:
                    site = "precedence:%s:%s:%s%s" % (form, mode, "module" if use_module else "file", ":strict_undefined" if strict else "")
                report(ctx, site, {"input": k, "form": "n.%s()" % k if form == "q" else "%s()" % k, "import": imp,
                                     "inline": sorted(inline), "target_defs": sorted(dt), "base_defs": sorted(db),
                                   "own_defs": sorted(da), "context": sorted(cvars), "called_from": site_kind, "strict_undefined": strict, "repro": rc,
                                   **({"want": want} if want is not None else {"want_status": ["err:attr", "err:type", "err:name"]})},
                       "got %s %r, the property demands %r" % (status, out, want), "oracle.precedence")
    # inheritable namespaces are reachable from self in derived templates
    for _ in range(10 if ctx.quick else 200):
        k = rng.choice(names)
        dt = set(rng.sample(names, rng.randint(1, 3))) | {k}
        depth = rng.randint(1, 3)
        uris = ["/d%d/l%d.html" % (i, i) for i in range(depth + 1)]
        turi = "/x/t.html"
        decl = rng.randint(1, depth)      # the level that declares the namespace (a base of level 0)
        tpls = []
        for lvl in range(depth + 1):
            nss = [NS("n", ("f", turi), True, None, [])] if lvl == decl else []
            body = [("c", "self", "n"), ("t", "")] if False else []
            if lvl == 0:
                body = [("t", "${self.n.%s()}" % k)]
            else:
                body = [("c", "next", "body")]
            tpls.append((uris[lvl], T([], uris[lvl + 1] if lvl < depth else None, nss, [], body)))
        tpls.append((turi, T([], None, [], [(d, False, [("t", "[t.%s]" % d)]) for d in sorted(dt)], [])))
        c = put_or_files(rng, tpls, rng.choice(["put", "files"]))
        c["entry"] = uris[0]
        materialise(c, sb)
        try:
            status, out = run_plain(c)
        finally:
            release(c)
        st["cases"] += 1
        ctx.branch("oracle:inheritable:depth%d" % depth)
        if not (status == "ok" and out == "[t.%s]" % k):
            report(ctx, "inheritable-namespace-not-reachable-from-self",
                   {"input": k, "repro": strip_case(c), "want": "[t.%s]" % k}, "got %s %r" % (status, out), "oracle.precedence")


def qualified_file(k, use_module, mod_all):
    return mod_all[k] if use_module else "[t.%s]" % k


# ---- O4: include independence and argument sourcing -------------------------------------------------------

def oracle_include(ctx, sb):
    st = ctx.stream("oracle.include", "oracle")
    rng = ctx.rng
    n = 120 if ctx.quick else 2000
    reported = set()
    params_pool = ["x", "y", "z", "w"]
    for _ in range(n):
        params = rng.sample(params_pool, rng.randint(0, 3))
        page = sorted([(p, ("d.%s" % p) if rng.random() < 0.7 else None) for p in params], key=lambda q: q[1] is not None)
        explicit = [p for p in params_pool if rng.random() < 0.4]
        cvars = [p for p in params_pool if rng.random() < 0.5]
        situation = rng.choice(["body", "derived-body", "base-body", "def", "api", "def-via-namespace", "inline-def"])
        auri, turi = rng.choice(["/a.html", "/p/a.html", "/p/q/a.html"]), rng.choice(["/t.html", "/p/t.html", "/s/t.html"])
        t_inherits = rng.random() < 0.25
        tburi = "/s/tb.html"
        probe = ("t", "{self=${self.uri};local=${local.uri};parent=${'parent' in context.keys()};next=${'next' in context.keys()}}")
        tbody = [("t", "[t")] + [("t", " %s=${%s}" % (p, p)) for p, _ in page] + [probe, ("t", "]")]
        tpls = [(turi, T(page, tburi if t_inherits else None, [], [], tbody))]
        if t_inherits:
            tpls.append((tburi, T([], None, [], [], [("t", "[tb"), probe, ("t", "${next.body(**pageargs)}"), ("t", "]")])))
        inc_backing = rng.choice(["put", "files", "mixed"])
        raw = ref_uri(rng, auri, turi, spice=False, avoid_dotdot=inc_backing != "files")
        args = [(p, "a.%s" % p) for p in explicit]
        inc = ("i", raw, args) if situation != "api" else ("ai", "local", raw, args)
        wrap_l, wrap_r = "", ""
        if situation in ("body", "api"):
            tpls.append((auri, T([], None, [], [], [inc])))
        elif situation == "derived-body":
            tpls.append((auri, T([], "/base.html", [], [], [inc])))
            tpls.append(("/base.html", T([], None, [], [], [("t", "<"), ("c", "next", "body"), ("t", ">")])))
            wrap_l, wrap_r = "<", ">"
        elif situation == "base-body":
            # the entry is a derived template; the include is written in its base
            tpls.append(("/zz/entry.html", T([], auri, [], [], [("t", "e")])))
            tpls.append((auri, T([], None, [], [], [inc, ("c", "next", "body")])))
            wrap_r = "e"
        elif situation == "def":
            tpls.append((auri, T([], None, [], [("d", False, [inc])], [("n", "d", True)])))
        elif situation == "def-via-namespace":
            tpls.append(("/zz/entry.html", T([], None, [NS("n", ("f", auri))], [], [("c", ("ns", "n"), "d")])))
            tpls.append((auri, T([], None, [], [("d", False, [inc])], [])))
        elif situation == "inline-def":
            tpls.append((auri, T([], None, [NS("m", ("p",), inline=[("g", [inc])])], [], [("c", ("ns", "m"), "g")])))
        entry = "/zz/entry.html" if situation in ("base-body", "def-via-namespace") else auri
        c = put_or_files(rng, tpls, inc_backing)
        c["entry"] = entry
        c["ieh"] = rng.random() < 0.5
        c["data"] = [(p, ("obj", "c.%s" % p)) for p in cvars]
        # expectation ------------------------------------------------------------------------------------------
        vals, missing = [], False
        for p, d in page:
            if p in explicit:
                vals.append(" %s=a.%s" % (p, p))
            elif p in cvars and not t_inherits:
                vals.append(" %s=c.%s" % (p, p))
            elif p in cvars and t_inherits:
                vals.append(None)           # the base decides what it passes on: not checked
                if d is None:
                    missing = True
            elif d is not None:
                vals.append(" %s=%s" % (p, d))
            else:
                missing = True
        if t_inherits:
            want_re = re.escape(wrap_l) + r"\[tb\{self=%s;local=%s;parent=False;next=True\}\[t" % (re.escape(turi), re.escape(tburi)) + \
                "".join((r" \w=[\w.]+" if v is None else re.escape(v)) for v in vals) + \
                r"\{self=%s;local=%s;parent=True;next=False\}\]\]" % (re.escape(turi), re.escape(turi)) + re.escape(wrap_r)
        else:
            want_re = re.escape(wrap_l) + r"\[t" + "".join(re.escape(v) for v in vals) + \
                r"\{self=%s;local=%s;parent=False;next=False\}\]" % (re.escape(turi), re.escape(turi)) + re.escape(wrap_r)
        materialise(c, sb)
        try:
            status, out = run_plain(c)
        finally:
            release(c)
        st["cases"] += 1
        ctx.branch("oracle:include:%s:%s:%s" % (situation, "inheriting-target" if t_inherits else "plain-target",
                                                "error-handler" if c["ieh"] else "no-handler"))
        if missing and not t_inherits:
            ok = status == "err:type"
        elif missing:
            ok = True
        else:
            ok = status == "ok" and re.fullmatch(want_re, norm_probe(out)) is not None
        if ok:
            continue
        site = "include:%s:%s%s" % (situation, status, ":include_error_handler" if c["ieh"] else "")
        report(ctx, site, {"input": situation, "include_error_handler": c["ieh"], "page": page, "args": args, "context": cvars, "repro": strip_case(c),
                           **({"want_status": ["err:type"]} if missing else {"want_re": want_re})},
               "got %s %r, the property demands a match of %s" % (status, out, want_re), "oracle.include")


# ---- O5: adversarial families -------------------------------------------------------------------------------

RESERVED_DEF_NAMES = ["name", "uri", "template", "module", "filename", "inherits", "callables", "attr",
                      "get_namespace", "get_template", "include_file"]


def adv_run(ctx, st, tpls, entry, want, data=(), backing="put"):
    """render a fixed scenario (put_string unless said otherwise); returns (ok, status, out, stripped case)"""
    c = put_or_files(ctx.rng, tpls, backing, 1)
    c["entry"] = entry
    c["data"] = list(data)
    status, out = run_plain(c)
    st["cases"] += 1
    return (status, out) == ("ok", want), status, out, strip_case(c)


def oracle_adversarial(ctx, sb):
    """fixed witnesses of the recorded findings and of their neighbours (run first, so that the random families
    report a site at most once)"""
    st = ctx.stream("oracle.adversarial", "oracle")
    # (a) defs whose names are attributes of the Namespace class
    bad, first = [], None
    for nm in RESERVED_DEF_NAMES + ["foo", "render", "keys", "body_"]:
        for form in ("q", "list", "star"):
            imp = None if form == "q" else ([nm] if form == "list" else ["*"])
            a = T([], None, [NS("n", ("f", "t.html"), False, imp, [])], [],
                  [("c", ("ns", "n"), nm) if form == "q" else ("n", nm, True)])
            t = T([], None, [], [(nm, False, [("t", "[t.%s]" % nm)])], [])
            ok, status, out, rc = adv_run(ctx, st, [("/a.html", a), ("/t.html", t)], "/a.html", "[t.%s]" % nm)
            ctx.branch("oracle:reserved-name:%s:%s" % (form, "ok" if ok else status))
            if not ok:
                bad.append("%s:%s" % (nm, form))
                first = first or (nm, form, status, out, rc)
    if bad:
        nm, form, status, out, rc = first
        report(ctx, "def-name-shadowed-by-namespace-attribute",
               {"input": nm, "form": form, "all": sorted(bad), "repro": rc, "want": "[t.%s]" % nm},
               "n.%s() gives %s %r; the def is not exposed (all failing name:form pairs: %s)" % (nm, status, out, sorted(bad)),
               "oracle.adversarial")
    # (b) two templates whose URIs differ only in non-word characters, each with its own namespace `n`
    for u1, u2 in [("/a-b.html", "/a_b.html"), ("/x/y.html", "/x_y.html"), ("/a.b.html", "/a/b.html")]:
        tpls = [("/main.html", T([], None, [], [], [("i", u1, []), ("i", u2, [])])),
                (u1, T([], None, [NS("n", ("f", "/t1.html"))], [], [("c", ("ns", "n"), "body")])),
                (u2, T([], None, [NS("n", ("f", "/t2.html"))], [], [("c", ("ns", "n"), "body")])),
                ("/t1.html", T(body=[("t", "[t1]")])), ("/t2.html", T(body=[("t", "[t2]")]))]
        ok, status, out, rc = adv_run(ctx, st, tpls, "/main.html", "[t1][t2]")
        ctx.branch("oracle:module-id-collision:" + ("ok" if ok else "wrong"))
        if not ok:
            report(ctx, "namespace-cache-keyed-by-module-id", {"input": [u1, u2], "repro": rc, "want": "[t1][t2]"},
                   "got %s %r, the property demands '[t1][t2]'" % (status, out), "oracle.adversarial")
    # (c) a namespace obtained with get_namespace() exposes the target's body and blocks like the tag does
    for how in ("tag", "api"):
        ref = [("c", ("ns", "n"), "body")] if how == "tag" else [("an", "local", "t.html", "body")]
        tpls = [("/a.html", T([], "base.html", [NS("n", ("f", "t.html"))] if how == "tag" else [], [], ref)),
                ("/base.html", T([], None, [], [("k", True, [("t", "[base.k]")])], [("t", "<"), ("c", "next", "body"), ("t", ">"), ("b", "k")])),
                ("/t.html", T([], None, [], [("k", True, [("t", "[t.k]")])], [("t", "[t:"), ("b", "k"), ("t", "]")]))]
        ok, status, out, rc = adv_run(ctx, st, tpls, "/a.html", "<[t:[t.k]]>[base.k]")
        ctx.branch("oracle:body-with-block-via-%s:%s" % (how, "ok" if ok else "wrong"))
        if not ok:
            report(ctx, "get_namespace-keeps-inheritance-tokens" if how == "api" else "namespace-tag-body-with-block",
                   {"input": how, "repro": rc, "want": "<[t:[t.k]]>[base.k]"},
                   "got %s %r, the property demands '<[t:[t.k]]>[base.k]'" % (status, out), "oracle.adversarial")
    # (d) a def written inside <%namespace> reads a context name while a namespace with import= is declared
    failing, first = [], None
    for order in ("import-first", "import-last", "same-tag", "no-import"):
        imp_ns = NS("m", ("f", "t.html"), False, ["*"], [])
        inl = NS("n", ("p",), False, None, [("g", [("t", "[g:"), ("n", "x", False), ("t", "]")])])
        if order == "import-first":
            nss = [imp_ns, inl]
        elif order == "import-last":
            nss = [inl, imp_ns]
        elif order == "same-tag":
            nss = [NS("n", ("f", "t.html"), False, ["*"], inl["inline"])]
        else:
            nss = [inl]
        tpls = [("/a.html", T([], None, nss, [], [("c", ("ns", "n"), "g")])), ("/t.html", T())]
        ok, status, out, rc = adv_run(ctx, st, tpls, "/a.html", "[g:X]", data=[("x", ("obj", "X"))])
        ctx.branch("oracle:inline-def-with-import:%s:%s" % (order, status))
        if not ok:
            failing.append(order)
            first = first or (order, status, out, rc)
    if failing:
        order, status, out, rc = first
        report(ctx, "inline-def-after-import-namespace", {"input": order, "orders": failing, "repro": rc, "want": "[g:X]"},
               "got %s %r, the property demands '[g:X]' (failing orders: %s)" % (status, out, failing), "oracle.adversarial")
    # (e) import="*" and a def written inside the tag that has the name of a def of the file
    for mode in ("star", "named"):
        tpls = [("/a.html", T([], None, [NS("n", ("f", "t.html"), False, ["*"] if mode == "star" else ["foo"],
                                          [("foo", [("t", "[a.n.foo]")])])], [], [("c", ("ns", "n"), "foo"), ("n", "foo", True)])),
                ("/t.html", T([], None, [], [("foo", False, [("t", "[t.foo]")])], []))]
        ok, status, out, rc = adv_run(ctx, st, tpls, "/a.html", "[a.n.foo][a.n.foo]")
        ctx.branch("oracle:inline-vs-import:%s:%s" % (mode, "ok" if ok else "wrong"))
        if not ok:
            report(ctx, "star-import-shadows-inline-def" if (mode, out) == ("star", "[a.n.foo][t.foo]") else "inline-vs-import:" + mode,
                   {"input": "foo", "repro": rc, "want": "[a.n.foo][a.n.foo]"},
                   "n.foo() then foo() give %s %r, the property demands '[a.n.foo][a.n.foo]'" % (status, out), "oracle.adversarial")
    # (f) local.get_template(rel) in a def written inside a <%namespace> of a base template
    for lvl in ("base-most", "middle", "derived"):
        inl = NS("m", ("p",), False, None, [("g", [("at", "local", "q.html")])])
        call = [("c", ("ns", "m"), "g")]
        nb = [("c", "next", "body")]
        tpls = [("/d/a.html", T([], "/m/mid.html", [inl] if lvl == "derived" else [], [], call if lvl == "derived" else [("t", ".")])),
                ("/m/mid.html", T([], "/b/base.html", [inl] if lvl == "middle" else [], [], (call if lvl == "middle" else []) + nb)),
                ("/b/base.html", T([], None, [inl] if lvl == "base-most" else [], [], (call if lvl == "base-most" else []) + nb))] + \
            [("/%s/q.html" % x, T(body=[("t", "q")])) for x in "dmb"]
        want = {"base-most": "/b/q.html.", "middle": "/m/q.html.", "derived": "/d/q.html"}[lvl]
        ok, status, out, rc = adv_run(ctx, st, tpls, "/d/a.html", want)
        ctx.branch("oracle:local-in-inline-def:%s:%s" % (lvl, "ok" if ok else "wrong"))
        if not ok:
            report(ctx, "local-in-inline-def-of-base-most-template" if lvl == "base-most" else "local-in-inline-def:" + lvl,
                   {"input": lvl, "repro": rc, "want": want},
                   "got %s %r, the property demands %r" % (status, out, want), "oracle.adversarial")
    # (g) relative URIs with '..' / '.' / '//' against put_string and against files
    for backing in ("put", "files"):
        for raw in ("../x.html", "./y.html", "..//x.html", "../sub/../x.html"):
            tpls = [("/sub/a.html", T(body=[("i", raw, [])])), ("/x.html", T(body=[("t", "[x]")])), ("/sub/y.html", T(body=[("t", "[y]")]))]
            want = "[y]" if "y" in raw else "[x]"
            c = put_or_files(ctx.rng, tpls, backing, 1)
            c["entry"] = "/sub/a.html"
            materialise(c, sb)
            try:
                status, out = run_plain(c)
            finally:
                release(c)
            st["cases"] += 1
            ctx.branch("oracle:dotted-uri:%s:%s" % (backing, "ok" if (status, out) == ("ok", want) else status))
            if (status, out) != ("ok", want):
                report(ctx, "put_string-uri-not-normalised" if (backing, status) == ("put", "err:lookup") else "dotted-uri:" + backing,
                       {"input": raw, "repro": strip_case(c), "want": want},
                       "got %s %r, the property demands %r" % (status, out, want), "oracle.adversarial")
    # (h) unresolvable URIs from every construct
    for raw in ("", "nope.html", "/nope.html"):
        for how in ("incl", "ns", "inherit", "get_template", "get_namespace", "include_file"):
            if how == "incl":
                a = T(body=[("i", raw, [])])
            elif how == "ns":
                a = T(nss=[NS("n", ("f", raw))], body=[("c", ("ns", "n"), "body")])
            elif how == "inherit":
                a = T(inherit=raw, body=[("t", ".")])
            elif how == "get_template":
                a = T(body=[("at", "local", raw)])
            elif how == "get_namespace":
                a = T(body=[("an", "local", raw, "body")])
            else:
                a = T(body=[("ai", "local", raw, [])])
            c = put_or_files(ctx.rng, [("/a.html", a)], "put", 1)
            c["entry"] = "/a.html"
            status, out = run_plain(c)
            st["cases"] += 1
            ctx.branch("oracle:unresolvable:%s:%s:%s" % (how, "empty" if raw == "" else "missing", status))
            if status != "err:lookup":
                report(ctx, "unresolvable-uri:%s:%s" % ("empty" if raw == "" else "missing", status),
                       {"input": raw, "kind": how, "repro": strip_case(c), "want_status": ["err:lookup"]},
                       "an unresolvable URI must raise TemplateLookupException, got %s %r" % (status, out[:200]),
                       "oracle.adversarial")


# ---- O6: the same relative string written in templates of different directories ------------------------------

def oracle_same_relative(ctx, sb):
    """>= 2 templates in different directories, all reached in ONE render (include / namespace body() / inheritance),
    each calling local.get_namespace / get_template / include_file (or using a tag) with the SAME relative string;
    same-named targets in every directory render distinguishable text.  Demanded: each caller reaches the target that
    the string denotes relative to the template it is written in."""
    st = ctx.stream("oracle.same_relative", "oracle")
    rng = ctx.rng
    n = 60 if ctx.quick else 1200
    for _ in range(n):
        k = rng.randint(2, 4)
        shape = rng.choice(["beside", "shared"])
        backing = "files" if shape == "shared" else rng.choice(["put", "files", "mixed"])
        tops = rng.sample(["d1", "d2", "d3", "d4/e", "f/g"], k)
        if shape == "beside":
            rel = rng.choice(["helper.html", "sub/helper.html"])
            cdirs = ["/" + t for t in tops]
        else:
            rel = "../shared/helper.html"
            cdirs = ["/%s/x" % t for t in tops]
        api = rng.choice(["get_namespace", "get_namespace", "get_template", "include_file", "include-tag", "namespace-tag"])
        reach = rng.choice(["include", "namespace-body", "inherit", "mixed"])
        chain = api == "get_namespace" and rng.random() < 0.5
        tpls, want_parts = [], []
        callers = ["%s/c%d.html" % (d, i) for i, d in enumerate(cdirs)]
        for i, (d, cu) in enumerate(zip(cdirs, callers)):
            target = posixpath.normpath(posixpath.join(d, rel))
            if chain:
                # the helper, itself obtained by get_namespace(rel), asks for the same relative 'leaf.html' again
                tpls.append((target, T(body=[("t", "("), ("an", "local", "leaf.html", "body"), ("t", ")")])))
                tpls.append((posixpath.join(posixpath.dirname(target), "leaf.html"), T(body=[("t", "[h%d]" % i)])))
            else:
                tpls.append((target, T(body=[("t", "[h%d]" % i)])))
            nss = []
            if api == "get_namespace":
                use = [("an", "local", rel, "body")]
            elif api == "get_template":
                use = [("t", "${local.get_template('%s').render()}" % rel)]
            elif api == "include_file":
                use = [("ai", "local", rel, [])]
            elif api == "include-tag":
                use = [("i", rel, [])]
            else:
                nss = [NS("hn", ("f", rel))]
                use = [("c", ("ns", "hn"), "body")]
            tpls.append((cu, dict(T([], None, nss, [], [("t", "<c%d:" % i)] + use + [("t", ">")]), _i=i)))
        order = list(range(k))
        rng.shuffle(order)
        how = reach
        hfmt = "<c%d:([h%d])>" if chain else "<c%d:[h%d]>"
        main_nss, main_body = [], []
        cd = dict(tpls)
        if how == "inherit":
            # main inherits caller order[0], which inherits order[1], ...: the base-most body runs first
            chain = [callers[i] for i in order]
            for a_, b_ in zip(chain, chain[1:]):
                cd[a_]["inherit"] = b_
            for cu in chain:
                cd[cu]["body"].append(("c", "next", "body"))
            main = T([], chain[0], [], [], [("t", "m")])
            want = ""
            for i in order:          # outermost text belongs to the base-most = last of the chain
                pass
            want = "m"
            for i in order:
                want = hfmt % (i, i) + want
        else:
            want = ""
            for j, i in enumerate(order):
                w = how if how != "mixed" else rng.choice(["include", "namespace-body"])
                if w == "include":
                    main_body.append(("i", callers[i], []))
                else:
                    main_nss.append(NS("m%d" % j, ("f", callers[i])))
                    main_body.append(("c", ("ns", "m%d" % j), "body"))
                want += hfmt % (i, i)
            main = T([], None, main_nss, [], main_body)
        for t in cd.values():
            t.pop("_i", None)
        tpls = [("/main.html", main)] + list(cd.items())
        c = put_or_files(rng, tpls, backing)
        c["entry"] = "/main.html"
        c["ieh"] = rng.random() < 0.4
        materialise(c, sb)
        try:
            status, out = run_plain(c)
        finally:
            release(c)
        st["cases"] += 1
        ctx.branch("oracle:same-relative:%s:%s:%s" % (shape, api + ("-chain" if chain else ""), reach))
        if (status, out) == ("ok", want):
            continue
        report(ctx, "same-relative-uri:%s:%s" % (api + ("-chain" if chain else ""), status),
               {"input": rel, "api": api, "chain": chain, "reached_by": reach, "callers": callers, "repro": strip_case(c), "want": want},
               "got %s %r, the property demands %r (every caller writes %r)" % (status, out, want, rel), "oracle.same_relative")


# ---- O6b: chains of get_namespace() - the namespace obtained by a relative get_namespace() asks again ---------

def _chain_set(dirs, reach, second, third=False):
    """main reaches one caller per directory in ONE render; every caller writes local.get_namespace('helper.html'),
    every helper writes the SAME relative string 'leaf.html' (through `second`), optionally the leaf goes on to
    'tip.html'.  Returns (templates, entry, demanded output): by the rule of the property each relative string denotes
    the file beside the template it is written in, so chain i must end in directory i."""
    tpls, want = [], ""
    main_nss, main_body = [], []
    for i, d in enumerate(dirs):
        cu = "%s/c%d.html" % (d, i) if i or reach != "first-is-entry" else None
        if second == "ns-def":
            hitems = [("an", "local", "leaf.html", "who")]
        elif second == "ns-body":
            hitems = [("an", "local", "leaf.html", "body")]
        elif second == "include_file":
            hitems = [("ai", "local", "leaf.html", [])]
        else:
            hitems = [("t", "${local.get_template('leaf.html').render()}")]
        tail = [("an", "local", "tip.html", "body")] if third else []
        mark = [("t", "[leaf%d]" % i)] + tail
        leaf = T(defs=[("who", False, mark)], body=[] if second == "ns-def" else mark)
        helper = T(defs=[("show", False, [("t", "(")] + hitems + [("t", ")")])])
        use = [("t", "<c%d:" % i), ("an", "local", "helper.html", "show"), ("t", ">")]
        tpls += [(d + "/helper.html", helper), (d + "/leaf.html", leaf)]
        if third:
            tpls.append((d + "/tip.html", T(body=[("t", "[tip%d]" % i)])))
        want += "<c%d:([leaf%d]%s)>" % (i, i, "[tip%d]" % i if third else "")
        if cu is None:
            main_body += use
            continue
        tpls.append((cu, T(body=use)))
        if reach == "namespace-body":
            main_nss.append(NS("m%d" % i, ("f", cu)))
            main_body.append(("c", ("ns", "m%d" % i), "body"))
        else:
            main_body.append(("i", cu, []))
    entry = dirs[0] + "/main.html"
    tpls.insert(0, (entry, T(nss=main_nss, body=main_body)))
    return tpls, entry, want


def oracle_ns_chain(ctx, sb):
    """fixed witnesses (always run): within one render, templates of 2..3 directories each obtain
    local.get_namespace('helper.html') and each helper asks for 'leaf.html' (get_namespace + def / body(),
    include_file, get_template) - the namespaces made by get_namespace() carry the same *name* ('helper.html') in
    every directory, only the objects differ.  Demanded: chain i reaches the leaf (and tip) of directory i."""
    st = ctx.stream("oracle.adversarial", "oracle")
    plans = []
    for second in ("ns-def", "ns-body", "include_file", "get_template"):
        plans.append((["/a", "/b"], "first-is-entry", second, False, "put"))      # the demo shape: main calls, then includes /b
        plans.append((["/b", "/a"], "include", second, False, "files"))
        plans.append((["/d1", "/d2/e", "/f"], "namespace-body", second, False, "put"))
    plans.append((["/a", "/b"], "first-is-entry", "ns-def", True, "put"))           # three links: helper -> leaf -> tip
    plans.append((["/a/x", "/a/y", "/b/x"], "include", "ns-body", True, "files"))
    for dirs, reach, second, third, backing in plans:
        tpls, entry, want = _chain_set(dirs, reach, second, third)
        c = put_or_files(ctx.rng, tpls, backing, 1)
        c["entry"] = entry
        materialise(c, sb)
        try:
            status, out = run_plain(c)
        finally:
            release(c)
        st["cases"] += 1
        ok = (status, out) == ("ok", want)
        ctx.branch("oracle:ns-chain:%s:%s:%s:%s" % (reach, second, "3" if third else "2", "ok" if ok else status))
        if not ok:
            report(ctx, "get_namespace-chain:%s:%s" % (second, status),
                   {"input": "leaf.html", "second": second, "reached_by": reach, "dirs": dirs, "repro": strip_case(c), "want": want},
                   "got %s %r, the property demands %r (every helper.html, obtained by local.get_namespace('helper.html'), "
                   "writes 'leaf.html': it denotes the leaf beside that helper)" % (status, out, want), "oracle.adversarial")


def oracle_escaping(ctx, sb):
    """fixed witnesses: every construct, written at depth 2, with a relative and an absolute URI that leave the lookup
    root towards a file that exists (above the root / private sibling directory / the second lookup directory);
    demanded: TemplateLookupException, and in no case the outside content.  Also lookup.get_template itself."""
    from mako.lookup import TemplateLookup
    from mako import exceptions as X
    st = ctx.stream("oracle.adversarial", "oracle")
    raws = ["../../../outside.html", "/l1/../../outside.html", "../../../private/secret.html", "/l1/l2/../../../r1/inner.html",
            "sub/../../../../outside.html"]
    for raw in raws:
        for how in ("incl", "ns", "inherit", "get_template", "get_namespace", "include_file", "lookup.get_template"):
            if how == "incl":
                a = T(body=[("i", raw, [])])
            elif how == "ns":
                a = T(nss=[NS("n", ("f", raw))], body=[("c", ("ns", "n"), "body")])
            elif how == "inherit":
                a = T(inherit=raw, body=[("t", ".")])
            elif how == "get_template":
                a = T(body=[("t", "${local.get_template('%s').render()}" % raw)])
            elif how == "get_namespace":
                a = T(body=[("an", "local", raw, "body")])
            else:
                a = T(body=[("ai", "local", raw, [])])
            c = dict(coll=[], dirs=["r0", "r1"], files=[((0, "l1/l2/a.html"), a), ((1, "inner.html"), T(body=[("t", "[r1.inner]")]))],
                     mods=[], backing="files", data=[], entry="/l1/l2/a.html")
            plant_outside(c)
            materialise(c, sb)
            try:
                if how == "lookup.get_template":
                    lk = TemplateLookup(directories=list(c["dirs"]))
                    u = raw if raw.startswith("/") else "/l1/l2/" + raw
                    try:
                        out = lk.get_template(u).render()
                        status = "ok"
                    except X.TemplateLookupException:
                        status, out = "err:lookup", ""
                else:
                    status, out = run_plain(c)
            finally:
                release(c)
            st["cases"] += 1
            ctx.branch("oracle:escaping:%s:%s" % (how, status))
            if status != "err:lookup" or "OUTSIDE" in out or "r1.inner" in out:
                report(ctx, "unresolvable-uri:escaping:%s" % status,
                       {"input": raw, "kind": how, "repro": strip_case(c), "want_status": ["err:lookup"]},
                       "a URI that leaves the lookup root must raise TemplateLookupException, got %s %r" % (status, out[:200]),
                       "oracle.adversarial")


def oracle(ctx, sb):
    for fam in (oracle_adversarial, oracle_escaping, oracle_ns_chain, oracle_same_relative, oracle_uri_tree, oracle_unresolvable, oracle_precedence, oracle_include):
        try:
            fam(ctx, sb)
        except Exception:
            import traceback
            ctx.broke("oracle:" + fam.__name__, traceback.format_exc())
    ctx.log("oracle: " + ", ".join("%s=%d" % (k, v["cases"]) for k, v in ctx.streams.items() if v["kind"] == "oracle"))


def run(ctx):
    sb = Sandbox()
    try:
        try:
            corr(ctx, sb)
        finally:
            oracle(ctx, sb)
    finally:
        sb.close()


def replay(ctx, data):
    """re-run the recorded case on the implementation (oracle cases: against what the property demands; correspondence
    cases: against the model)"""
    case = data.get("case") or (data.get("first_disagreements") or [{}])[0].get("case")
    if not isinstance(case, dict):
        print("nothing to replay in", data.get("kind"))
        return False
    sb = Sandbox()
    try:
        rc = case.get("repro", case)
        c = revive(rc)
        for name, members in c.get("mods", []):
            sb.write_module(name, [tuple(m) for m in members])
        print("sources:")
        for k, v in (rc.get("sources") or {}).items():
            print("  %s :: %s" % (k, v))
        print("entry %s, context %s" % (c["entry"], [k for k, _ in c["data"]]))
        materialise(c, sb)
        status, out, events = run_impl(c)
        print("implementation: %s %r" % (status, out))
        for e in events:
            print("   lookup", e)
        agree = None
        if "repro" not in case:
            ms, mo, me = parse_model(ctx.driver().ask(w_render(c)))
            print("model         : %s %r" % (ms, mo if ms == "ok" else ""))
            for e in me:
                print("   lookup", e)
            agree = (ms, mo if ms == "ok" else "", me) == (status, out, events) or "<<repr>>" in mo
        if "repro" in case:
            for k in ("want", "want_re", "want_status"):
                if k in case:
                    print("the property demands %s = %r" % (k, case[k]))
            return holds(case, status, out)
        return bool(agree)
    finally:
        sb.close()


DRIVER_OPS = ["ns"]   # per-area driver executable(s) this check talks to (built before any worker is forked)
