"""C16 - concurrent lookups and renders behave like some sequential execution.

corr  : streams `corr.sched.<scenario>` and `corr.corpus`: the real TemplateLookup / LRUCache / Template / runtime
        under the deterministic scheduler of harness/sched.py (one real thread per model thread, yielding at the
        model's scheduling points) against the Lean interleaving model (lean/MakoModel/Conc/Model.lean, driver op
        `conc`) run on the SAME schedule: the sequence of (thread, scheduling point) taken, the per-thread results
        (template id / content version / compile stamp / returned straight from the second-chance read (only with
        filesystem_checks off)? / exception kind / render output / adjust_uri result), the construction count, the
        final collection (keys, ids, LRU stamps), deadlock and finished flags.  Schedules: ALL schedules of each
        scenario (fewest preemptions first; a scenario whose tree does not fit the tier's time share is cut there
        and reported as not exhaustive).  `corr.corpus` replays the regression schedules of corpus/C16 first.
oracle: no Lean.  Stream `oracle.sched` (every run of the corr streams), `oracle.explore.<scenario>` (scenarios that
        are not modelled step by step: renders with <%include> on a bounded lookup, first renders with
        <%namespace module=...> of a never-imported module whose body yields to the scheduler, the import lock being
        an instrumented lock), `oracle.cache-lines` (first cached calls of a def with its own cache_region on a
        back end that needs it, a point at every executed line of mako/cache.py, every stop line of one thread with
        the other running to completion, both ways round), `oracle.lru-lines` (bounded lookups, a point at every
        executed line of the LRUCache methods of mako/util.py, a writer stopped at every line while a reader on the
        lock-free hit path runs to completion and vice versa, collection_size 1, 2 x filesystem_checks on/off),
        `oracle.pct-lines` (PCT random-priority schedules, depth 3,
        a point at every executed line of mako code and every template-level call).  Checked per get_template call:
        the returned object is a Template (never None or a half-made entry); freshness under C14's rule w.r.t. the
        file as it was when the call performed its first action; only documented exceptions; per run: (kind, version) results linearisable against a sequential reference lookup;
        first requests compile once / same object; no thread blocked at the end (deadlock / time-out / stray thread);
        mutex acquire/release pairing; LRU bound whenever no thread is inside an LRU write; render output = the
        output of the same render run alone; adjust_uri raises nothing.
Regenerated obligations (group Conc): every lazily initialised shared cell is stored complete; ModuleNamespace
        obtains its module through the import machinery only; LRUCache.__setitem__ inserts an entry together with
        its value.
"""
from __future__ import annotations

import os
import re
import shutil
import sys
import tempfile
import time

from harness import sched as S
from harness.common import ddmin

RULE = ("scenarios = 2-3 thread programs over {get same/different URI, tick + modify + get, failing compile, "
        "file appearing in an earlier directory, filesystem_checks off, LRU collection_size 1-2 (incl. a stale-check pop "
        "racing _manage_size), render with distinct contexts (cached def => first use of Template.cache), adjust_uri on a "
        "plain / bounded lookup} x every schedule at the model's scheduling points (collection read/write/pop, os.stat, "
        "os.path.isfile, mutex acquire/release, Template construction, LRU len/del, memoized_property miss, _uri_cache "
        "read/store), enumerated in order of increasing preemption count until the tier's time share of the scenario "
        "is used up, each compared with the Lean model on the same schedule; oracle-only scenarios explored the same "
        "way: renders with <%include> on a bounded / plain lookup, first renders with <%namespace module=...> of a "
        "fresh module whose body yields between its definitions (import lock instrumented; 240 schedules when the "
        "scenario's time share suffices - the stream's exhaustive flag in the evidence says whether it did); "
        "first cached calls of a def with its own cache_region on a region-dependent back end with a point at every "
        "executed line of mako/cache.py (every stop line of one thread x the other running to completion, both ways "
        "round, exhaustive); bounded lookups (collection_size 1, 2 x filesystem_checks on/off; first store, and a store "
        "that evicts the reader's entry) with a point at every executed line of the LRUCache methods: writer stopped at "
        "every line x reader on the lock-free hit path running to completion, and vice versa (exhaustive); the "
        "corpus/C16 regression schedules; plus PCT random-priority schedules (depth 3) with a "
        "point at every executed line of mako code; a schedule is non-trivial when it contains at least one "
        "preemption; distinct = distinct (scenario, executed schedule)")
ASSUMPTIONS = [
    "atomicity of single dict operations, of sorted(dict.values()) and of attribute look-up is the GIL's "
    "(free-threaded builds out of scope)",
    "file writes are atomic w.r.t. readers and mtimes are whole seconds on a simulated clock (time.time as seen by "
    "mako.codegen, timeit.default_timer as seen by mako.util are patched from the harness)",
    "the cache back end is keyed globally by Cache.id (true of Beaker and dogpile): two racing first uses of "
    "Template.cache create two Cache objects that address the same stored values",
    "files are modified or created, never removed, while lookups run (C16's operations); put_string/put_template "
    "are not exercised concurrently",
    "the per-module import lock of importlib is represented by an instrumented lock around `__import__` as seen by "
    "mako.runtime (a thread importing a module whose first import another thread is still executing waits)",
    "termination of a single get_template call while files keep being modified concurrently is not claimed",
]
TRUSTED_EXTRA = [
    "C16: harness/sched.py (token-passing scheduler; instrumented mutex / collection / _uri_cache / os probes / "
    "Template / memoized_property / __import__ of mako.runtime; sys.settrace line-level mode); preemption inside a "
    "modelled atomic step is only sampled (line-level PCT schedules, the mako/cache.py and LRUCache stop-line streams)",
    "C16: tools/regen_conc.py (syntactic analysis: 'no statement mutates the object after it has been stored into the "
    "shared container', 'self.module comes from __import__/import_module calls only, sys.modules is not read', "
    "'LRUCache.__setitem__ inserts only _Item(key, value) objects built from its value argument')",
]
REGEN = ["Lookup", "Conc"]

SITE_F11 = "second-chance-read-serves-stale"
SITE_URI = "adjust-uri-keyerror-under-lru"


def include_scenarios(tier):
    """oracle-only scenarios (not modelled step by step): renders whose templates <%include> another file, on a
    bounded lookup; `_uri_cache` is instrumented as in the `adjust` scenarios"""
    fs = [(0, 0, 1), (0, 1, 1)]
    L = [
        dict(scn("include-lru1", [["g0", "r11"], ["g1", "r22"]], fs=fs, cap=1, kind="include", prologue=["g0", "r1"]),
             model=False),
        dict(scn("include-plain", [["g0", "r11"], ["g1", "r22"]], fs=fs, kind="include", prologue=["g0", "r1"]),
             model=False),
    ]
    if tier != "quick":
        L.append(dict(scn("include-lru2", [["g0", "r11", "r12"], ["g1", "r22"]], fs=fs, cap=2, kind="include",
                          prologue=["g0", "r1"]), model=False))
    return L


# --------------------------------------------------------------------------- scenarios

def scn(name, progs, fs=((0, 0, 1),), prologue=(), ndirs=1, checks=True, cap=None, kind="plain", first=False,
        kinds=()):
    return {"name": name, "progs": [list(p) for p in progs], "fs": [tuple(f) for f in fs],
            "prologue": list(prologue), "ndirs": ndirs, "checks": checks, "cap": cap, "kind": kind,
            "first": first, "kinds": list(kinds), "clock": 100}


def scenarios(tier):
    q = tier == "quick"
    r1, r2, r3 = "r11.1", "r22.1", "r33.1"
    L = [
        scn("first2", [["g0"], ["g0"]], first=True),
        scn("first3", [["g0"], ["g0"], ["g0"]], first=True),
        scn("first2-lru2", [["g0"], ["g0"]], cap=2, first=True),
        scn("first2-nochecks", [["g0", "g0"], ["g0"]], checks=False, first=True),
        scn("diff2", [["g0"], ["g1"]], fs=[(0, 0, 1), (0, 1, 1)]),
        scn("diff3-lru1", [["g0"], ["g1"], ["g2"]], fs=[(0, 0, 1), (0, 1, 1), (0, 2, 1)], cap=1),
        scn("diff2-lru1-hit", [["g1", "g0"], ["g2"]], fs=[(0, 0, 1), (0, 1, 1), (0, 2, 1)], cap=1, prologue=["g0"]),
        scn("missing2", [["g5"], ["g0"]]),
        scn("modify-get", [["g0"], ["t", "w0.0.1", "g0"]]),                       # the stale second-chance hit (F11) was found here
        scn("modify-get-same-second", [["g0"], ["w0.0.1", "g0"]]),
        scn("reload2", [["g0"], ["g0"]], prologue=["g0", "t", "w0.0.1"]),           # double compile of a stale entry
        scn("reload-modify", [["g0"], ["t", "w0.0.1", "g0"]], prologue=["g0", "t", "w0.0.1"]),
        scn("modify3", [["t", "w0.0.1"], ["g0"], ["g0"]], prologue=["g0"]),
        scn("fail2", [["g0"], ["g0"]], fs=[(0, 0, 0)]),
        scn("fail-fix", [["g0"], ["w0.0.1", "g0"]], fs=[(0, 0, 0)]),
        scn("fail3", [["g0"], ["g0"], ["w0.0.1", "g0"]], fs=[(0, 0, 0)]),
        scn("break-reload", [["g0"], ["g0"]], prologue=["g0", "t", "w0.0.0"]),
        scn("twodirs", [["g0"], ["w0.0.1", "g0"]], fs=[(1, 0, 1)], ndirs=2),
        scn("nochecks-modify", [["g0"], ["t", "w0.0.1", "g0"]], checks=False),
        scn("render2", [["g0", r1], ["g0", r2]], kind="cached", prologue=["g0"]),
        scn("render2-first", [["g0", r1], ["g0", r2]], kind="cached"),
        scn("render3", [["g0", r1], ["g0", r2], ["g0", r3]], kind="cached", prologue=["g0"]),
        scn("render-modify", [["g0", r1], ["t", "w0.0.1", "g0", r2]], kind="cached", prologue=["g0"]),
        scn("lru-pop-race", [["g0"], ["g1"]], fs=[(0, 0, 1), (0, 1, 1)], cap=1, prologue=["g0", "t", "w0.0.1"]),
        scn("adjust-plain", [["a0", "a0"], ["a1", "a0"]]),
        scn("adjust-lru1", [["a0", "a0"], ["a1"]], cap=1),                        # the adjust_uri KeyError (F-C16-2) was found here
        scn("adjust-lru2", [["a0", "a1", "a0"], ["a2", "a3"]], cap=2),
    ]
    if not q:
        L += [
            scn("first3-lru1", [["g0"], ["g0"], ["g0"]], cap=1, first=True),
            scn("lru2-3uris", [["g0", "g1"], ["g2", "g3"]], fs=[(0, u, 1) for u in range(4)], cap=2),
            scn("modify-get3", [["g0"], ["t", "w0.0.1", "g0"], ["g0"]]),
            scn("reload3", [["g0"], ["g0"], ["g0"]], prologue=["g0", "t", "w0.0.1"]),
            scn("fail-fix3", [["g0"], ["g0"], ["t", "w0.0.1", "g0"]], fs=[(0, 0, 0)]),
        ]
    return L


NS_MODULE = ["c16ns_0"]       # name of the (fresh, never imported) module of the current run, kind "nsmodule"


def content(u, ver, good, kind):
    if not good:
        return "U%dV%d|${x" % (u, ver)
    if kind == "nsmodule":
        return "<%%namespace name=\"h\" module=\"%s\"/>U%dV%d|${x}|${h.shout(x)}" % (NS_MODULE[0], u, ver)
    if kind == "cached-region":
        return ("U%dV%d|${x}|<%%def name=\"c()\" cached=\"True\" cache_region=\"r1\">C</%%def>${c()}" % (u, ver))
    if kind == "include":
        return "U%dV%d|${x}|<%%include file=\"inc%d.html\"/>" % (u, ver, u)
    if kind == "cached":
        return "U%dV%d|${x}|<%%def name=\"c()\" cached=\"True\">C</%%def>${c()}" % (u, ver)
    return "U%dV%d|${x}|" % (u, ver)


OUT_RE = re.compile(r"^U(\d+)V(\d+)\|(.*?)\|(C?|I\d+|S.*)$")


# --------------------------------------------------------------------------- one execution on the real code

class Obs:
    pass


class Runner:
    def __init__(self, ctx):
        self.ctx = ctx
        self.base = os.path.realpath(tempfile.mkdtemp(prefix="c16_"))
        self.world = S.MakoWorld()
        self.world.__enter__()
        self.cache_impl = S.mem_cache_impl()
        self.region_impl = S.region_cache_impl()
        self.cache_pred = S.file_lines_predicate("cache.py")
        self.lru_pred = S.class_lines_predicate("util.py", "LRUCache")
        from mako.template import Template
        self.Template = Template
        from mako import exceptions
        from mako.lookup import TemplateLookup
        self.X = exceptions
        self.TemplateLookup = TemplateLookup
        self.pred = S.mako_code_predicate()
        self.written = set()
        self.ns_count = 0
        self.ns_modules = []

    def close(self):
        for name in self.ns_modules:
            sys.modules.pop(name, None)
        if self.base in sys.path:
            sys.path.remove(self.base)
        try:
            self.world.__exit__(None, None, None)
        finally:
            shutil.rmtree(self.base, ignore_errors=True)

    def path(self, d, u):
        return os.path.join(self.base, "d%d" % d, "u%d.html" % u)

    def put_file(self, d, u, ver, mtime, good, kind):
        p = self.path(d, u)
        os.makedirs(os.path.dirname(p), exist_ok=True)
        with open(p, "w") as f:
            f.write(content(u, ver, good, kind))
        os.utime(p, (mtime, mtime))
        self.written.add(p)

    def run(self, sc, strategy, line_level=False, wall=20.0):
        world, X = self.world, self.X
        for p in list(self.written):
            try:
                os.unlink(p)
            except OSError:
                pass
        self.written.clear()
        S._MEM_CACHE.clear()
        world.clock = sc["clock"]
        world.timer = 0
        world.constructions = 0
        world.construction_log = []
        world.lru_inside = 0
        world.lru_del_keyerrors = 0
        world.memo_inits = {}
        if sc["kind"] == "nsmodule":
            import importlib
            self.ns_count += 1
            name = "c16ns_%d_%d" % (os.getpid(), self.ns_count)
            NS_MODULE[0] = name
            if self.base not in sys.path:
                sys.path.insert(0, self.base)
            with open(os.path.join(self.base, name + ".py"), "w") as f:
                f.write("from harness.sched import module_point\n"
                        "module_point()\n"
                        "def whisper(context, x):\n    return 'w' + str(x)\n"
                        "module_point()\n"
                        "def shout(context, x):\n    return 'S' + str(x)\n"
                        "module_point()\n")
            importlib.invalidate_caches()
            self.ns_modules.append(name)
            world.importing.clear()
        state = {}            # (d, u) -> [ver, mtime, good]
        history = {}          # (d, u) -> {ver: good}
        for d in range(sc["ndirs"]):
            os.makedirs(os.path.join(self.base, "d%d" % d), exist_ok=True)
        for (d, u, good) in sc["fs"]:
            self.put_file(d, u, 1, sc["clock"] - 2, bool(good), sc["kind"])
            state[(d, u)] = [1, sc["clock"] - 2, bool(good)]
            history[(d, u)] = {1: bool(good)}
        if sc["kind"] == "include":
            for (d, u, good) in sc["fs"]:
                p = os.path.join(self.base, "d%d" % d, "inc%d.html" % u)
                if not os.path.exists(p):
                    with open(p, "w") as f:
                        f.write("I%d" % u)
                    os.utime(p, (sc["clock"] - 2, sc["clock"] - 2))
        dirs = [os.path.join(self.base, "d%d" % d) for d in range(sc["ndirs"])]
        lookup = self.TemplateLookup(directories=dirs, filesystem_checks=sc["checks"],
                                     collection_size=-1 if sc["cap"] is None else sc["cap"],
                                     cache_impl=self.region_impl if sc["kind"] == "cached-region" else self.cache_impl)
        nthreads = len(sc["progs"])
        ptid = nthreads if sc["prologue"] else None
        if ptid is not None:
            strategy = S.SoloFirst(ptid, strategy)
        pred = None
        if line_level:
            pred = {"cache": self.cache_pred, "lru": self.lru_pred}.get(line_level, self.pred)
        sch = S.Scheduler(strategy, wall_limit=wall, trace_lines=pred,
                          max_steps=2_000_000 if line_level else 5000)
        world.instrument(lookup, sch)
        coll = lookup._collection
        cap = sc["cap"]
        o = Obs()
        o.results = {}
        o.calls = []
        o.renders = []
        o.adjusts = []
        o.opspans = []        # (tid, op index, kind, start_idx, end_idx, payload) for the linearisability check
        o.lru_over = []
        cur = {}

        def snapshot():
            return {k: tuple(v) for k, v in state.items()}

        def hook(w, label):
            c = cur.get(w.tid)
            if c is not None:
                if c["start"] is None:
                    c["start"] = snapshot()
                    c["start_idx"] = len(sch.trace) - 1
                c["labels"].append(label)
                c["last_idx"] = len(sch.trace) - 1
            if cap is not None and world.lru_inside == 0:
                n = dict.__len__(coll)
                if n > cap + cap * coll.threshold:
                    o.lru_over.append((len(sch.trace), n))
        sch.after_point = hook

        def worker(tid, prog):
            def fn():
                last = None
                res = o.results[tid] = []
                for i, op in enumerate(prog):
                    k = op[0]
                    if k == "g":
                        u = int(op[1:])
                        c = {"tid": tid, "u": u, "start": None, "start_idx": None, "last_idx": None, "labels": [],
                             "op": i}
                        cur[tid] = c
                        try:
                            try:
                                t = lookup.get_template("/u%d.html" % u)
                                if isinstance(t, self.Template):
                                    c["res"] = ("ok", t)
                                    last = t
                                else:       # "every call returns a completely constructed Template"
                                    c["res"] = ("nottemplate", "get_template returned %r, not a Template" % (t,))
                            except X.TopLevelLookupException:
                                c["res"] = ("top",)
                            except X.TemplateLookupException:
                                c["res"] = ("gone",)
                            except (X.CompileException, X.SyntaxException):
                                c["res"] = ("cerr",)
                            except S.Abort:
                                c["res"] = ("aborted",)
                                raise
                            except BaseException as e:      # noqa: B036 - anything else is a finding
                                c["res"] = ("other", "%s: %s" % (type(e).__name__, e))
                        finally:
                            cur[tid] = None
                            c["end"] = snapshot()
                            o.calls.append(c)
                            res.append(c)
                    elif k == "w":
                        d, u, good = (int(x) for x in op[1:].split("."))
                        sch.point("V")
                        st = state.get((d, u))
                        ver = (st[0] if st else 0) + 1
                        self.put_file(d, u, ver, world.clock, bool(good), sc["kind"])
                        state[(d, u)] = [ver, world.clock, bool(good)]
                        history.setdefault((d, u), {})[ver] = bool(good)
                        o.opspans.append((tid, i, "w", len(sch.trace) - 1, len(sch.trace) - 1, (d, u, bool(good))))
                    elif k == "a":
                        kk = int(op[1:])
                        a = {"tid": tid, "k": kk, "op": i}
                        try:
                            v = lookup.adjust_uri("inc%d.html" % kk, "/u0.html")
                            a["out"] = ("adj", kk) if v == "/inc%d.html" % kk else ("adj?", v)
                        except S.Abort:
                            raise
                        except KeyError as e:
                            a["out"] = ("keyerr", repr(e))
                        except BaseException as e:      # noqa: B036
                            a["out"] = ("aerr", "%s: %s" % (type(e).__name__, e))
                        o.adjusts.append(a)
                        res.append(a)
                    elif k == "t":
                        sch.point("T")
                        world.clock += 1
                        o.opspans.append((tid, i, "t", len(sch.trace) - 1, len(sch.trace) - 1, None))
                    elif k == "r":
                        x = int(op[1:].split(".")[0])
                        sch.point("B")
                        r = {"tid": tid, "ctx": x, "t": last, "op": i}
                        if last is None:
                            r["out"] = ("not",)
                        else:
                            try:
                                r["out"] = ("out", last.render(x=x))
                            except S.Abort:
                                raise
                            except BaseException as e:      # noqa: B036
                                r["out"] = ("rerr", "%s: %s" % (type(e).__name__, e))
                        o.renders.append(r)
                        res.append(r)
            return fn

        for tid, prog in enumerate(sc["progs"]):
            sch.spawn(tid, worker(tid, prog))
        if ptid is not None:
            sch.spawn(ptid, worker(ptid, sc["prologue"]))
        sch.run()
        world.sched = None
        # ---- observations after the run (no scheduler involved any more)
        o.sch = sch
        o.trace = list(sch.trace)
        o.deadlock = sch.deadlock
        o.timed_out = sch.timed_out
        o.stray = list(sch.stray)
        o.errors = [(w.tid, repr(w.error)) for w in sch.workers.values() if w.error is not None]
        o.finished = [sch.workers[t].finished and not (sch.deadlock or sch.timed_out or sch.step_limit_hit)
                      for t in sorted(sch.workers)]
        o.constructions = world.constructions
        o.lru_del_keyerrors = world.lru_del_keyerrors
        o.memo_double = sorted({name for (_, name), n in world.memo_inits.items() if n > 1})
        o.lock_log = list(lookup._mutex.log)
        o.lock_owner = lookup._mutex.owner
        o.history = history
        o.state = state
        o.ntids = len(sch.workers)
        tinfo = {}

        def info(t):
            i = tinfo.get(id(t))
            if i is None:
                try:
                    m = OUT_RE.match(t.render(x="@"))
                    ver = int(m.group(2)) if m else -1
                except Exception:
                    ver = -1
                fn = t.filename or ""
                dm = re.search(r"/d(\d+)/u\d+\.html$", fn)
                i = tinfo[id(t)] = {"id": getattr(t, "_c16_id", -1), "ver": ver,
                                    "stamp": int(t.module._modified_time), "dir": int(dm.group(1)) if dm else -1}
            return i
        o.info = info
        for c in o.calls:
            if c["res"][0] == "ok":
                c["t"] = info(c["res"][1])
        for r in o.renders:
            if r["out"][0] == "out":
                r["tinfo"] = info(r["t"])
                try:
                    r["solo"] = r["t"].render(x=r["ctx"])
                except Exception as e:
                    r["solo"] = "solo render raised %r" % (e,)
        def keynum(k):
            m = re.match(r"^/(u|inc)(\d+)\.html$", k)
            return (int(m.group(2)) + (0 if m.group(1) == "u" else 100)) if m else -1
        if cap is None:
            o.coll = sorted((keynum(k), getattr(v, "_c16_id", -1), 0) for k, v in dict.items(coll))
        else:
            o.coll = sorted((keynum(k), getattr(it.value, "_c16_id", -1), int(it.timestamp))
                            for k, it in dict.items(coll))
        return o


# --------------------------------------------------------------------------- model side

def model_request(sc, trace):
    cap = "-" if sc["cap"] is None else str(sc["cap"])
    fs = ";".join("%d.%d.1.%d.%d" % (d, u, sc["clock"] - 2, 1 if g else 0) for (d, u, g) in sc["fs"]) or "-"
    progs = [";".join(p) or "-" for p in sc["progs"]]
    if sc["prologue"]:
        progs.append(";".join(sc["prologue"]))
    sched = ",".join(str(t) for t, _ in trace) or "-"
    return "conc run %d %d %s %d %s %s %s" % (sc["ndirs"], 1 if sc["checks"] else 0, cap, sc["clock"], fs,
                                              "|".join(progs), sched)


def via_h2(labels):
    core = [l for l in labels if l not in ("l", "c")]
    return len(core) >= 3 and core[-3:] == ["A", "R", "X"]


def impl_answer(sc, o):
    """the implementation's observation in the model's answer format"""
    tr = ",".join("%d%s" % (t, l) for t, l in o.trace) or "-"
    per = []
    for tid in range(o.ntids):
        rs = []
        for r in o.results.get(tid, []):
            if "res" in r:
                k = r["res"][0]
                if k == "ok":
                    i = r["t"]
                    rs.append("ok.%d.%d.%d.%d" % (i["id"], i["ver"], i["stamp"], 1 if via_h2(r["labels"]) else 0))
                elif k in ("other", "nottemplate"):
                    rs.append("%s(%s)" % (k, r["res"][1]))
                else:
                    rs.append(k)
            elif "k" in r:
                k = r["out"][0]
                rs.append("adj.%d" % r["k"] if k == "adj" else ("keyerr" if k == "keyerr" else "%s(%s)" % r["out"]))
            else:
                k = r["out"][0]
                if k == "out":
                    m = OUT_RE.match(r["out"][1])
                    if m:
                        rs.append("rn.%d.%s.%s" % (r["tinfo"]["id"], m.group(2), m.group(3)))
                    else:
                        rs.append("rn?(%r)" % (r["out"][1],))
                elif k == "not":
                    rs.append("not")
                else:
                    rs.append("rerr(%s)" % r["out"][1])
        per.append(";".join(rs) or "-")
    coll = ";".join("%d.%d.%d" % e for e in o.coll) or "-"
    fin = "".join("1" if f else "0" for f in o.finished)
    return " ".join([tr, "|".join(per), str(o.constructions), coll, "1" if o.deadlock else "0", fin])


# --------------------------------------------------------------------------- the oracle (no Lean)

def seq_reference(sc, ops_in_order):
    """sequential reference lookup (C14's rule) over a total order of operations; yields (kind, version)"""
    clock = sc["clock"]
    files = {(d, u): [1, clock - 2, bool(g)] for (d, u, g) in sc["fs"]}
    cache = {}
    out = []

    def load(u, d):
        f = files[(d, u)]
        if not f[2]:
            cache.pop(u, None)
            return ("cerr",)
        cache[u] = (f[0], clock, d)
        return ("ok", f[0])
    for kind, payload in ops_in_order:
        if kind == "t":
            clock += 1
            out.append(None)
        elif kind == "w":
            d, u, good = payload
            f = files.get((d, u))
            files[(d, u)] = [(f[0] if f else 0) + 1, clock, good]
            out.append(None)
        else:
            u = payload
            if u in cache:
                v, st, d = cache[u]
                if not sc["checks"] or st >= files[(d, u)][1]:
                    out.append(("ok", v))
                else:
                    del cache[u]
                    out.append(load(u, d))
            else:
                for d in range(sc["ndirs"]):
                    if (d, u) in files:
                        out.append(load(u, d))
                        break
                else:
                    out.append(("top",))
    return out


def linearisable(sc, o):
    """is there a total order of the operations, consistent with each thread's program order and with the
    real-time order of non-overlapping operations, on which the sequential reference returns the same
    (kind, version) to every get_template call?"""
    spans = {}
    for (tid, i, kind, a, b, payload) in o.opspans:
        spans[(tid, i)] = (kind, a, b, payload, None)
    for c in o.calls:
        if c["start_idx"] is None:
            continue
        r = c["res"]
        obs = ("ok", c["t"]["ver"]) if r[0] == "ok" else (r[0],)
        spans[(c["tid"], c["op"])] = ("g", c["start_idx"], c["last_idx"], c["u"], obs)
    threads = {}
    for (tid, i) in sorted(spans):
        threads.setdefault(tid, []).append((tid, i))
    tids = sorted(threads)
    allops = list(spans)
    seen = set()

    def rec(pos, order):
        key = (tuple(pos[t] for t in tids), tuple(order))
        if key in seen:
            return False
        seen.add(key)
        if all(pos[t] == len(threads[t]) for t in tids):
            outs = seq_reference(sc, [(spans[k][0], spans[k][3]) for k in order])
            return all(spans[k][4] is None or spans[k][4] == out for k, out in zip(order, outs))
        done = set(order)
        for t in tids:
            if pos[t] == len(threads[t]):
                continue
            k = threads[t][pos[t]]
            a = spans[k][1]
            # every operation that ended before k started must already be in the order
            if any(spans[j][2] < a for j in allops if j not in done and j != k):
                continue
            pos[t] += 1
            ok = rec(pos, order + [k])
            pos[t] -= 1
            if ok:
                return True
        return False
    return rec({t: 0 for t in tids}, [])


def oracle(ctx, sc, o, stream):
    """returns a list of (site, detail)"""
    bad = []
    if o.deadlock:
        bad.append(("deadlock", "all unfinished threads blocked on the lookup mutex: %r (held by thread %r)"
                    % (o.sch.blocked_at_end, o.sch.lock_owners_at_deadlock)))
    if o.timed_out:
        bad.append(("timeout", "wall-clock bound exceeded"))
    if o.sch.step_limit_hit:
        bad.append(("livelock", "step limit exceeded"))
    if o.stray:
        bad.append(("stray-thread", repr(o.stray)))
    if o.errors:
        bad.append(("harness-worker-error", repr(o.errors)))
    if not (o.deadlock or o.timed_out or o.sch.step_limit_hit):
        if o.lock_owner is not None:
            bad.append(("mutex-left-held", "owner %r at the end" % (o.lock_owner,)))
        held = None
        for what, tid in o.lock_log:
            if what == "acq":
                if held is not None:
                    bad.append(("mutex-two-holders", repr(o.lock_log)))
                held = tid
            else:
                if held != tid:
                    bad.append(("mutex-released-by-other", repr(o.lock_log)))
                held = None
    if o.lru_over:
        bad.append(("lru-bound-exceeded", "len %d > 1.5*%d with no thread inside an LRU write (trace position %d)"
                    % (o.lru_over[0][1], sc["cap"], o.lru_over[0][0])))
    stale = False
    for c in o.calls:
        r = c["res"]
        u = c["u"]
        if r[0] == "aborted" or c["start"] is None:
            continue
        start, end = c["start"], c["end"]
        if r[0] == "ok":
            t = c["t"]
            key = (t["dir"], u)
            hist = o.history.get(key, {})
            if t["ver"] not in hist or not hist[t["ver"]]:
                bad.append(("incomplete-template", "thread %d got a template of version %r of %r which is not a "
                            "compilable version" % (c["tid"], t["ver"], key)))
                continue
            f0 = start.get(key)
            if f0 is not None and t["ver"] < f0[0] and f0[1] >= t["stamp"] + 1 and sc["checks"]:
                stale = True
                site = SITE_F11 if via_h2(c["labels"]) else "stale-template-returned"
                bad.append((site, "thread %d: get_template(u%d) started when the file was version %d (mtime %d) "
                            "and returned a template compiled from version %d at %d (call steps %s)"
                            % (c["tid"], u, f0[0], f0[1], t["ver"], t["stamp"],
                               "".join(l for l in c["labels"] if l not in ("l", "c")))))
            if end.get(key) is not None and t["ver"] > end[key][0]:
                bad.append(("version-from-the-future", repr((c["tid"], t, end[key]))))
        elif r[0] == "top":
            if any((d, u) in start for d in range(sc["ndirs"])):
                bad.append(("spurious-toplevel-exception", "thread %d: file for u%d existed at the start of the call"
                            % (c["tid"], u)))
        elif r[0] == "cerr":
            okk = False
            for d in range(sc["ndirs"]):
                h = o.history.get((d, u), {})
                lo = start.get((d, u), (0,))[0]
                hi = end.get((d, u), (0,))[0]
                if any((not g) and lo <= v <= hi for v, g in h.items()):
                    okk = True
            if not okk:
                bad.append(("spurious-compile-exception", "thread %d u%d" % (c["tid"], u)))
        elif r[0] == "nottemplate":
            bad.append(("returned-not-a-template", "thread %d get_template(u%d): %s" % (c["tid"], u, r[1])))
        else:
            bad.append(("undocumented-exception", "thread %d get_template(u%d) raised %s" % (c["tid"], u, r[1:])))
    if sc["first"] and not (o.deadlock or o.timed_out):
        ids = {c["t"]["id"] for c in o.calls if c["res"][0] == "ok"}
        if o.constructions != 1 or len(ids) != 1 or any(c["res"][0] != "ok" for c in o.calls):
            bad.append(("first-requests-not-compiled-once", "constructions=%d ids=%r results=%r"
                        % (o.constructions, sorted(ids), [c["res"][0] for c in o.calls])))
    for a in o.adjusts:
        k = a["out"][0]
        if k == "keyerr" and sc["cap"] is not None:
            bad.append((SITE_URI, "thread %d: adjust_uri('inc%d.html', '/u0.html') raised KeyError %s on a lookup "
                        "with collection_size=%d" % (a["tid"], a["k"], a["out"][1], sc["cap"])))
        elif k != "adj":
            bad.append(("adjust-uri-raised", "thread %d: %r" % (a["tid"], a["out"])))
    for r in o.renders:
        k = r["out"][0]
        if k == "rerr" and r["out"][1].startswith("KeyError: ('inc") and sc["cap"] is not None:
            bad.append((SITE_URI, "thread %d: render(x=%r) of a template with <%%include> raised %s on a lookup with "
                        "collection_size=%d" % (r["tid"], r["ctx"], r["out"][1], sc["cap"])))
        elif k == "rerr":
            bad.append(("render-raised", "thread %d: %s" % (r["tid"], r["out"][1])))
        elif k == "out":
            m = OUT_RE.match(r["out"][1])
            if r["out"][1] != r["solo"] or not m or m.group(3) != str(r["ctx"]):
                bad.append(("render-differs-from-solo", "thread %d ctx %r: %r vs solo %r"
                            % (r["tid"], r["ctx"], r["out"][1], r["solo"])))
    if not stale and not bad and sc["cap"] is None and not (o.deadlock or o.timed_out):
        if not linearisable(sc, o):
            bad.append(("not-linearisable", "no sequential order of the operations explains the (kind, version) "
                        "results %r" % ([(c["tid"], c["res"][0], c.get("t", {}).get("ver")) for c in o.calls],)))
    return bad


# --------------------------------------------------------------------------- streams

def case_of(sc, o):
    return {"scenario": sc["name"], "input": sc["name"] + ":" + ",".join(str(t) for t, _ in o.trace),
            "sc": sc, "schedule": [t for t, _ in o.trace]}


def shrink_schedule(runner, sc, schedule, site, line_level=False):
    def fails(sub):
        o = runner.run(sc, S.Follow(sub), line_level=line_level, wall=10.0)
        return any(s == site for s, _ in oracle(None, sc, o, "shrink"))
    if line_level:
        return schedule
    try:
        return ddmin(schedule, fails, max_tests=150)
    except Exception:
        return schedule


def check_model(ctx, stream, pending):
    """pending: list of (sc, o).  One batch to the Lean driver."""
    if not pending:
        return
    outs = ctx.driver().ask_many([model_request(sc, o.trace) for sc, o in pending])
    for (sc, o), m in zip(pending, outs):
        a = impl_answer(sc, o)
        if m != a:
            mf, af = m.split(" "), a.split(" ")
            names = ["trace", "results", "constructions", "collection", "deadlock", "finished"]
            which = [n for n, x, y in zip(names, mf, af) if x != y] if len(mf) == len(af) == 6 else ["format"]
            ctx.disagree(stream, {"scenario": sc["name"], "schedule": [t for t, _ in o.trace], "differs": which,
                                  "sc": sc}, m, a)


def explore_scenario(ctx, runner, sc, budget, deadline, seen_sites):
    modelled = sc.get("model", True)
    stream = ("corr.sched." if modelled else "oracle.explore.") + sc["name"]
    st = ctx.stream(stream, "corr" if modelled else "oracle")
    ost = ctx.stream("oracle.sched", "oracle")
    pending = []

    def run_one(prefix):
        o = runner.run(sc, S.Prefix(prefix))
        st["cases"] += 1
        if modelled:
            ost["cases"] += 1           # the oracle runs on every modelled execution as well
        if o.sch.diverged:
            ctx.broke("scheduler:nondeterministic-replay", "%s prefix %r" % (sc["name"], prefix))
        p = S.preemptions(o.sch.decisions[o.sch.prologue_len:])
        ctx.branch("preemptions:%d" % min(p, 6))
        if p:
            ctx.nontriv((sc["name"], tuple(t for t, _ in o.trace)))
        for c in o.calls:
            core = "".join(l for l in c["labels"])
            ctx.branch("get-path:" + core + ":" + c["res"][0])
        for r in o.renders:
            ctx.branch("render:" + r["out"][0])
        for a in o.adjusts:
            ctx.branch("adjust:" + a["out"][0])
        ctx.branch("constructions:%s:%d" % (sc["name"], o.constructions))
        if o.lru_del_keyerrors:
            ctx.branch("lru-manage-size-keyerror-tolerated")
        if o.memo_double:
            ctx.branch("memo-cell-initialised-twice:" + ",".join(sorted(o.memo_double)))
        pending.append((sc, o))
        ostream = "oracle.sched" if modelled else stream
        for site, detail in oracle(ctx, sc, o, ostream):
            ctx.branch("oracle-site:" + site)
            if (sc["name"], site) in seen_sites:
                continue
            seen_sites.add((sc["name"], site))
            sched_min = shrink_schedule(runner, sc, [t for t, _ in o.trace], site)
            o2 = runner.run(sc, S.Follow(sched_min))
            det = [d for s_, d in oracle(ctx, sc, o2, ostream) if s_ == site]
            case = case_of(sc, o2)
            ctx.violation(site, case, det[0] if det else detail, ostream)
        return o.sch

    runs, exhausted = S.explore(run_one, budget, deadline=deadline)
    st["exhaustive"] = bool(exhausted)
    if modelled:
        check_model(ctx, stream, pending)
    return runs, exhausted


def pct_stream(ctx, runner, scs, nruns, deadline, seen_sites):
    ost = ctx.stream("oracle.pct-lines", "oracle", exhaustive=False)
    est = {}
    done = 0
    i = 0
    while done < nruns and time.time() < deadline:
        sc = scs[i % len(scs)]
        i += 1
        tids = list(range(len(sc["progs"])))
        k = est.get(sc["name"])
        if k is None:
            o = runner.run(sc, S.PCT(ctx.rng, tids, 1, 1), line_level=True, wall=60.0)
            k = est[sc["name"]] = max(10, len(o.sch.decisions) - o.sch.prologue_len)
        else:
            o = runner.run(sc, S.PCT(ctx.rng, tids, 3, k), line_level=True, wall=60.0)
        done += 1
        ost["cases"] += 1
        ctx.branch("pct:steps<=%d" % (10 ** len(str(len(o.trace)))))
        p = S.preemptions(o.sch.decisions[o.sch.prologue_len:])
        if p:
            ctx.nontriv(("pct", sc["name"], tuple(t for t, _ in o.trace)))
        for site, detail in oracle(ctx, sc, o, "oracle.pct-lines"):
            ctx.branch("oracle-site:" + site)
            if ("pct", site) in seen_sites:
                continue
            seen_sites.add(("pct", site))
            case = case_of(sc, o)
            case["line_level"] = True
            # run-length encode the schedule (thousands of line steps)
            ctx.violation(site, case, detail, "oracle.pct-lines")
    return done


def cache_lines_stream(ctx, runner, seen_sites):
    """first cached calls of a def that carries its own cache arguments, on a back end that depends on them, with a
    scheduling point at every executed line of mako/cache.py (plus the model's points): one thread is stopped after
    k steps, for EVERY k, the other runs to completion, then the first finishes - both ways round.  Oracle only
    (`Cache._def_regions[defname]` is the memo cell: a half-filled value visible to the other thread loses the def's
    arguments)"""
    sc = dict(scn("cache-region-first-use", [["g0", "r11.1"], ["g0", "r22.1"]], kind="cached-region",
                  prologue=["g0"]), model=False)
    st = ctx.stream("oracle.cache-lines", "oracle", exhaustive=True)
    for first, second in ((0, 1), (1, 0)):
        o = runner.run(sc, S.StopLine(first, 10 ** 9, second), line_level="cache")
        n = sum(1 for t, _ in o.trace if t == first)
        ctx.branch("cache-lines:steps-of-first-thread:%d" % n)
        for k in range(0, n + 1):
            o = runner.run(sc, S.StopLine(first, k, second), line_level="cache")
            st["cases"] += 1
            if 0 < k < n:
                ctx.nontriv(("cache-lines", first, k))
            for r in o.renders:
                ctx.branch("cache-lines:render:" + r["out"][0])
            for site, detail in oracle(ctx, sc, o, "oracle.cache-lines"):
                ctx.branch("oracle-site:" + site)
                if ("cache-lines", site) in seen_sites:
                    continue
                seen_sites.add(("cache-lines", site))
                case = case_of(sc, o)
                case["line_level"] = "cache"
                case["stopped_thread"] = first
                case["stop_after_steps"] = k
                stopped = [l for t, l in o.trace if t == first][:k]
                ctx.violation(site, case, detail + " (thread %d stopped after %d steps, %d of them lines of mako/cache.py)"
                              % (first, k, sum(1 for l in stopped if l == "l")), "oracle.cache-lines")


def ns_module_scenario():
    """first renders of a template with <%namespace module="…"/> whose module has never been imported; the module's
    top level yields to the scheduler between its definitions (oracle only)"""
    return dict(scn("ns-module-first-import", [["g0", "r11"], ["g0", "r22"]], kind="nsmodule", prologue=["g0"]),
                model=False)


def lru_lines_stream(ctx, runner, seen_sites):
    """bounded lookups with a scheduling point at every executed line of the LRUCache methods of mako/util.py
    (`__setitem__`, `_Item.__init__`, `_manage_size`, `__getitem__`) in addition to the model's points: a writer that
    stores a first request (or a second URI, which evicts the first) is stopped after k steps, for EVERY k, while a
    reader on the lock-free path of get_template (collection hit, no mutex) runs to completion - and the other way
    round; x collection_size 1, 2 x filesystem_checks on/off.  Oracle only: every call returns a Template (never None /
    a half-made entry), nothing but the documented exceptions"""
    st = ctx.stream("oracle.lru-lines", "oracle", exhaustive=True)
    two = [(0, 0, 1), (0, 1, 1)]
    variants = []
    for cap in (1, 2):
        for checks in (True, False):
            variants.append(dict(scn("lru-lines-first-cap%d-%s" % (cap, "checks" if checks else "nochecks"),
                                     [["g0"], ["g0"]], cap=cap, checks=checks), model=False))
            variants.append(dict(scn("lru-lines-evict-cap%d-%s" % (cap, "checks" if checks else "nochecks"),
                                     [["g1"], ["g0"]], fs=two, cap=cap, checks=checks, prologue=["g0"]), model=False))
    for sc in variants:
        for first, second in ((0, 1), (1, 0)):
            o = runner.run(sc, S.StopLine(first, 10 ** 9, second), line_level="lru")
            n = sum(1 for t, _ in o.trace if t == first)
            ctx.branch("lru-lines:steps-of-stopped-thread<=%d" % (10 * ((n + 9) // 10)))
            for k in range(0, n + 1):
                o = runner.run(sc, S.StopLine(first, k, second), line_level="lru")
                st["cases"] += 1
                if 0 < k < n:
                    ctx.nontriv(("lru-lines", sc["name"], first, k))
                for c in o.calls:
                    ctx.branch("lru-lines:get:" + c["res"][0])
                for site, detail in oracle(ctx, sc, o, "oracle.lru-lines"):
                    ctx.branch("oracle-site:" + site)
                    if ("lru-lines", site) in seen_sites:
                        continue
                    seen_sites.add(("lru-lines", site))
                    case = case_of(sc, o)
                    case["line_level"] = "lru"
                    case["stopped_thread"] = first
                    case["stop_after_steps"] = k
                    stopped = [l for t, l in o.trace if t == first][:k]
                    ctx.violation(site, case, detail + " (thread %d stopped after %d steps: points %s, %d of them lines "
                                  "of LRUCache methods)" % (first, k, "".join(l for l in stopped if l != "l"),
                                                            sum(1 for l in stopped if l == "l")), "oracle.lru-lines")


def corpus_stream(ctx, runner, seen_sites):
    """minimised past failing schedules, replayed first (implementation oracle + model on the same schedule)"""
    import glob
    import json
    d = os.path.join(os.path.dirname(os.path.dirname(os.path.dirname(os.path.abspath(__file__)))), "corpus", "C16")
    st = ctx.stream("corr.corpus", "corr", exhaustive=True)
    pending = []
    for path in sorted(glob.glob(os.path.join(d, "*.json"))):
        c = json.load(open(path))
        sc = c["sc"]
        o = runner.run(sc, S.Follow(c["schedule"]))
        st["cases"] += 1
        ctx.count("oracle.sched", 1, "oracle")
        pending.append((sc, o))
        sites = oracle(ctx, sc, o, "oracle.sched")
        ctx.branch("corpus:%s:%s" % (os.path.basename(path)[:-5], ",".join(s_ for s_, _ in sites) or "holds"))
        for site, detail in sites:
            if (sc["name"], site) in seen_sites:
                continue
            seen_sites.add((sc["name"], site))
            ctx.violation(site, case_of(sc, o), detail, "oracle.sched")
    check_model(ctx, "corr.corpus", pending)


def run(ctx):
    runner = Runner(ctx)
    seen_sites = set()
    try:
        corpus_stream(ctx, runner, seen_sites)
        cache_lines_stream(ctx, runner, seen_sites)
        lru_lines_stream(ctx, runner, seen_sites)
        scs = scenarios(ctx.tier) + include_scenarios(ctx.tier) + [ns_module_scenario()]
        t_end = time.time() + (30 if ctx.quick else 330)
        total = 0
        per = 700 if ctx.quick else 60000
        try:
            for n, sc in enumerate(scs):
                left = t_end - time.time()
                share = left / max(1, len(scs) - n)
                runs, ex = explore_scenario(ctx, runner, sc, per, time.time() + max(0.5, share), seen_sites)
                total += runs
                ctx.log("%-24s %6d schedules%s" % (sc["name"], runs, "" if ex else "  (cut by the budget)"))
        finally:
            # the line-level oracle stream runs even if the correspondence raised
            pct_scs = [s for s in scs if s["name"] in ("first2", "modify-get", "reload2", "fail-fix", "render2-first",
                                                         "diff3-lru1", "twodirs", "first3", "render-modify",
                                                         "include-lru1", "adjust-lru2")]
            n = pct_stream(ctx, runner, pct_scs, 40 if ctx.quick else 4000, time.time() + (8 if ctx.quick else 110),
                           seen_sites)
            ctx.log("pct line-level runs: %d" % n)
        ctx.sample({"scenario": "modify-get", "note": "see branches get-path:* for the paths of get_template reached"})
    finally:
        runner.close()


def replay(ctx, data):
    case = data["case"]
    sc = case["sc"]
    runner = Runner(ctx)
    try:
        o = runner.run(sc, S.Follow(case["schedule"]), line_level=case.get("line_level") or False, wall=60.0)
        bad = oracle(ctx, sc, o, "replay")
        for site, detail in bad:
            print("replay: %s: %s" % (site, detail))
        ok = not bad
        if not case.get("line_level") and sc.get("model", True):
            m = ctx.driver().ask(model_request(sc, o.trace))
            a = impl_answer(sc, o)
            print("model:", m)
            print("impl :", a)
            if m != a:
                ok = False
        return ok
    finally:
        runner.close()


DRIVER_OPS = ["conc"]   # per-area driver executable(s) this check talks to (built before any worker is forked)
