"""C13 - an exception at any point leaves the render state consistent.

Streams
  corr.structural   real `Template.code` (parsed with `ast`, canonicalised: writes, pushes/pops, try/finally/except,
                    loops, def boundaries) vs the S-expression of the Lean `codegenModule` - every try/finally
                    pair and the order of the pops, for every generated template and the fixed witnesses;
  corr.behaviour    for every generated template set x EVERY crash point (evaluation points: boom(), filter
                    functions, decorators, while tests, argument evaluation) x handler (none = caller of
                    render_context, error_handler True/False, include_error_handler True/False,
                    format_exceptions, `% try` wrapped around ancestors of the raising node): outcome, output
                    (followed by a Context.write), stack depths read from the real Context
                    (len(_buffer_stack), len(caller_stack), nextcaller) and the counter - real mako vs the Lean
                    pipeline (codegen -> exec); every crash point is run a second time raising an object outside
                    `Exception` (user BaseException subclass, KeyboardInterrupt, GeneratorExit; `% except
                    BaseException` in the source): cleanup must not depend on the class;
  corr.spec         the same runs vs the Lean `Spec.render` (output and outcome only; it has no stacks);
  oracle.behaviour / oracle.second_render
                    the same runs judged by the independent Python reference renderer (harness/ref_render.py:
                    lexical, stack-free, written from the property text) - no Lean involved: output after the
                    handled exception, depths restored, exception identity, second render of the same Template;
  oracle.handwritten  fixed templates for constructs outside the tree grammar (inheritance, namespaces,
                    supports_caller python defs): invariants only (depths, second render, exception identity);
  oracle.format_exceptions  unhandled exception x format_exceptions on/off x entry point (render,
                    render_unicode, render_context; with and without output_encoding) x template relation
                    (plain, call/capture, include, namespace, inheritance chains with raise points in child,
                    parent, blocks, defs): the error page only, or the very exception object;
  corr.shared_stack the context `_render_error` works on shares the caller's `_buffer_stack` list, and the caller
                    sees what the Lean heap model `renderErrorHeap` says (driver op `tgt sharedstack`);
  corr.exception_object / oracle.exception_object
                    which OBJECT reaches the caller (identity, class, constructor arguments) for exceptions inside
                    and outside `Exception` under error_handler results True/False/None/0/'', format_exceptions,
                    include_error_handler - vs the Lean `renderErrorObj` / `includeErrorObj` and vs the property text;
  corr.literal / oracle.literal
                    lex -> tmplOfTokens -> codegen -> exec (driver op `tgt literal`) on directive-free and text-only
                    sources vs the real render (theorem `render_literal` in Props/C01.lean);
  corr.escapes / oracle.escapes
                    sources constructed from the documented escapes (backslash-newline, `##` lines, <%doc>,
                    line-leading %%, <%text>) with their expected text by construction, vs the real render and the
                    same Lean pipeline (theorems `render_escape_tokens`, `render_documented_escapes_partial`).
"""
from __future__ import annotations

import copy
import json

from harness import gen_template as G
from harness import ref_render as RR
from harness import target_canon as TC
from harness import tmpl_rt as rt
from harness.common import dec, enc

RULE = ("template sets (1-3 templates, include edges) from the grammar of harness/gen_template.py: text, ${expr | "
        "filters}, % if/for/while/try, <%def> (plain/buffered/filtered/cached/decorated, top-level and nested), "
        "<%block> (anonymous/named), <%call> with body, args and nested defs, capture(), <%text filter>, "
        "<%include>, loop.index, return/break/continue, plus fixed witnesses (nested <%call> in the argument list of "
        "a call with content); for each set every crash point 0..N (N = evaluation points of the crash-free render, "
        "capped at 30 quick / 80 thorough) x handlers {render_context caller, error_handler T/F, "
        "include_error_handler T/F, format_exceptions, % try around ancestors of the raising node} x exception class "
        "{Boom (an Exception); AbortRequest / KeyboardInterrupt / GeneratorExit (outside Exception) with every "
        "`% except` of the template naming BaseException, handlers: caller, error_handler False, format_exceptions, "
        "% try}; hand-written "
        "families for format_exceptions x entry point x inheritance/include/namespace, exception objects outside "
        "Exception, literal and escape-only sources; a case is non-trivial when the exception is raised inside at "
        "least one pushed buffer/frame/loop or a handler swallows it; distinct = distinct (template set, crash "
        "point, handler) resp. distinct source")
ASSUMPTIONS = [
    "asynchronous exceptions (between two bytecodes of a prologue) are outside the crash-point granularity",
    "templates are well-scoped, non-recursive, binders have unique names (then the model's dynamic variable chain "
    "is Python's lexical scoping); generator knobs keep away from code-generation quirks that are not exception "
    "matters (listed in gen_template.Knobs; reported for C05/C03)",
    "the cache is a pass-through (cache_enabled=False); cache back ends are C17's subject",
    "CPython's execution of the generated module is the assumed target semantics (validated by corr.behaviour)",
    "not modelled in Lean, covered by oracle streams on the implementation only: inheritance chains, namespaces of "
    "other templates (<%namespace file>, <%ns:def>), python-module defs wrapped with runtime.supports_caller "
    "(DESIGN section 6 lists supports_caller under M for C05/C13; its push_frame/try/finally/pop_frame has the "
    "shape of a plain def, but no Lean definition stands for it)",
    "the error-page replacement is modelled on a separate heap of shared buffer-stack lists (renderErrorHeap), not "
    "inside execTemplate, which has a single context",
]
TRUSTED_EXTRA = ["C13: harness/target_canon.py (canonical structure of generated code), harness/gen_template.py, "
                 "harness/ref_render.py (reference renderer = oracle), harness/tmpl_rt.py (exception oracle)"]
LEAN_EXTRA_TARGETS = ["MakoModel.Codegen.Spec"]
REGEN = ["RuntimeFacts"]

FUEL = 600
MODES = [
    {"name": "caller"},
    {"name": "eh-true", "eh": True},
    {"name": "eh-false", "eh": False},
    {"name": "ieh-true", "ieh": True},
    {"name": "ieh-false", "ieh": False},
    {"name": "format-exceptions", "fe": True},
]
HANDLER = [["text", "!"], ["expr", ["probe"], []]]


# --------------------------------------------------------------------------------------------- implementation

class Impl:
    """one compiled template set; options are switched per run (they are read at render time)"""
    serial = 0

    def __init__(self, bodies, except_class="Exception"):
        from mako.lookup import TemplateLookup
        self.bodies = bodies
        self.except_class = except_class
        self.lk = TemplateLookup(cache_enabled=False)
        self.metas = []
        # unique URIs per set: mako's ModuleInfo registry (used by the error page) is keyed by module id
        Impl.serial += 1
        prefix = "s%d_" % Impl.serial
        for i, b in enumerate(bodies):
            src, anon = G.to_source(b, prefix, except_class)
            self.lk.put_string("%st%d.html" % (prefix, i), src)
            self.metas.append((src, anon))
        self.ts = [self.lk.get_template("%st%d.html" % (prefix, i)) for i in range(len(bodies))]
        # read the generated code now: mako's ModuleInfo registry is keyed by module id ("t1_html"), which
        # every template set shares
        self._codes = [t.code for t in self.ts]

    def codes(self):
        return self._codes

    def configure(self, mode):
        eh, ieh, fe = mode.get("eh"), mode.get("ieh"), bool(mode.get("fe"))

        def on_error(context, error):
            return eh

        def on_include_error(context, error):
            context.write("[H]")
            return ieh
        for t in self.ts:
            t.error_handler = on_error if eh is not None else None
            t.include_error_handler = on_include_error if ieh is not None else None
            t.format_exceptions = fe

    def run(self, k, mode, factory=None):
        """-> dict(res, out (after a Context.write('|A')), nb, nf, nc, cnt, same_object, user_out);
        `factory`: evaluation point -> the exception object the crash point raises (default `Boom`)"""
        from mako.runtime import Context
        from mako import util
        self.configure(mode)
        rt.reset(k, factory=factory)
        buf = util.FastEncodingBuffer()
        ctx = Context(buf)
        ctx._outputting_as_unicode = True
        same = None
        try:
            self.ts[0].render_context(ctx)
            res = "val"
        except RecursionError:
            raise
        except BaseException as e:      # noqa - exceptions outside `Exception` are a dimension of the check
            if e is rt.STATE.last or isinstance(e, rt.Boom):
                res = "exc:0"
                same = e is rt.STATE.last
            else:
                res = "exc:other"
        cnt = rt.STATE.cnt
        cs = ctx.caller_stack
        depths = (len(ctx._buffer_stack), len(cs), 0 if cs.nextcaller is None else 1)
        ctx.write("|A")
        out = ctx._buffer_stack[-1].getvalue() if ctx._buffer_stack else None
        return {"res": res, "out": out, "nb": depths[0], "nf": depths[1], "nc": depths[2], "cnt": cnt,
                "same_object": same, "user_out": buf.getvalue()}

    def rerender(self):
        """a second render of the same Template objects, crash-free, through the public API"""
        self.configure({})
        rt.reset(-1)
        try:
            return ("val", self.ts[0].render_unicode())
        except rt.Boom:
            return ("exc:0", None)
        except Exception:       # noqa
            return ("exc:other", None)


def is_error_page(s):
    return s is not None and ("Boom" in s or "Traceback" in s or "Error" in s) and "<html" in s.lower()


# --------------------------------------------------------------------------------------------- reference / model

def ref_run(bodies, k, mode):
    """expected result, straight from the reference renderer"""
    r = RR.Ref(bodies, k, ieh=mode.get("ieh"))
    x = r.render(error_handler=mode.get("eh"), format_exceptions=bool(mode.get("fe")))
    res = {"ok": "val", "boom": "exc:0", "error": "exc:other"}[x["outcome"]]
    return {"res": res, "out": x["output"], "error_page": x.get("error_page"), "cnt": r.cnt,
            "stack": list(r.raise_stack or [])}


def wire_set(bodies, ieh):
    flag = {None: "n", True: "t", False: "f"}[ieh]
    return "%d %s" % (len(bodies), " ".join(flag + " " + G.to_wire(b) for b in bodies))


def model_req(op, bodies, k, mode):
    eh = {None: "n", True: "t", False: "f"}[mode.get("eh")]
    return "tgt %s %d %d %s %d %s" % (op, k if k >= 0 else 10 ** 9, FUEL, eh, 1 if mode.get("fe") else 0,
                                      wire_set(bodies, mode.get("ieh")))


def parse_model(line):
    f = line.split(" ")
    res = f[0]
    if res.startswith("val"):
        res = "val"
    elif res not in ("exc:0", "timeout", "bad-args", "bad-op"):
        res = "exc:other"
    d = {"res": res, "out": dec(f[1]) if len(f) > 1 else None}
    if len(f) > 2:
        d.update(nb=int(f[2]), nf=int(f[3]), nc=int(f[4]), nl=int(f[5]), cnt=int(f[6]))
    return d


# --------------------------------------------------------------------------------------------- one template set

def variants_for(bodies, stack, rng, limit, base_handler=None):
    """template sets with a `% try` wrapped around an ancestor of the raising node (lexical ancestors of every
    node on the dynamic stack of the raise)"""
    idmap = {}
    for ti, b in enumerate(bodies):
        for path, n in G.walk(b):
            idmap[id(n)] = (ti, path)
    cands = []
    seen = set()
    for nid in stack:
        if nid not in idmap:
            continue
        ti, path = idmap[nid]
        for p in G.ancestors(path):
            cont, i = G.get_body(bodies[ti], p)
            if cont[i][0] == "def":
                continue            # a suite made of a <%def> only is empty Python (mako emits nothing in place)
            if (ti, p) not in seen:
                seen.add((ti, p))
                cands.append((ti, p))
    if limit is not None and len(cands) > limit:
        cands = rng.sample(cands, limit)
    out = []
    for ti, p in cands:
        nb = copy.deepcopy(bodies)
        handler = (base_handler if base_handler is not None else HANDLER) + \
            ([["expr", ["loopindex"], []]] if G.loop_context_at(bodies[ti], p) else [])
        nb[ti] = G.wrap_try(bodies[ti], p, handler)
        out.append((nb, {"template": ti, "path": list(p)}))
    return out


BASE_CLASSES = [
    ("AbortRequest", lambda i: rt.AbortRequest(302, "/login")),
    ("KeyboardInterrupt", lambda i: KeyboardInterrupt()),
    ("GeneratorExit", lambda i: GeneratorExit("g", i)),
]


def check_case(impl, bodies, k, mode, ref=None, factory=None):
    """oracle for one (set, crash point, handler).  Returns (violation site | None, detail, impl result, ref)"""
    r = impl.run(k, mode, factory)
    e = ref if ref is not None else ref_run(bodies, k, mode)
    site, detail = None, None
    if mode.get("fe"):
        if e["error_page"]:
            if not (r["res"] == "val" and is_error_page(r["out"])):
                site, detail = "format-exceptions-no-error-page", {"impl": r, "expected": "error page"}
            elif not is_error_page(r["user_out"]):
                # the page exists but not where the caller of render_context can see it
                site, detail = "format-exceptions-render-context-buffer-replaced", \
                    {"user_buffer": r["user_out"], "internal_buffer_has_page": True}
        elif (r["res"], r["out"]) != (e["res"], (e["out"] or "") + "|A"):
            site, detail = "output-after-exception", {"impl": r, "expected": e}
    else:
        if (r["res"], r["out"]) != (e["res"], (e["out"] or "") + "|A"):
            site, detail = "output-after-exception", {"impl": r, "expected": e}
        elif r["user_out"] != r["out"]:
            site, detail = "later-output-not-in-callers-buffer", {"impl": r}
    if site is None and (r["nb"], r["nf"], r["nc"]) != (1, 0, 0):
        site, detail = "stacks-not-restored", {"impl": r}
    if site is None and r["res"] == "exc:0" and r["same_object"] is not True:
        site, detail = "exception-object-changed", {"impl": r}
    return site, detail, r, e


def run_set(ctx, bodies, st_o, st_b, st_s, pending, tag, handler=None):
    """all crash points x handlers for one template set; queues the model requests"""
    try:
        impl = Impl(bodies)
    except Exception as ex:      # noqa - a template mako cannot compile is a generator matter, not a verdict
        ctx.branch("generator:uncompilable:" + type(ex).__name__)
        return None
    base = impl.run(-1, {})
    total = base["cnt"]
    cap = 30 if ctx.quick else 80
    ks = [-1] + list(range(min(total, cap)))
    has_inc = any(n[0] == "inc" for b in bodies for _, n in G.walk(b))
    baseline = impl.rerender()
    base_impl = [None]          # the same set compiled with `% except BaseException` (built on demand)
    for k in ks:
        modes = [m for m in MODES if ("ieh" not in m or has_inc)]
        if k == -1:
            modes = MODES[:1]
        elif ctx.quick and k > 12:
            modes = [MODES[0], MODES[1 + k % 2], MODES[5]] + ([MODES[3 + k % 2]] if has_inc else [])
        first_ref = None
        for mode in modes:
            st_o["cases"] += 1
            site, detail, r, e = check_case(impl, bodies, k, mode)
            if mode["name"] == "caller":
                first_ref = e
            ctx.branch("handler:" + mode["name"])
            ctx.branch("outcome:" + r["res"])
            if r["res"] != "val" or mode["name"] != "caller":
                ctx.nontriv((tag, k, mode["name"]))
            if site:
                report(ctx, site, bodies, k, mode, None, detail, "oracle.behaviour")
            pending.append((bodies, k, mode, None, r))
            # second render of the same Template objects
            if k >= 0 and r["res"] != "val":
                st_s["cases"] += 1
                again = impl.rerender()
                if again != baseline:
                    report(ctx, "second-render-differs", bodies, k, mode, None,
                           {"first": baseline, "second": again}, "oracle.second_render")
        # exception CLASS dimension: the same crash point raising an object outside `Exception`; every `% except`
        # of the template names BaseException, so handling is as before and all cleanup must be as before
        if k >= 0 and first_ref is not None:
            if base_impl[0] is None:
                try:
                    base_impl[0] = Impl(bodies, "BaseException")
                except Exception as ex:      # noqa
                    base_impl[0] = False
                    ctx.branch("generator:uncompilable-variant:" + type(ex).__name__)
            if base_impl[0]:
                cname, factory = BASE_CLASSES[k % len(BASE_CLASSES)]
                for mode in (MODES[0], MODES[2], MODES[5]) if (not ctx.quick or k < 8) else (MODES[0],):
                    st_o["cases"] += 1
                    site, detail, r, e = check_case(base_impl[0], bodies, k, mode, None, factory)
                    ctx.branch("class:%s:%s" % (cname, mode["name"]))
                    ctx.nontriv((tag, k, mode["name"], cname))
                    if site:
                        m2 = dict(mode, exc_class=cname)
                        report(ctx, site, bodies, k, m2, None, detail, "oracle.behaviour")
                    pending.append((bodies, k, mode, {"exc_class": cname}, r))
        # `% try` at the ancestors of the raising node
        if k >= 0 and first_ref is not None and first_ref["res"] != "val" and first_ref["stack"]:
            lim = 2 if ctx.quick else 6
            if ctx.quick and k > 10:
                lim = 1
            for nb, where in variants_for(bodies, first_ref["stack"], ctx.rng, lim, handler):
                try:
                    vimpl = Impl(nb)
                except Exception as ex:      # noqa
                    ctx.branch("generator:uncompilable-variant:" + type(ex).__name__)
                    continue
                st_o["cases"] += 1
                site, detail, r, e = check_case(vimpl, nb, k, {"name": "try"})
                if not site and base_impl[0]:
                    # the same `% try` written `% except BaseException`, the crash point raising outside `Exception`
                    try:
                        vb = Impl(nb, "BaseException")
                        cname, factory = BASE_CLASSES[(k + 1) % len(BASE_CLASSES)]
                        st_o["cases"] += 1
                        s2, d2, r2, _ = check_case(vb, nb, k, {"name": "try"}, e, factory)
                        ctx.branch("class:%s:try" % cname)
                        if s2:
                            report(ctx, s2, nb, k, {"name": "try", "exc_class": cname}, where, d2, "oracle.behaviour")
                    except Exception as ex:      # noqa
                        ctx.branch("generator:uncompilable-variant:" + type(ex).__name__)
                ctx.branch("handler:try@depth%d" % (len(where["path"]) // 2))
                ctx.branch("outcome-after-try:" + r["res"])
                ctx.nontriv((tag, k, "try", where["template"], tuple(where["path"])))
                if site:
                    report(ctx, site, nb, k, {"name": "try"}, where, detail, "oracle.behaviour")
                pending.append((nb, k, {"name": "try"}, where, r))
    return impl


def report(ctx, site, bodies, k, mode, where, detail, stream):
    """shrink and report a violation of the property on the implementation"""
    if len(ctx.violations) >= 12:
        return
    if site == "format-exceptions-render-context-buffer-replaced" and \
            any(v["site"] == site for v in ctx.violations):
        return          # systematic: one witness is enough

    cls = mode.get("exc_class")
    factory = dict(BASE_CLASSES).get(cls)
    xc = "BaseException" if cls else "Exception"

    def fails(bs):
        im = Impl(bs, xc)
        s, _, _, _ = check_case(im, bs, k, mode, None, factory)
        if s == site:
            return True
        if site == "second-render-differs":
            base = im.rerender()
            im.run(k, mode)
            return im.rerender() != base
        return False
    small = bodies
    if site != "format-exceptions-render-context-buffer-replaced":
        try:
            small = G.shrink_set(copy.deepcopy(bodies), fails, 150 if ctx.quick else 500)
        except Exception:      # noqa
            small = bodies
    if small is not bodies:
        try:
            s2, d2, _, _ = check_case(Impl(small, xc), small, k, mode, None, factory)
            if s2 == site:
                detail = d2
        except Exception:      # noqa
            pass
    srcs = [G.to_source(b, "", xc)[0] for b in small]
    case = {"input": "\n-----\n".join(srcs), "k": k, "handler": mode["name"], "bodies": small, "mode": mode}
    if site == "format-exceptions-render-context-buffer-replaced":
        case = {"handler": "format-exceptions", "entry": "render_context", "k": k, "bodies": small, "mode": mode,
                "input": srcs[0]}
    ctx.violation(site, case, detail, stream)


# --------------------------------------------------------------------------------------------- streams

def structural(ctx, drv, sets):
    st = ctx.stream("corr.structural")
    reqs, cases = [], []
    for bodies, impl in sets:
        codes = impl.codes()
        for i, b in enumerate(bodies):
            reqs.append("tgt gen " + G.to_wire(b))
            cases.append((bodies, i, codes[i], impl.metas[i]))
    outs = drv.ask_many(reqs)
    for (bodies, i, code, meta), o in zip(cases, outs):
        st["cases"] += 1
        try:
            py = TC.from_python(code, meta[1])
        except TC.CanonError as ex:
            ctx.disagree("corr.structural", {"input": meta[0], "what": "real code not understood"}, None, str(ex))
            continue
        try:
            ln = TC.from_lean(o)
        except Exception as ex:      # noqa
            ctx.disagree("corr.structural", {"input": meta[0], "what": "model answer not understood"}, o[:300], str(ex))
            continue
        if py != ln:
            a, b = first_diff(py, ln)
            ctx.disagree("corr.structural", {"input": meta[0], "bodies": bodies, "template": i}, b, a)
        for s in count_shapes(py):
            ctx.branch("shape:" + s)


def first_diff(a, b):
    if isinstance(a, list) and isinstance(b, list):
        for x, y in zip(a, b):
            if x != y:
                return first_diff(x, y)
        n = min(len(a), len(b))
        return a[n:n + 2], b[n:n + 2]
    return a, b


def count_shapes(canon):
    """which try/finally shapes occur (coverage of the structural stream)"""
    res = []

    def go(body):
        for i, s in enumerate(body):
            if isinstance(s, str):
                continue
            h = s[0]
            if h == "tryf":
                fin = [x if isinstance(x, str) else x[0] for x in s[2]]
                res.append("tryf:" + "+".join(fin))
                go(s[1])
                go(s[2])
            elif h == "tryx":
                res.append("tryx")
                go(s[1])
                go(s[2])
            elif h == "def":
                res.append("def")
                go(s[6])
            elif h == "nextcaller":
                res.append("ccall")
                go(s[1])
            elif h in ("if",):
                go(s[2])
                go(s[3])
            elif h in ("for",):
                go(s[3])
            elif h in ("forloop", "while"):
                go(s[2])
    go(canon)
    return res


def behaviour(ctx, drv, pending):
    st = ctx.stream("corr.behaviour")
    st2 = ctx.stream("corr.spec")
    reqs = [model_req("run", b, k, m) for (b, k, m, w, r) in pending]
    reqs2 = [model_req("spec", b, k, m) for (b, k, m, w, r) in pending]
    outs = drv.ask_many(reqs)
    outs2 = drv.ask_many(reqs2)
    for (bodies, k, mode, where, r), o, o2 in zip(pending, outs, outs2):
        st["cases"] += 1
        m = parse_model(o)
        if mode.get("fe") and r["res"] == "val" and is_error_page(r["out"]):
            impl_c = ("val", "<error page>", r["nb"], r["nf"], r["nc"], r["cnt"])
            m_out = "<error page>" if (m["out"] or "").startswith("ERROR-PAGE:") else m["out"]
            model_c = (m["res"], m_out, m.get("nb"), m.get("nf"), m.get("nc"), m.get("cnt"))
        else:
            impl_c = (r["res"], r["out"], r["nb"], r["nf"], r["nc"], r["cnt"])
            model_c = (m["res"], (m["out"] or "") + "|A", m.get("nb"), m.get("nf"), m.get("nc"), m.get("cnt"))
        if impl_c != model_c:
            ctx.disagree("corr.behaviour", {"input": G.to_source(bodies[0])[0], "bodies": bodies, "k": k,
                                            "handler": mode["name"], "where": where}, model_c, impl_c)
        if m.get("nl") not in (0, None):
            ctx.disagree("corr.behaviour", {"input": G.to_source(bodies[0])[0], "k": k, "what": "model loop stack"},
                         m.get("nl"), 0)
        # the specification renderer (output only; it has no stacks)
        st2["cases"] += 1
        s = parse_model(o2)
        if mode.get("fe") and r["res"] == "val" and is_error_page(r["out"]):
            ok = s["res"] == "val" and (s["out"] or "").startswith("ERROR-PAGE:")
        else:
            ok = (s["res"], (s["out"] or "") + "|A") == (r["res"], r["out"])
        if not ok:
            ctx.disagree("corr.spec", {"input": G.to_source(bodies[0])[0], "bodies": bodies, "k": k,
                                       "handler": mode["name"], "where": where}, s, (r["res"], r["out"]))


# --------------------------------------------------------------------------------------------- hand-written family

HAND = [
    # (name, {uri: source}, main uri)
    ("inherit-body-raises",
     {"base.html": "B[${self.body()}]${boom()}<%def name='d()'>D</%def>",
      "main.html": "<%inherit file='base.html'/>m1${boom()}m2<%def name='e()' buffered='True'>E${boom()}</%def>${e()}m3"},
     "main.html"),
    ("inherit-block-raises",
     {"base.html": "B[<%block name='t' filter='flt1'>base${boom()}</%block>|${self.body()}]",
      "main.html": "<%inherit file='base.html'/><%block name='t'>child${boom()}${parent.t()}</%block>x${boom()}"},
     "main.html"),
    ("namespace-def-with-content",
     {"lib.html": "<%def name='wrap(x)' buffered='True' filter='flt2'>(${x}${caller.body()}${boom()})</%def>"
                  "<%def name='plain()'>[${caller.body()}]</%def>",
      "main.html": "<%namespace name='lib' file='lib.html'/>a<%lib:wrap x='${boom()}'>in${boom()}"
                   "<%lib:plain>deep${boom()}</%lib:plain></%lib:wrap>b${lib.plain() if False else ''}"
                   "<%call expr='lib.plain()'>c${boom()}</%call>d"},
     "main.html"),
    ("supports-caller-python-def",
     {"main.html": "<%namespace name='py' module='harness.props.C13_pymod'/>a<%call expr='py.pydef(1)'>in${boom()}"
                   "</%call>b<%call expr='py.pydef(2)'>again${boom()}</%call>c${boom()}"},
     "main.html"),
    ("include-with-args-in-loop",
     {"inc.html": "<%page args='x'/>i${x}${boom()}<%def name='q()' buffered='True'>q${boom()}</%def>${q()}",
      "main.html": "% for v in ['1', '2']:\n<%include file='inc.html' args='x=v'/>${loop.index}${boom()}\n% endfor\nend"},
     "main.html"),
]


def handwritten(ctx):
    from mako.lookup import TemplateLookup
    from mako.runtime import Context
    from mako import util
    st = ctx.stream("oracle.handwritten", "oracle")
    prelude = rt.PRELUDE
    for name, files, main in HAND:
        lk = TemplateLookup(cache_enabled=False)
        for uri, src in files.items():
            lk.put_string(uri, prelude + "\\\n" + src)
        try:
            t = lk.get_template(main)
            rt.reset(-1)
            base = t.render_unicode()
        except Exception as ex:       # noqa
            ctx.broke("oracle.handwritten:" + name, "template does not render crash-free: %r" % (ex,))
            continue
        total = rt.STATE.cnt
        ctx.branch("handwritten:" + name, total)
        for k in range(total):
            for eh in (None, True):
                st["cases"] += 1
                for tt in [lk.get_template(u) for u in files]:
                    tt.error_handler = (lambda c, e: True) if eh else None
                rt.reset(k)
                buf = util.FastEncodingBuffer()
                c = Context(buf)
                c._outputting_as_unicode = True
                raised = None
                try:
                    t.render_context(c)
                except rt.Boom as e:
                    raised = e
                except Exception as e:      # noqa
                    raised = e
                cs = c.caller_stack
                depths = (len(c._buffer_stack), len(cs), cs.nextcaller)
                c.write("|A")
                bad = None
                if depths != (1, 0, None):
                    bad = ("stacks-not-restored", {"depths": repr(depths)})
                elif not buf.getvalue().endswith("|A"):
                    bad = ("later-output-not-in-callers-buffer", {"out": buf.getvalue()})
                elif eh is None and raised is not rt.STATE.last:
                    bad = ("exception-object-changed", {"raised": repr(raised)})
                elif eh and raised is not None:
                    bad = ("error-handler-true-did-not-swallow", {"raised": repr(raised)})
                else:
                    # text written directly before the raise is a prefix-compatible part of the crash-free output
                    for tt in [lk.get_template(u) for u in files]:
                        tt.error_handler = None
                    rt.reset(-1)
                    again = t.render_unicode()
                    if again != base:
                        bad = ("second-render-differs", {"first": base, "second": again})
                if bad:
                    ctx.violation(bad[0], {"input": files[main], "family": name, "k": k, "handler":
                                           "eh-true" if eh else "caller", "files": files}, bad[1], "oracle.handwritten")


# --------------------------------------------------------------------------------------------- literal text end to end

LIT_ALPHABET = list("ab z\t\n\r%#$<>{}/\\&'\"") + ["\u00e9", "\u4e16", "\U0001f600", "\u2028", "\x0b"]


def literal(ctx, drv):
    """`tgt literal`: the Lean pipeline lex -> tmplOfTokens -> codegen -> exec on source strings, against the real
    `Template(s).render_unicode()`.  For a directive-free (`Plain`) source both must return the source itself
    (theorem `render_literal` in Props/C01.lean); for any source whose tokens are all text both must agree."""
    from mako.template import Template
    st = ctx.stream("corr.literal")
    so = ctx.stream("oracle.literal", "oracle")
    rng = ctx.rng
    n = 4000 if ctx.quick else 60000
    srcs = ["", "a", "\n", "\r\n", "a\r\nb\r", "x % y ## z", " %", "50% of <b> & {x} $ y", "\u00e9\u4e16\U0001f600\n"]
    while len(srcs) < n:
        k = rng.choice([1, 2, 3, 4, 6, 9, 14])
        srcs.append("".join(rng.choice(LIT_ALPHABET) for _ in range(k)))
    outs = drv.ask_many(["tgt literal " + enc(x) for x in srcs])
    for src, o in zip(srcs, outs):
        st["cases"] += 1
        f = o.split(" ")
        if len(f) < 3:
            ctx.disagree("corr.literal", {"input": src}, o, "malformed answer")
            continue
        plain, lexok = f[0] == "1", f[1] == "1"
        if f[2] == "none":
            ctx.branch("literal:not-text-only")
            if plain:
                ctx.disagree("corr.literal", {"input": src, "what": "Plain but tokens are not all text"}, o, None)
            continue
        model = (f[2][:3], dec(f[3]))
        try:
            impl = ("val", Template(src).render_unicode())
        except Exception as ex:       # noqa - the lexer rejects it: then the model's lexer must not have said ok
            impl = ("exc", type(ex).__name__)
        ctx.branch("literal:plain" if plain else "literal:text-tokens-only")
        if plain:
            ctx.nontriv(("literal", src))
            so["cases"] += 1
            if impl != ("val", src):
                ctx.violation("literal-text-not-reproduced", {"input": src}, {"rendered": impl}, "oracle.literal")
        if lexok and model != impl:
            ctx.disagree("corr.literal", {"input": src, "plain": plain}, model, impl)
        if plain and model != ("val", src):
            ctx.disagree("corr.literal", {"input": src, "what": "model does not reproduce a Plain source"}, model, src)


# --------------------------------------------------------------------------------------------- documented escapes

def escape_source(rng):
    """a source built from pieces whose documented meaning is known: (source, expected output, kinds used).
    Expected output is computed from the construction (ground truth), not by scanning the source."""
    src, out, kinds = [], [], []
    bol = True                      # the next character is at a line start

    def plain():
        n = rng.randint(1, 5)
        body = "".join(rng.choice("ab z<>&.$%#{}/-") for _ in range(n))
        # a plain run must not begin a directive: never start with blanks/%/#/$ { < at any position we control
        body = "x" + body.replace("${", "$ {").replace("<%", "< %").replace("</%", "</ %")
        if rng.random() < 0.3:
            body += rng.choice(["\n", "\r\n"])
        return body
    for _ in range(rng.randint(1, 7)):
        k = rng.choice(["plain", "plain", "cont", "contcr", "hash", "doc", "pct", "text", "textempty"])
        if k in ("hash", "pct") and not bol:
            src.append("\n")
            out.append("\n")
            bol = True
        if k == "plain":
            p = plain()
            src.append(p)
            out.append(p)
            bol = p.endswith("\n")
        elif k in ("cont", "contcr"):
            p = plain().rstrip("\r\n")
            nl = "\\\n" if k == "cont" else "\\\r\n"
            src.append(p + nl)
            out.append(p)
            bol = True
        elif k == "hash":
            ws = rng.choice(["", " ", "\t "])
            src.append(ws + "## " + rng.choice(["note", "a ${x} <%b>", "% not a line", ""]) + rng.choice(["\n", "\r\n"]))
            bol = True
        elif k == "doc":
            src.append("<%doc>" + rng.choice(["", "d", "multi\nline ${x}\n## y\n", "<%text>t</%text>"]) + "</%doc>")
            src.append("y")         # keep the question of the terminator after </%doc> out of this stream
            out.append("y")
            bol = False
        elif k == "pct":
            ws = rng.choice(["", " ", "\t", "  "])
            n = rng.randint(0, 2)
            src.append(ws + "%%" + "%" * n + "q")
            out.append(ws + "%" + "%" * n + "q")
            bol = False
        else:
            body = "" if k == "textempty" else rng.choice(["t", "${x}", "<%def name='f()'>", "## c\n% if x:\n", "a\\\nb", "%%"])
            src.append("<%text>" + body + "</%text>")
            out.append(body)
            bol = False             # the character before the next piece is the `>` of `</%text>`
        kinds.append(k)
    return "".join(src), "".join(out), kinds


def escapes(ctx, drv):
    """documented escapes end to end: constructed sources -> expected text (ground truth of the construction) vs the
    real `Template(s).render_unicode()` vs the Lean pipeline lex -> tmplOfTokens -> codegen -> exec (`tgt literal`)"""
    from mako.template import Template
    st = ctx.stream("corr.escapes")
    so = ctx.stream("oracle.escapes", "oracle")
    n = 1500 if ctx.quick else 20000
    cases = [escape_source(ctx.rng) for _ in range(n)]
    outs = drv.ask_many(["tgt literal " + enc(c[0]) for c in cases])
    for (src, want, kinds), o in zip(cases, outs):
        st["cases"] += 1
        so["cases"] += 1
        for kk in set(kinds):
            ctx.branch("escape:" + kk)
        try:
            impl = ("val", Template(src).render_unicode())
        except Exception as ex:       # noqa
            impl = ("exc", type(ex).__name__ + ": " + str(ex)[:80])
        if impl != ("val", want):
            ctx.violation("documented-escape", {"input": src, "kinds": kinds}, {"rendered": impl, "expected": want},
                          "oracle.escapes")
        f = o.split(" ")
        if len(f) < 4 or f[2] == "none":
            ctx.disagree("corr.escapes", {"input": src, "what": "model: tokens outside the escape kinds"}, o, impl)
            continue
        model = (f[2][:3], dec(f[3]))
        if model != impl:
            ctx.disagree("corr.escapes", {"input": src, "kinds": kinds}, model, impl)
        ctx.nontriv(("escape", src))


# --------------------------------------------------------------------------------------------- format_exceptions x entry point

FE_FAMILIES = {
    # name -> ({uri: source}, main uri); PRELUDE is prepended to every file
    "plain": ({"m.html": "head ${boom()} mid<%def name='d()' buffered='True'>in${boom()}</%def>${d()} tail"}, "m.html"),
    "call-capture": ({"m.html": "<%def name='w()'>[${caller.body()}]</%def><%def name='d()'>d${boom()}</%def>"
                                "a<%call expr='w()'>b${capture(d)}${boom()}</%call>c"}, "m.html"),
    "include": ({"m.html": "top<%include file='i.html'/>${boom()}end", "i.html": "inc${boom()}<%def name='q()' filter='trim'> q${boom()} </%def>${q()}"},
                "m.html"),
    "namespace": ({"m.html": "<%namespace name='n' file='lib.html'/>a${n.f()}b<%n:g>body${boom()}</%n:g>c",
                   "lib.html": "<%def name='f()'>F${boom()}</%def><%def name='g()' buffered='True'>G${caller.body()}${boom()}</%def>"},
                  "m.html"),
    "inherit": ({"base.html": "BASE-HEAD${boom()}\n${self.body()}\n<%block name='bb'>basebb${boom()}</%block>${self.pd()}BASE-FOOT"
                              "<%def name='pd()'>pd${boom()}</%def>",
                 "m.html": "<%inherit file='base.html'/>child-start${boom()}<%def name='cd()' buffered='True'>cd${boom()}</%def>"
                           "${cd()}<%block name='cb' filter='trim'> cb${boom()} </%block>child-end"}, "m.html"),
    "inherit-override": ({"base.html": "B1<%block name='bb'>basebb</%block>${next.body()}B2${boom()}",
                          "m.html": "<%inherit file='base.html'/><%block name='bb'>over${boom()}${parent.bb()}</%block>C${boom()}"},
                         "m.html"),
    "inherit-3": ({"top.html": "T[${next.body()}]${boom()}", "mid.html": "<%inherit file='top.html'/>M(${next.body()})${boom()}",
                   "m.html": "<%inherit file='mid.html'/>L${boom()}<%def name='x()'>x${boom()}</%def>${x()}"}, "m.html"),
}


def format_exceptions_entries(ctx, drv=None):
    """unhandled exception x format_exceptions x entry point (render, render_unicode, render_context; with and
    without output_encoding) x template relation (plain, include, namespace, inheritance chains; raise in child,
    parent, block, def): with format_exceptions the result is the error page ONLY (nothing in front of it, the
    exception named in it), without it the very exception object propagates.  Also: the context the failing
    callable ran on shares its buffer-stack list with the caller's context (model: `renderErrorHeap`)."""
    from mako.lookup import TemplateLookup
    from mako.runtime import Context
    from mako import util
    import mako.runtime as R
    so = ctx.stream("oracle.format_exceptions", "oracle")
    st = ctx.stream("corr.shared_stack")
    model_shared = {}

    def page_only(text):
        t = text.lstrip()
        return t.startswith("<!DOCTYPE") or t.startswith("<html"), ("boom at evaluation point" in text)

    for fam, (files, main) in FE_FAMILIES.items():
        for enc_ in (None, "utf-8"):
            Impl.serial += 1
            pre = "f%d_" % Impl.serial
            kw = {"output_encoding": enc_} if enc_ else {}
            lk = TemplateLookup(cache_enabled=False, **kw)
            for uri, src in files.items():
                body = src
                for u in files:
                    body = body.replace("'%s'" % u, "'%s%s'" % (pre, u))
                lk.put_string(pre + uri, rt.PRELUDE + body)
            ts = [lk.get_template(pre + u) for u in files]
            t = lk.get_template(pre + main)
            rt.reset(-1)
            try:
                t.render_unicode()
            except Exception as ex:      # noqa
                ctx.broke("oracle.format_exceptions:" + fam, "family does not render crash-free: %r" % (ex,))
                continue
            total = rt.STATE.cnt
            for k in range(total):
                for fe in (True, False):
                    for tt in ts:
                        tt.format_exceptions = fe
                        tt.error_handler = None
                    for entry in ("render", "render_unicode", "render_context"):
                        so["cases"] += 1
                        ctx.branch("fe:%s:%s:%s" % (fam, entry, "bytes" if enc_ else "text"))
                        rt.reset(k)
                        seen = []
                        orig = R._render_error

                        def spy(template, context, error, seen=seen, orig=orig):
                            seen.append(context)
                            return orig(template, context, error)
                        R._render_error = spy
                        caught, out, user_ctx = None, None, None
                        try:
                            try:
                                if entry == "render":
                                    out = t.render()
                                elif entry == "render_unicode":
                                    out = t.render_unicode()
                                else:
                                    buf = util.FastEncodingBuffer(encoding=enc_) if enc_ else util.FastEncodingBuffer()
                                    user_ctx = Context(buf)
                                    user_ctx._outputting_as_unicode = not enc_
                                    t.render_context(user_ctx)
                                    out = buf.getvalue()
                            except BaseException as e:       # noqa
                                caught = e
                        finally:
                            R._render_error = orig
                        if isinstance(out, bytes):
                            out = out.decode("utf-8", "replace")
                        case = {"family": fam, "k": k, "entry": entry, "output_encoding": enc_, "format_exceptions": fe,
                                "input": files[main], "files": files, "handler": "format-exceptions"}
                        if not fe:
                            if caught is not rt.STATE.last:
                                ctx.violation("exception-object-changed", case, {"caught": repr(caught), "out": out},
                                              "oracle.format_exceptions")
                            continue
                        if caught is not None:
                            ctx.violation("format-exceptions-no-error-page", case, {"raised": repr(caught)},
                                          "oracle.format_exceptions")
                            continue
                        is_page, names_exc = page_only(out or "")
                        if entry == "render_context":
                            # the page exists, but (known finding) not where the caller of render_context can see it
                            internal = user_ctx._buffer_stack[-1].getvalue() if user_ctx._buffer_stack else ""
                            if isinstance(internal, bytes):
                                internal = internal.decode("utf-8", "replace")
                            ip, ie = page_only(internal)
                            if len(user_ctx._buffer_stack) != 1 or not (ip and ie):
                                ctx.violation("format-exceptions-no-error-page", case,
                                              {"stack_depth": len(user_ctx._buffer_stack), "internal": internal[:200]},
                                              "oracle.format_exceptions")
                            elif not (is_page and names_exc) and not any(
                                    v["site"] == "format-exceptions-render-context-buffer-replaced" for v in ctx.violations):
                                ctx.violation("format-exceptions-render-context-buffer-replaced", case,
                                              {"user_buffer": (out or "")[:200], "internal_buffer_has_page": True},
                                              "oracle.format_exceptions")
                        elif not (is_page and names_exc):
                            ctx.violation("format-exceptions-no-error-page", case,
                                          {"got": (out or "")[:300], "starts_with_page": is_page,
                                           "names_exception": names_exc}, "oracle.format_exceptions")
                        # the failing callable's context is an alias of the caller's: same list object, and the
                        # caller sees what the heap model (`renderErrorHeap`, driver op `tgt sharedstack`) says
                        if seen and user_ctx is not None and drv is not None:
                            st["cases"] += 1
                            top = user_ctx._buffer_stack[-1].getvalue() if user_ctx._buffer_stack else ""
                            if isinstance(top, bytes):
                                top = top.decode("utf-8", "replace")
                            tp, te = page_only(top)
                            impl = "%d %d" % (len(user_ctx._buffer_stack), 1 if (tp and te) else 0)
                            if "x" not in model_shared:         # one driver round trip per run
                                model_shared["x"] = drv.ask("tgt sharedstack 3")
                            model = model_shared["x"]
                            if seen[0]._buffer_stack is not user_ctx._buffer_stack:
                                ctx.disagree("corr.shared_stack", case, "the error path's context shares the caller's list",
                                             "a different list object")
                            elif impl != model:
                                ctx.disagree("corr.shared_stack", case, model, impl)
            for tt in ts:
                tt.format_exceptions = False


# --------------------------------------------------------------------------------------------- exception objects

def _factories():
    return [
        ("Boom", True, lambda i: rt.Boom(i)),
        ("ValueError-args", True, lambda i: ValueError("status", 302, "/login")),
        ("AbortRequest", False, lambda i: rt.AbortRequest(302, "/login")),
        ("SystemExit", False, lambda i: SystemExit(3)),
        ("KeyboardInterrupt", False, lambda i: KeyboardInterrupt()),
        ("GeneratorExit", False, lambda i: GeneratorExit("g", 1)),
    ]


def exception_objects(ctx, drv):
    """which OBJECT reaches the caller of render: identity, class and constructor arguments, for exceptions inside
    and outside `Exception`, under error_handler (true / false-ish results), format_exceptions and
    include_error_handler - real mako vs the decision-logic model (`renderErrorObj`, `includeErrorObj`) and vs the
    property text"""
    from mako.lookup import TemplateLookup
    from mako.runtime import Context
    from mako import util
    st = ctx.stream("corr.exception_object")
    so = ctx.stream("oracle.exception_object", "oracle")
    Impl.serial += 1
    pre = "x%d_" % Impl.serial
    lk = TemplateLookup(cache_enabled=False)
    lk.put_string(pre + "main.html", rt.PRELUDE + "before<%def name='d()' buffered='True'>in${boom()}</%def>${d()}after")
    lk.put_string(pre + "inc.html", rt.PRELUDE + "i${boom()}j")
    lk.put_string(pre + "outer.html", rt.PRELUDE + "a<%include file='" + pre + "inc.html'/>z")
    main, inc, outer = (lk.get_template(pre + n) for n in ("main.html", "inc.html", "outer.html"))
    wire = {None: "n", True: "t", False: "f"}

    def run(t, factory):
        seen_arg = []
        rt.reset(0, factory=factory)
        ctx_ = Context(util.FastEncodingBuffer())
        ctx_._outputting_as_unicode = True
        caught = None
        try:
            t.render_context(ctx_)
        except BaseException as e:       # noqa - BaseExceptions are the point here
            caught = e
        return caught, ctx_

    falsy = [False, None, 0, ""]
    for name, is_exc, factory in _factories():
        # ---- error_handler / format_exceptions on the template itself
        for eh in ["absent", True] + falsy:
            for fe in (False, True):
                got = []

                def handler(c, error, eh=eh, got=got):
                    got.append(error)
                    return eh
                main.error_handler = handler if eh != "absent" else None
                main.format_exceptions = fe
                caught, c = run(main, factory)
                obj = rt.STATE.last
                so["cases"] += 1
                st["cases"] += 1
                ctx.branch("excobj:%s:%s" % (name, "handler" if eh != "absent" else ("fe" if fe else "bare")))
                arg = "none" if not got else ("inst" if got[0] is obj else ("cls" if got[0] is type(obj) else "other"))
                page = caught is None and is_error_page(c._buffer_stack[-1].getvalue())
                if caught is None:
                    seen = "returned"
                elif caught is obj and type(caught) is type(obj) and caught.args == obj.args:
                    seen = "same"
                else:
                    seen = "other"
                case = {"input": "before<%def name='d()' buffered='True'>in${boom()}</%def>${d()}after",
                        "exception": name, "error_handler": repr(eh), "format_exceptions": fe}
                # property text: unhandled (no handler / handler result false) -> the original object, unchanged
                handled = (eh is True) or (eh == "absent" and fe)
                if not handled and seen != "same":
                    ctx.violation("exception-object-changed", case,
                                  {"raised": repr(obj), "caught": repr(caught), "same_object": caught is obj},
                                  "oracle.exception_object")
                if handled and caught is not None:
                    ctx.violation("handled-exception-propagated", case, {"caught": repr(caught)},
                                  "oracle.exception_object")
                model = drv.ask("tgt errobj %s %d %d" % (wire[None if eh == "absent" else bool(eh)], 1 if fe else 0,
                                                         1 if is_exc else 0))
                impl = "%s %s %d" % (arg, seen, 1 if page else 0)
                if model != impl:
                    ctx.disagree("corr.exception_object", case, model, impl)
        main.error_handler = None
        main.format_exceptions = False
        # ---- include_error_handler
        for ieh in ["absent", True] + falsy:
            got = []

            def ihandler(c, error, ieh=ieh, got=got):
                got.append(error)
                return ieh
            inc.include_error_handler = ihandler if ieh != "absent" else None
            caught, c = run(outer, factory)
            obj = rt.STATE.last
            so["cases"] += 1
            st["cases"] += 1
            ctx.branch("excobj:%s:include" % name)
            arg = "none" if not got else ("inst" if got[0] is obj else "other")
            seen = "returned" if caught is None else \
                ("same" if caught is obj and type(caught) is type(obj) and caught.args == obj.args else "other")
            case = {"input": "a<%include file='inc.html'/>z / inc.html: i${boom()}j", "exception": name,
                    "include_error_handler": repr(ieh)}
            handled = ieh is True and is_exc
            if not handled and seen != "same":
                ctx.violation("exception-object-changed", case,
                              {"raised": repr(obj), "caught": repr(caught), "same_object": caught is obj},
                              "oracle.exception_object")
            model = drv.ask("tgt incobj %s %d" % (wire[None if ieh == "absent" else bool(ieh)], 1 if is_exc else 0))
            impl = "%s %s 0" % (arg, seen)
            if model != impl:
                ctx.disagree("corr.exception_object", case, model, impl)
        inc.include_error_handler = None


# --------------------------------------------------------------------------------------------- entry points

def knob_sets(ctx):
    """streams of generator settings (name, knobs, number of template sets quick/thorough)"""
    K = G.Knobs
    return [
        ("mixed", K(), 45, 300),
        ("defs-and-calls", K(constructs={"text": 4, "expr": 6, "def": 5, "call": 5, "block": 2, "try": 2, "if": 1,
                                         "texttag": 1, "ret": 0.3}, p_flag=0.5), 25, 160),
        ("loops", K(constructs={"text": 4, "expr": 6, "for": 5, "while": 2, "try": 3, "if": 2, "def": 2, "call": 2,
                                "brk": 1, "cont": 0.6, "ret": 0.4, "block": 1}), 20, 130),
        ("includes", K(constructs={"text": 4, "expr": 5, "inc": 4, "def": 3, "call": 2, "try": 2, "for": 1,
                                   "block": 1}, templates=(2, 3)), 15, 100),
        ("deep", K(max_depth=6, budget=45, max_body=3), 10, 80),
    ]


# fixed witnesses (tree grammar, so model, spec and reference all run them)
FIXED_SETS = [
    # a <%call> executed inside `caller.body()` while another call with content is collecting its arguments
    # (F-C05-1, repaired by 555117c: the inner tag must put the pending caller back, not None)
    ("nested-call-in-arguments",
     [[["def", 1, [1], G.FL(), [["text", "["], ["expr", ["caller", 0, []], []], ["text", "]"]]],
       ["def", 2, [], G.FL(), [["call", ["call", 1, [["caller", 0, []]]], [], [["text", "inner"], ["expr", ["boom"], []]]]]],
       ["call", ["call", 2, []], [],
        [["call", ["call", 1, [["lit", "p"]]], [], [["text", "z"], ["expr", ["boom"], []]]], ["text", "w"]]],
       ["expr", ["probe"], []]]]),
]


def run(ctx):
    pending = []
    sets = []
    st_o = ctx.stream("oracle.behaviour", "oracle")
    st_s = ctx.stream("oracle.second_render", "oracle")
    st_b = None
    try:
        n = 0
        for name, knobs, nq, nt in knob_sets(ctx):
            count = nq if ctx.quick else nt
            for _ in range(count):
                g = G.Gen(ctx.rng, knobs)
                bodies = g.template_set()
                for b in bodies:
                    for kk, v in G.kinds(b).items():
                        ctx.branch("node:" + kk, v)
                impl = run_set(ctx, bodies, st_o, st_b, st_s, pending, n)
                n += 1
                if impl is not None:
                    sets.append((bodies, impl))
                ctx.branch("stream:" + name)
            ctx.log("oracle %s: %d sets so far, %d cases, %d violations" % (name, n, st_o["cases"], len(ctx.violations)))
        for name, bodies in FIXED_SETS:
            # no probe in the wrapped handlers here: inside a body() that runs while the outer call collects its
            # arguments the pending caller is (legitimately) still set, which the stack-free renderers do not show
            impl = run_set(ctx, copy.deepcopy(bodies), st_o, st_b, st_s, pending, "fixed:" + name, [["text", "!"]])
            ctx.branch("fixed:" + name)
            if impl is not None:
                sets.append((bodies, impl))
            else:
                ctx.broke("oracle.fixed:" + name, "fixed witness does not compile")
        handwritten(ctx)
        try:
            fe_drv = ctx.driver()
        except Exception:       # noqa - without the driver the oracle part still runs
            fe_drv = None
        format_exceptions_entries(ctx, fe_drv)
        if sets:
            b0 = sets[0][0]
            ctx.sample({"template": G.to_source(b0[0])[0][len(rt.PRELUDE):][:300], "crash_points": "all",
                        "handlers": [m["name"] for m in MODES] + ["try@ancestors"]})
    finally:
        # correspondence with the Lean model (structural, behavioural, specification renderer)
        drv = ctx.driver()
        structural(ctx, drv, sets)
        ctx.log("corr.structural: %d templates" % ctx.streams["corr.structural"]["cases"])
        behaviour(ctx, drv, pending)
        ctx.log("corr.behaviour: %d runs" % ctx.streams["corr.behaviour"]["cases"])
        exception_objects(ctx, drv)
        ctx.log("corr.exception_object: %d cases" % ctx.streams["corr.exception_object"]["cases"])
        escapes(ctx, drv)
        ctx.log("corr.escapes: %d sources" % ctx.streams["corr.escapes"]["cases"])
        literal(ctx, drv)
        ctx.log("corr.literal: %d sources" % ctx.streams["corr.literal"]["cases"])


def replay(ctx, data):
    case = data.get("case") or {}
    if not case and data.get("first_disagreements"):
        case = data["first_disagreements"][0].get("case") or {}
    if isinstance(case, dict) and "exception" in case:
        # exception-object cases: re-run the (small, fixed) family and look for this configuration
        tmp = type(ctx)(ctx.pid, "quick", data.get("seed", 0))
        exception_objects(tmp, ctx.driver())
        keys = ("exception", "error_handler", "format_exceptions", "include_error_handler")
        hits = [v for v in tmp.violations if all(v["case"].get(k) == case.get(k) for k in keys)]
        for v in hits:
            print("property violated:", v["site"], json.dumps(v["detail"]))
        if not hits:
            print("the original object reaches the caller for", {k: case.get(k) for k in keys})
        return not hits
    if isinstance(case, dict) and case.get("family") in FE_FAMILIES:
        tmp = type(ctx)(ctx.pid, "quick", data.get("seed", 0))
        format_exceptions_entries(tmp, None)
        keys = ("family", "k", "entry", "output_encoding", "format_exceptions")
        hits = [v for v in tmp.violations if v["site"] == data.get("site") and
                all(v["case"].get(k) == case.get(k) for k in keys)]
        for v in hits:
            print("property violated:", v["site"], json.dumps(v["detail"])[:400])
        if not hits:
            print("holds for", {k: case.get(k) for k in keys})
        return not hits
    bodies = case.get("bodies")
    if not bodies:
        print("nothing to replay in", list(data))
        return False
    k = case.get("k", -1)
    mode = case.get("mode") or {"name": case.get("handler", "caller")}
    print("template:\n" + G.to_source(bodies[0])[0])
    print("crash point", k, "handler", mode)
    cls = mode.get("exc_class")
    impl = Impl(bodies, "BaseException" if cls else "Exception")
    if cls:
        print("the crash point raises", cls, "(outside Exception); every `% except` names BaseException")
    site, detail, r, e = check_case(impl, bodies, k, mode, None, dict(BASE_CLASSES).get(cls))
    print("implementation:", json.dumps(r))
    print("reference     :", json.dumps({kk: v for kk, v in e.items() if kk != "stack"}))
    try:
        print("lean model    :", parse_model(ctx.driver().ask(model_req("run", bodies, k, mode))))
        print("lean spec     :", parse_model(ctx.driver().ask(model_req("spec", bodies, k, mode))))
    except Exception as ex:      # noqa
        print("lean model unavailable:", ex)
    if site:
        print("property violated:", site, json.dumps(detail)[:500])
    ok = site is None
    if ok and data.get("site") == "second-render-differs":
        base = impl.rerender()
        impl.run(k, mode)
        ok = impl.rerender() == base
    return ok


DRIVER_OPS = ["tgt"]   # per-area driver executable(s) this check talks to (built before any worker is forked)
