"""C20 - message extraction finds every translatable string at its template line (Babel, Lingua).

corr  : the Lean model of MessageExtractor.extract_nodes + BabelMakoExtractor/LinguaMakoExtractor.process_python
        (lean/MakoModel/Extract/Model.lean) is fed with the parse tree the *real* Lexer builds and with the answers
        of the *real* Python-level finders (Babel's extract_python, lingua's python extractor) for exactly the
        strings the model hands to the finder; its message list is compared with
        mako.ext.babelplugin.extract(...) and LinguaMakoExtractor(...)(...); the strings handed to the finder
        are compared with the recorded arguments of the real finder calls; the Python string helpers the
        model re-implements (strip, splitlines, re.split(r"\\s+"), blank test, lingua's fragment completion) are
        compared on their own.
oracle: no Lean.  Templates are rendered from a generated item tree; every planted call has a unique message;
        ground truth = (line of the unique literal in the rendered source, function, messages, the ## translator
        comment block ending on the line before the construct the call sits in).  Both extractors must report
        every planted call exactly once at its line with its comments and nothing from decoys.  The recorded
        witnesses of known_findings.json and of the repaired defects are replayed first (witness_cases), followed by
        linebreak_like_witnesses(): <% %> / <%! %> blocks with a form-feed page break between statements and with each of
        VT FF FS GS RS NEL U+2028 U+2029 inside a Python comment / string literal - none of them ends a template line,
        so the calls below keep their lines (sites wrong-line:code, wrong-line:code!, extractor-raises:*).
        A mismatch is first established against this ground truth; only for naming its site the oracle also
        carries a transcription of the *recorded* defective behaviour (recorded_comment_behaviour for the comment
        window, rec_off for Python in tag attributes): a mismatch counts as one of the recorded findings only if it
        is exactly what that behaviour produces, anything else gets a `...deviates-from-recorded-behaviour` site
        and is reported as new.  Violations are shrunk on the item tree (shrink_case).
replay: re-renders the recorded item tree, runs the oracle (holds iff the recorded site is no longer violated) and
        the model/implementation comparison on the rendered template.
"""
from __future__ import annotations

import io
import json
import re
import sys

from harness.common import enc, dec, ddmin

RULE = ("templates rendered from a random item tree: text / ## comments / <%doc> / <%text> (all with decoy calls), "
        "mixed text+${} lines (multi-line expressions, filters, calls in filters), % control blocks (if/elif/else, for, "
        "while, with, try/except; backslash continuations), <% %> and <%! %> blocks (inline and multi-line, empty and "
        "whitespace-only leading lines, blanks after the opening delimiter, margins; form-feed page-break lines and "
        "FF/VT/FS/GS/RS/NEL/U+2028/U+2029 inside Python comments and string literals below the first statement; "
        "the same leading blanks in front of expression "
        "bodies and <%call expr>), <%def> / <%block> / <%page> / <%call> / <%ns:def> (single- and multi-line tags, "
        "multi-line attribute values, attributes on later lines), <%namespace> with nested defs, include/inherit, "
        "<%page>/<%inherit> written with a body; "
        "nesting depth <= 3; calls _(m), gettext(m), ngettext(s, p, n) with unique messages at random places; "
        "translator-comment blocks (1-3 ## lines, configured tag) at distance 0/1/2 lines, separated by text or by a "
        "message-less construct, followed by untagged ## lines; LF/CRLF; str input and bytes in utf-8 / latin-1 / "
        "cp1251 / koi8-r with `encoding` option and/or coding comment, comment and option naming different codecs "
        "(the comment wins), or the codec given as `input_encoding` only; <%ns:def> with up to 4 arguments on "
        "different lines and line breaks directly after '${' / before '}'; a case is non-trivial when >= 1 planted "
        "call is present; distinct = distinct rendered sources x flavour")
ASSUMPTIONS = [
    "the Python-level call finders (babel.messages.extract.extract_python, lingua.extractors.python) are oracles: "
    "the model receives their answers for the strings it hands over; their own correctness is outside the property",
    "since 5365b81/ca5ce72 an expression with filters is handed to the finder as '(code), (<line breaks>filters,)'; the "
    "model builds that string itself from Expression.code.code, .escapes and .escapes_lineno_offset",
    "planted calls keep the function name, the opening parenthesis and the first message literal on one line, so "
    "'the line on which the call is written' is unambiguous",
    "generated Python is syntactically valid (mako's lexer parses every fragment while building the tree)",
    "in the oracle stream a translator comment is a run of ## lines of one scope with at most blank lines in between "
    "(the intent documented in extract_nodes); <%doc> blocks never start with a configured tag and never follow a "
    "## line directly (the property speaks of ## lines)",
    "the codec hand-off to Babel (which options reach extract_python) is not part of the Lean model: the "
    "correspondence feeds the finder with the options the implementation was seen to pass, the oracle judges the effect",
]
TRUSTED_EXTRA = [
    "C20: serialisation of the real parse tree (kind, lineno, the code field extract_nodes reads for that kind, "
    "escapes, escapes_lineno_offset, text, node.nodes) in harness/props/C20.py",
    "C20: Basic/Unicode.lean's str.isspace / \\s tables are regenerated from the running interpreter (group Unicode)",
]
REGEN = ["Unicode"]

KEYWORDS = {"_": None, "gettext": None, "ngettext": (1, 2)}

ENC_CHARS = {
    "ascii": "",
    "utf-8": "\u00e9\u00fc\u0442\u0435\u4e16\u754c\u03b1\u00df",
    "latin-1": "\u00e9\u00fc\u00f6\u00df\u00e0\u00f1",
    "cp1251": "\u0442\u0435\u0441\u0442\u0416\u044f\u0451",
    "koi8-r": "\u0442\u0435\u0441\u0442\u0416\u044f\u0451",
}

# --------------------------------------------------------------------------------------------- generator


class Gen:
    """phase 1: a random item tree (pure JSON-able data, every random choice is stored in it)"""

    def __init__(self, rng, charset, tags, wild=False, size=6, exotic=""):
        self.rng = rng
        self.charset = charset
        self.exotic = exotic    # characters str.splitlines() breaks at but that do NOT end a template line
        self.tags = tags
        self.wild = wild
        self.size = size
        self.n = 0
        self.have_page = False

    def uid(self):
        self.n += 1
        return self.n

    def word(self):
        r = self.rng
        base = r.choice(["alpha", "Hello there", "bye", "item", "Save file", "x y z", "one", "Quit now"])
        if self.charset and r.random() < 0.6:
            k = r.randint(1, 3)
            base += " " + "".join(r.choice(self.charset) for _ in range(k))
        return base

    def call(self, q="'"):
        """a planted call: (source text, metadata)"""
        r = self.rng
        i = self.uid()
        fn = r.choice(["_", "_", "gettext", "ngettext"])
        m = "m%d %s" % (i, self.word())
        u = "u" if r.random() < 0.1 else ""
        sp = " " if r.random() < 0.15 else ""
        if fn == "ngettext":
            mp = "m%dp %s" % (i, self.word())
            src = "ngettext(%s%s%s%s%s, %s%s%s, n)" % (sp, u, q, m, q, q, mp, q)
            msgs = [m, mp]
        else:
            src = "%s(%s%s%s%s%s%s)" % (fn, sp, u, q, m, q, sp)
            msgs = [m]
        return src, {"key": m, "fn": fn, "msgs": msgs}

    def decoy(self, q="'"):
        i = self.uid()
        fn = self.rng.choice(["_", "gettext", "ngettext"])
        m = "d%d %s" % (i, self.word())
        if fn == "ngettext":
            return "ngettext(%s%s%s, %sd%dp%s, 2)" % (q, m, q, q, i, q)
        return "%s(%s%s%s)" % (fn, q, m, q)

    def py(self, ncalls, q="'", ml=False):
        """a Python expression with `ncalls` planted calls; `ml`: spread over lines (inside brackets)"""
        r = self.rng
        cs = [self.call(q) for _ in range(ncalls)]
        s = [c[0] for c in cs]
        metas = [c[1] for c in cs]
        if ncalls == 0:
            src = r.choice(["x", "a + b", "f(x)", "d[%sk%s]" % (q, q), "x.y", "len(items)", "f(x, y=2)"])
            if ml:
                src = r.choice(["f(x,\n   y)", "(a +\n b)", "[x,\n\n y]"])
        elif ncalls == 1:
            if ml:
                src = r.choice(["f(\n    {0}\n)", "(a,\n {0})", "f(x,\n\n  {0}, y)", "[{0},\n x]", "f(x, {0},\n y)"]).format(*s)
            else:
                src = r.choice(["{0}", "f({0})", "{0} + x", "(a, {0})", "f(x, {0})", "{0}.upper()", "d[{0}]", "x or {0}"]).format(*s)
        else:
            if ml:
                src = r.choice(["f({0},\n  {1})", "({0} +\n   x +\n   {1})", "[\n {0},\n {1}\n]", "f(\n{0}, {1})"]).format(*s[:2])
            else:
                src = r.choice(["{0} + {1}", "f({0}, {1})", "[{0}, {1}]", "{0} if x else {1}"]).format(*s[:2])
            metas = metas[:2]
        return {"src": src, "calls": metas}

    # ---- items
    def text_item(self):
        r = self.rng
        lines = []
        for _ in range(r.randint(1, 2)):
            t = r.choice(["<p>plain text</p>", "some words here", "  indented line", "100 % sure # not a comment",
                          "price: 5 $ { } |", "<div class=\"c\">", "</div>", "a ## b", "tail"])
            if r.random() < 0.5:
                t += " " + self.decoy(r.choice("'\""))
            if self.charset and r.random() < 0.3:
                t += " " + r.choice(self.charset)
            lines.append(t)
        return {"t": "text", "lines": lines}

    def blank_item(self):
        return {"t": "blank", "n": self.rng.randint(1, 2), "ws": self.rng.random() < 0.3}

    def plain_comment(self):
        r = self.rng
        txt = r.choice(["note %d" % self.uid(), "remark %d %s" % (self.uid(), self.decoy()), "todo %d" % self.uid()])
        return {"t": "cmt", "ind": r.choice(["", "", "  "]), "sp": r.choice([" ", " ", "", "\t"]), "text": txt}

    def tr_block(self):
        r = self.rng
        tag = r.choice(self.tags)
        k = r.choice([1, 1, 2, 3])
        items = []
        for j in range(k):
            body = "c%d %s" % (self.uid(), self.word())
            if r.random() < 0.02:
                body += r.choice(["\x0c", "\x0b"]) + "more"
            txt = (tag + " " + body) if j == 0 else r.choice([body, body, tag + " " + body])
            items.append({"t": "cmt", "ind": r.choice(["", "", "  "]), "sp": r.choice([" ", " ", ""]), "text": txt})
        return items

    def doc_item(self):
        r = self.rng
        lines = ["doc %d %s" % (self.uid(), self.decoy())]
        if r.random() < 0.5:
            lines.append("${%s} <%% %s %%>" % (self.decoy(), self.decoy()))
        return {"t": "doc", "inline": r.random() < 0.3, "lines": lines}

    def texttag_item(self):
        r = self.rng
        lines = ["raw %d ${%s}" % (self.uid(), self.decoy())]
        if r.random() < 0.6:
            lines.append("% if " + self.decoy() + ":")
            lines.append("<%% x = %s %%> <%%def name=\"q(a=%s)\">" % (self.decoy(), self.decoy()))
        return {"t": "texttag", "lines": lines, "filter": r.random() < 0.3}

    def expr(self, allow_filter_call=True):
        r = self.rng
        nc = r.choice([0, 1, 1, 1, 2])
        ml = r.random() < 0.3
        e = {"body": self.py(nc, r.choice("'\""), ml), "lead": r.choice(["", "", " ", "\n  ", "\n\n ", " \n", "\t\n  ", "  \n \n   "]) if ml or r.random() < 0.2 else r.choice(["", " "]),
             "trail": r.choice(["", "", " ", "\n"]) if ml else r.choice(["", " "]), "filter": None}
        f = r.random()
        if f < 0.25:
            e["filter"] = {"src": r.choice(["h", "n", "trim", "n, h", "u", "h,trim"]), "calls": [], "nl": False}
        elif f < 0.45 and allow_filter_call:
            c, meta = self.call(r.choice("'\""))
            e["filter"] = {"src": r.choice(["fmt(%s)", "h, fmt(%s)", "wrap(%s), trim"]) % c, "calls": [meta], "nl": r.random() < 0.4}
        return e

    def exprline_item(self, allow_filter_call=True):
        r = self.rng
        parts = []
        for j in range(r.choice([1, 1, 2, 3])):
            if r.random() < 0.7:
                parts.append({"text": r.choice(["<p>", "a ", " - ", "</p> ", "<b>", "x: "])})
            parts.append({"expr": self.expr(allow_filter_call)})
        if r.random() < 0.5:
            parts.append({"text": r.choice(["</p>", " tail", " " + self.decoy()])})
        return {"t": "exprline", "ind": r.choice(["", "", "  ", "\t"]), "parts": parts}

    def head(self, kw, cont_ok=True):
        """the Python of a control line after the keyword"""
        r = self.rng
        nc = r.choice([0, 0, 1, 1, 2])
        cont = cont_ok and r.random() < 0.25
        q = r.choice("'\"")
        p = self.py(min(nc, 1 if cont else 2), q, False)
        if kw in ("if", "elif", "while"):
            src = p["src"] if not cont else "a and \\\n      " + p["src"]
        elif kw == "for":
            src = "it in " + (p["src"] if not cont else "\\\n   " + p["src"])
        elif kw == "with":
            src = "cm(%s) as v" % p["src"]
        else:
            return {"src": "", "calls": []}
        return {"src": src, "calls": p["calls"]}

    def ctl_item(self, depth):
        r = self.rng
        kw = r.choice(["if", "if", "for", "while", "with", "try"])
        it = {"t": "ctl", "ind": r.choice(["", "", "  ", "    "]), "sp": r.choice([" ", " ", ""]), "kw": kw,
              "head": self.head(kw), "body": self.seq(depth + 1, r.randint(0, 2)), "more": [],
              "cmt": self.wild and r.random() < 0.1}
        if kw == "if":
            for _ in range(r.choice([0, 0, 1, 2])):
                it["more"].append({"kw": "elif", "head": self.head("elif"), "body": self.seq(depth + 1, r.randint(0, 2))})
            if r.random() < 0.4:
                it["more"].append({"kw": "else", "head": {"src": "", "calls": []}, "body": self.seq(depth + 1, r.randint(0, 2))})
        elif kw == "for" and r.random() < 0.2:
            it["more"].append({"kw": "else", "head": {"src": "", "calls": []}, "body": self.seq(depth + 1, r.randint(0, 1))})
        elif kw == "try":
            it["more"].append({"kw": r.choice(["except", "except Exception", "except (KeyError, ValueError) as e"]),
                               "head": {"src": "", "calls": []}, "body": self.seq(depth + 1, r.randint(0, 1))})
        return it

    def code_item(self):
        r = self.rng
        inline = r.random() < 0.35
        q = r.choice("'\"")
        calls = []
        if inline:
            p = self.py(r.choice([0, 1, 1, 2]), q, False)
            src = " " * r.randint(1, 2) + r.choice(["v = %s", "%s", "w = [%s]"]) % p["src"] + " " * r.randint(0, 2)
            calls = p["calls"]
        else:
            margin = r.choice(["", "  ", "    ", "\t"])
            lines = []
            for _ in range(r.choice([0, 0, 1, 2])):
                lines.append(r.choice(["", "", "  ", "\t", margin + " "]))     # empty or whitespace-only lines in front
            nst = r.randint(1, 5)
            for _ in range(nst):
                k = r.random()
                if k < 0.4:
                    p = self.py(r.choice([1, 1, 2]), q, r.random() < 0.25)
                    calls += p["calls"]
                    st = r.choice(["v%d = %s", "out.append(%s)", "w%d = f(%s)"])
                    st = st % ((self.uid(), p["src"]) if "%d" in st else (p["src"],))
                    lines += [margin + l for l in st.split("\n")]
                elif k < 0.55:
                    p = self.py(1, q, False)
                    calls += p["calls"]
                    lines += [margin + "if cond:", margin + "    z = " + p["src"], margin + "else:", margin + "    z = None"]
                elif k < 0.7:
                    lines.append("")
                elif k < 0.8 and self.wild:
                    lines.append(margin + "# " + r.choice(self.tags + ["plain"]) + " py comment %d" % self.uid())
                else:
                    lines.append(margin + r.choice(["import os", "k = 1", "def g(a): return a", "t = (1, 2)"]))
            first = next((i for i, l in enumerate(lines) if l.strip(" \t")), None)
            if self.exotic and first is not None and r.random() < 0.2:
                # a character str.splitlines() breaks at (form feed, VT, FS/GS/RS, NEL, LS, PS) below the first
                # statement: a page-break line, or inside a Python comment / a string literal.  None of them ends a
                # template line, so every planted call below keeps its line.  (Not above the first statement: a bare
                # form-feed line there fixes the margin at "" - outside this property.)
                ch = r.choice(self.exotic)
                kind = r.choice(["ff-line", "ff-margin", "cmt", "cmt", "cmt0", "str"])
                if kind == "str":
                    lines.append(margin + "s%d = %sa%sb%s" % (self.uid(), q, ch, q))
                else:
                    new = {"ff-line": "\x0c", "ff-margin": margin + "\x0c",
                           "cmt": margin + "# sec" + ch + r.choice(["part", " tion", "x = 1"]),
                           "cmt0": "#" + ch + "z"}[kind]
                    at = r.randint(first + 1, len(lines))
                    # (an empty line below a Python comment: Lingua's Python finder takes a comment on the line directly
                    # above a call as that call's comment - finder behaviour, see ASSUMPTIONS - so it is kept apart)
                    lines[at:at] = [new, ""] if kind.startswith("cmt") else [new]
            src = r.choice(["", "", "", " ", "\t", "  "]) + "\n" + "\n".join(lines) + "\n" + r.choice(["", margin])   # (blanks after "<%")
        return {"t": "code", "module": r.random() < 0.3, "src": src, "calls": calls,
                "tail": r.choice(["", "", " after"]), "ind": r.choice(["", "", "  "])}

    def tag_layout(self):
        """how the pieces of a tag are separated: 'flat' one line; 'late' the Python-bearing attribute starts on a
        later line"""
        return self.rng.choice(["flat", "flat", "flat", "late", "lateval"])

    def def_item(self, depth):
        r = self.rng
        nc = r.choice([0, 0, 1, 1, 2])
        ml = nc > 0 and r.random() < 0.3
        cs = [self.call("'") for _ in range(nc)]
        args = ["a"]
        for c in cs:
            args.append("k%d=%s" % (self.uid(), c[0]))
        if r.random() < 0.3:
            args.append("z=None")
        sig = "f%d(%s)" % (self.uid(), (",\n      " if ml else ", ").join(args))
        extra = r.choice([[], [], [["buffered", "True"]], [["filter", "h"]], [["cached", "False"]]])
        return {"t": "def", "sig": sig, "calls": [c[1] for c in cs], "extra": extra, "layout": self.tag_layout(),
                "extra_first": r.random() < 0.5, "body": self.seq(depth + 1, r.randint(0, 3)),
                "inline": r.random() < 0.2, "ind": r.choice(["", "", "  "])}

    def block_item(self, depth):
        r = self.rng
        named = r.random() < 0.8
        p = None
        if named and r.random() < 0.5:
            cs = [self.call("'") for _ in range(r.choice([1, 1, 2]))]
            p = {"src": ", ".join(["x"] + ["b%d=%s" % (self.uid(), c[0]) for c in cs]), "calls": [c[1] for c in cs]}
        return {"t": "block", "name": "blk%d" % self.uid() if named else None, "args": p, "layout": self.tag_layout(),
                "filter": r.random() < 0.2, "body": self.seq(depth + 1, r.randint(0, 3)), "ind": r.choice(["", "  "])}

    def page_item(self):
        r = self.rng
        cs = [self.call("'") for _ in range(r.choice([0, 1, 2]))]
        ml = len(cs) > 1 and r.random() < 0.4
        src = (",\n   " if ml else ", ").join(["x"] + ["p%d=%s" % (self.uid(), c[0]) for c in cs])
        return {"t": "page", "args": {"src": src, "calls": [c[1] for c in cs]}, "layout": self.tag_layout(),
                "extra": r.random() < 0.3}

    def call_item(self, depth):
        r = self.rng
        p = self.py(r.choice([0, 1, 1, 2]), "'", r.random() < 0.25)
        lead = r.choice(["", "", "", " ", "\n  ", " \n   ", "\t\n \n  "])      # whitespace / whitespace-only lines after expr="
        return {"t": "call", "expr": {"src": lead + "comp(%s)" % p["src"], "calls": p["calls"]}, "args": r.choice([None, None, "x, y"]),
                "layout": self.tag_layout(), "body": self.seq(depth + 1, r.randint(0, 3)), "ind": r.choice(["", "  "])}

    def nscall_item(self, depth):
        r = self.rng
        attrs = []
        def pypart(nc, ml):
            # line breaks directly after "${" / before "}" belong to the argument expression as well
            return {"py": self.py(nc, "'", ml), "lead": r.choice(["", "", "", "\n   ", "\n\n  ", " ", " \n  ", "\t\n\n "]),
                    "trail": r.choice(["", "", "", "\n  ", "\n", " "])}
        for j in range(r.randint(0, 4)):
            k = "a%d" % self.uid()
            kind = r.random()
            if kind < 0.25:
                parts = [{"lit": r.choice(["plain", "#12", self.decoy("'"), "it's"])}]
            elif kind < 0.8:
                parts = [pypart(r.choice([0, 1, 1, 2]), r.random() < 0.2)]
            else:
                parts = [{"lit": "pre "}, pypart(1, False), {"lit": " post"}]
            attrs.append({"k": k, "parts": parts, "nl": j > 0 and r.random() < 0.4})
        return {"t": "nscall", "ns": r.choice(["self", "ns1", "local"]), "name": "comp%d" % self.uid(), "attrs": attrs,
                "selfclose": r.random() < 0.3, "first_nl": bool(attrs) and r.random() < 0.15,
                "body": self.seq(depth + 1, r.randint(0, 2)), "ind": r.choice(["", "  "])}

    def other_item(self):
        r = self.rng
        return {"t": "other", "src": r.choice(['<%include file="inc.html"/>', '<%namespace name="nsx" file="lib.html"/>',
                                               '<%inherit file="base.html"/>', '<%include file="i2.html" args="a=1"/>',
                                               '<%namespace file="lib2.html" import="*"/>'])}

    def nsdefs_item(self, depth):
        return {"t": "nsdefs", "name": "nsd%d" % self.uid(), "body": [self.def_item(depth + 1) for _ in range(self.rng.randint(1, 2))]}

    def bodytag_item(self, depth):
        """a <%page> / <%inherit> tag written with a body (mako renders such a body)"""
        r = self.rng
        return {"t": "bodytag", "open": r.choice(['<%page cached="False">', '<%inherit file="base.html">']),
                "body": self.seq(depth + 1, r.randint(1, 2))}

    def construct(self, depth, allow_filter_call=True):
        r = self.rng
        k = r.random()
        if depth >= 3:
            k = k * 0.55
        if k < 0.30:
            return self.exprline_item(allow_filter_call)
        if k < 0.45:
            return self.code_item()
        if k < 0.55:
            if not self.have_page and depth == 0 and r.random() < 0.5:
                self.have_page = True
                return self.page_item()
            return self.exprline_item(allow_filter_call)
        if k < 0.67:
            return self.ctl_item(depth)
        if k < 0.77:
            return self.def_item(depth)
        if k < 0.84:
            return self.block_item(depth)
        if k < 0.90:
            return self.call_item(depth)
        if k < 0.97:
            return self.nscall_item(depth)
        if k < 0.99:
            return self.nsdefs_item(depth)
        return self.bodytag_item(depth)

    def seq(self, depth, n):
        """a sibling sequence; translator-comment scenarios are composed here"""
        r = self.rng
        out = []
        last_cmt = False
        for _ in range(n):
            k = r.random()
            if k < 0.14:
                out.append(self.text_item())
                last_cmt = False
            elif k < 0.20:
                out.append(self.blank_item())      # (a blank run after a comment: "distance" scenarios)
            elif k < 0.25:
                if not last_cmt or self.wild:
                    out.append(self.plain_comment())
                    last_cmt = True
            elif k < 0.29:
                if last_cmt and not self.wild:
                    out.append(self.text_item())
                out.append(self.doc_item())
                last_cmt = False
            elif k < 0.33:
                out.append(self.texttag_item())
                last_cmt = False
            elif k < 0.36:
                out.append(self.other_item())
                last_cmt = False
            elif k < 0.58:
                # translator comment scenario
                if last_cmt and not self.wild:
                    out.append(self.text_item())
                out += self.tr_block()
                sc = r.choice(["adjacent", "adjacent", "adjacent", "gap", "text", "quiet-construct", "untagged-after-text",
                               "second-block", "none"])
                if sc == "adjacent":
                    out.append(self.construct(depth))
                elif sc == "gap":
                    out.append(self.blank_item())
                    out.append(self.construct(depth))
                elif sc == "text":
                    out.append(self.text_item())
                    out.append(self.construct(depth))
                elif sc == "quiet-construct":
                    out.append({"t": "exprline", "ind": "", "parts": [{"text": "<h1>"}, {"expr": {"body": self.py(0), "lead": "", "trail": "", "filter": None}}, {"text": "</h1>"}]})
                    out.append(self.construct(depth))
                elif sc == "untagged-after-text":
                    out.append(self.text_item())
                    out.append(self.plain_comment())
                    out.append(self.construct(depth))
                elif sc == "second-block":
                    out.append({"t": "exprline", "ind": "", "parts": [{"expr": {"body": self.py(0), "lead": "", "trail": "", "filter": None}}]})
                    out += self.tr_block()
                    out.append(self.construct(depth))
                last_cmt = False
                if sc == "none":
                    last_cmt = True
            else:
                out.append(self.construct(depth))
                last_cmt = False
        return out


# --------------------------------------------------------------------------------------------- renderer

class Render:
    """phase 2: deterministic text of an item tree + what the generator knows about it"""

    def __init__(self, tree, tags):
        self.parts = []
        self.pos = 0
        self.tags = tags
        self.calls = {}        # key -> meta + {kind, in_filter, hidden, late, lead, construct}
        self.constructs = []   # {scope, pos, keys, kind}
        self.comments = []     # {scope, pos, text}
        self.doc_lines = []    # lines of <%doc> bodies
        self.events = []       # what the translator-comment logic sees, per scope: cmt / doc / ctlend / construct
        self.nscope = 0
        self.seq(tree, 0, False)
        self.src = "".join(self.parts)

    def w(self, s):
        self.parts.append(s)
        self.pos += len(s)

    def construct(self, scope, kind, calls, hidden, **flags):
        c = {"scope": scope, "pos": self.pos, "kind": kind, "keys": [m["key"] for m in calls]}
        self.constructs.append(c)
        self.events.append({"scope": scope, "pos": self.pos, "kind": "construct", "c": c})
        for m in calls:
            d = dict(m)
            d.update(kind=kind, in_filter=False, hidden=hidden, late=False, lead=0, cidx=len(self.constructs) - 1)
            d.update(flags)
            self.calls[m["key"]] = d
        return c

    def new_scope(self):
        self.nscope += 1
        return self.nscope

    def seq(self, items, scope, hidden):
        for it in items:
            getattr(self, "r_" + it["t"])(it, scope, hidden)

    def r_text(self, it, scope, hidden):
        for l in it["lines"]:
            self.w(l + "\n")

    def r_blank(self, it, scope, hidden):
        for _ in range(it["n"]):
            self.w(("  " if it["ws"] else "") + "\n")

    def r_cmt(self, it, scope, hidden):
        self.w(it["ind"])
        self.comments.append({"scope": scope, "pos": self.pos, "text": it["text"].strip()})
        self.events.append({"scope": scope, "pos": self.pos, "kind": "cmt", "text": it["text"]})
        self.w("##" + it["sp"] + it["text"] + "\n")

    def r_doc(self, it, scope, hidden):
        self.doc_lines += [" ".join(it["lines"])] if it["inline"] else list(it["lines"])
        self.events.append({"scope": scope, "pos": self.pos, "kind": "cmt",
                            "text": " ".join(it["lines"]) if it["inline"] else "\n" + "\n".join(it["lines"]) + "\n"})
        if it["inline"]:
            self.w("<%doc>" + " ".join(it["lines"]) + "</%doc>\n")
        else:
            self.w("<%doc>\n" + "\n".join(it["lines"]) + "\n</%doc>\n")

    def r_texttag(self, it, scope, hidden):
        self.w("<%text" + (' filter="h"' if it["filter"] else "") + ">\n" + "\n".join(it["lines"]) + "\n</%text>\n")

    def r_other(self, it, scope, hidden):
        self.w(it["src"] + "\n")

    def r_exprline(self, it, scope, hidden):
        self.w(it["ind"])
        for p in it["parts"]:
            if "text" in p:
                self.w(p["text"])
            else:
                e = p["expr"]
                lead_nl = e["lead"].count("\n")
                self.construct(scope, "expr", e["body"]["calls"], hidden, lead=lead_nl)
                c = self.constructs[-1]
                self.w("${" + e["lead"] + e["body"]["src"] + e["trail"])
                f = e["filter"]
                if f:
                    self.w(" |" + ("\n   " if f["nl"] else " ") + f["src"])
                    for m in f["calls"]:
                        d = dict(m)
                        d.update(kind="expr-filter", in_filter=True, hidden=hidden, late=False, lead=0, cidx=len(self.constructs) - 1,
                                 rec_off=(e["lead"] + e["body"]["src"] + e["trail"]).count("\n") + _nl_before(f["src"], m["key"]))
                        self.calls[m["key"]] = d
                        c["keys"].append(m["key"])
                self.w("}")
        self.w("\n")

    def r_ctl(self, it, scope, hidden):
        def line(kw, head):
            self.w(it["ind"])
            self.construct(scope, "ctl:" + kw.split()[0], head["calls"], hidden)
            self.w("%" + it["sp"] + kw + (" " + head["src"] if head["src"] else "") + ":" + ("  # c" if it.get("cmt") else "") + "\n")
        line(it["kw"], it["head"])
        self.seq(it["body"], scope, hidden)
        for m in it["more"]:
            line(m["kw"], m["head"])
            self.seq(m["body"], scope, hidden)
        self.w(it["ind"])
        self.events.append({"scope": scope, "pos": self.pos, "kind": "ctlend"})
        self.w("%" + it["sp"] + "end" + it["kw"] + "\n")

    def r_code(self, it, scope, hidden):
        self.w(it["ind"])
        lead = len(it["src"]) - len(it["src"].lstrip())
        self.construct(scope, "code!" if it["module"] else "code", it["calls"], hidden, lead=it["src"][:lead].count("\n"))
        self.w("<%" + ("!" if it["module"] else "") + it["src"] + "%>" + it["tail"] + "\n")

    def tag(self, scope, kind, name, attrs, pykey, calls, layout, hidden, close):
        """attrs: list of [k, v]; the attribute `pykey` holds the Python with the planted calls"""
        start = len(self.parts)
        self.construct(scope, kind, calls, hidden)
        self.w("<%" + name)
        late = False
        for i, (k, v) in enumerate(attrs):
            sep = " "
            if layout == "late" and k == pykey and i > 0:
                sep = "\n    "
            elif layout == "late" and k == pykey and i == 0:
                sep = "\n  "
            elif layout == "lateval" and i > 0:
                sep = "\n      "
            self.w(sep)
            if k == pykey:
                late = "\n" in "".join(self.parts[start:])
                for m in calls:
                    self.calls[m["key"]]["rec_off"] = _nl_before(v, m["key"])
            self.w(k + '="' + v + '"')
        self.w(close)
        if late:
            for m in calls:
                self.calls[m["key"]]["late"] = True

    def children(self, it, hidden):
        sc = self.new_scope()
        # the body normally starts on the next line; "inline" keeps it on the tag's line unless it starts with a
        # line-oriented construct (% line, ## line)
        if not (it.get("inline") and not any(x["t"] in ("ctl", "cmt", "blank") for x in it["body"][:1])):
            self.w("\n")
        self.seq(it["body"], sc, hidden)

    def r_def(self, it, scope, hidden):
        self.w(it["ind"])
        attrs = [["name", it["sig"]]]
        attrs = (it["extra"] + attrs) if it["extra_first"] else (attrs + it["extra"])
        self.tag(scope, "def", "def", attrs, "name", it["calls"], it["layout"], hidden, ">")
        self.children(it, hidden)
        self.w(it["ind"] + "</%def>\n")

    def r_block(self, it, scope, hidden):
        self.w(it["ind"])
        attrs = []
        if it["filter"]:
            attrs.append(["filter", "h"])
        if it["name"]:
            attrs.append(["name", it["name"]])
        if it["args"]:
            attrs.append(["args", it["args"]["src"]])
        self.tag(scope, "block", "block", attrs, "args", it["args"]["calls"] if it["args"] else [], it["layout"], hidden, ">")
        self.children(it, hidden)
        self.w(it["ind"] + "</%block>\n")

    def r_page(self, it, scope, hidden):
        attrs = ([["cached", "False"]] if it["extra"] else []) + [["args", it["args"]["src"]]]
        self.tag(scope, "page", "page", attrs, "args", it["args"]["calls"], it["layout"], hidden, "/>")
        self.w("\n")

    def r_call(self, it, scope, hidden):
        self.w(it["ind"])
        attrs = [["expr", it["expr"]["src"]]]
        if it["args"]:
            attrs = attrs + [["args", it["args"]]] if len(it["args"]) % 2 else [["args", it["args"]]] + attrs
        self.tag(scope, "call", "call", attrs, "expr", it["expr"]["calls"], it["layout"], hidden, ">")
        self.children(it, hidden)
        self.w(it["ind"] + "</%call>\n")

    def r_nscall(self, it, scope, hidden):
        self.w(it["ind"])
        allcalls = [m for a in it["attrs"] for p in a["parts"] if "py" in p for m in p["py"]["calls"]]
        self.construct(scope, "nscall", allcalls, hidden)
        self.w("<%" + it["ns"] + ":" + it["name"])
        outside_nl = 0
        inside_nl = 0      # line breaks inside the argument expressions written so far (= inside the assembled code)
        for j, a in enumerate(it["attrs"]):
            if (j == 0 and it["first_nl"]) or a["nl"]:
                self.w("\n     ")
                outside_nl += 1
            else:
                self.w(" ")
            self.w(a["k"] + '="')
            for p in a["parts"]:
                if "lit" in p:
                    self.w(p["lit"])
                else:
                    body = p.get("lead", "") + p["py"]["src"] + p.get("trail", "")
                    for m in p["py"]["calls"]:
                        self.calls[m["key"]]["late"] = outside_nl > 0
                        self.calls[m["key"]]["rec_off"] = inside_nl + _nl_before(body, m["key"])
                    inside_nl += body.count("\n")
                    self.w("${" + body + "}")
            self.w('"')
        if it["selfclose"]:
            self.w("/>\n")
        else:
            self.w(">")
            self.children(it, hidden)
            self.w(it["ind"] + "</%" + it["ns"] + ":" + it["name"] + ">\n")

    def r_bodytag(self, it, scope, hidden):
        name = it["open"][2:].split()[0].rstrip(">")
        if name == "page":      # a PageTag is a Python-bearing construct (its signature), an InheritTag is not
            self.construct(scope, "page", [], hidden)
        self.w(it["open"] + "\n")
        sc = self.new_scope()
        self.seq(it["body"], sc, "skip")
        self.w("</%" + name + ">\n")

    def r_nsdefs(self, it, scope, hidden):
        self.w('<%namespace name="' + it["name"] + '">\n')
        sc = self.new_scope()
        self.seq(it["body"], sc, hidden if hidden == "skip" else "ns")   # "ns": inside a <%namespace> body
        self.w("</%namespace>\n")


def _nl_before(text, key):
    """line breaks in `text` before the literal of the planted message `key`"""
    i = max(text.find("'" + key + "'"), text.find('"' + key + '"'))
    return text[:max(i, 0)].count("\n")


def line_of(src, pos):
    return 1 + src.count("\n", 0, pos)


def ground_truth(rd, tags):
    """key -> {line, fn, msgs, comments, ...}: position of the unique literal + the ## rule"""
    src = rd.src
    truth = {}
    for key, m in rd.calls.items():
        # the literal is  <quote>key<quote>  (the plural form m12p … has a different prefix); it is unique
        assert src.count("'" + key + "'") + src.count('"' + key + '"') == 1, key
        j = max(src.find("'" + key + "'"), src.find('"' + key + '"'))
        d = dict(m)
        d["line"] = line_of(src, j)
        d["comments"] = []
        d["why"] = None
        truth[key] = d
    for c in rd.constructs:
        c["line"] = line_of(src, c["pos"])
    cl = []
    for c in rd.comments:
        cl.append({"scope": c["scope"], "line": line_of(src, c["pos"]), "text": c["text"],
                   "tagged": [t for t in tags if c["text"].startswith(t)]})
    cl.sort(key=lambda c: c["line"])
    lines = src.split("\n")
    blocks = []
    for c in cl:
        # one translator comment = a run of ## lines of one scope, blank lines in between tolerated
        # ("Ignore whitespace within translator comments" in extract_nodes documents that intent)
        if blocks and blocks[-1][-1]["scope"] == c["scope"] and \
                all(not lines[k - 1].strip() for k in range(blocks[-1][-1]["line"] + 1, c["line"])):
            blocks[-1].append(c)
        else:
            blocks.append([c])
    info = []
    for b in blocks:
        idx = next((i for i, c in enumerate(b) if c["tagged"]), None)
        end = b[-1]["line"]
        cands = sorted([c for c in rd.constructs if c["scope"] == b[0]["scope"] and c["line"] == end + 1], key=lambda c: c["pos"])
        target = next((c for c in cands if c["keys"]), None)
        rec = {"first": b[0]["line"], "end": end, "tagged_from": None if idx is None else b[idx]["line"],
               "texts": [c["text"] for c in b], "tr": None if idx is None else [c["text"] for c in b[idx:]],
               "multi_tag": any(len(c["tagged"]) > 1 for c in b), "target": target["keys"] if target else []}
        info.append(rec)
        if idx is not None and target:
            for k in target["keys"]:
                truth[k]["comments"] = rec["tr"]
    return truth, info


# --------------------------------------------------------------------------------------------- implementation access

class Impl:
    def __init__(self):
        import mako.ext.babelplugin as bp
        import mako.ext.linguaplugin as lp
        import mako.ext.extract as ex
        from mako import lexer, parsetree
        from babel.messages.extract import extract_python
        from lingua.extractors import register_extractors, get_extractor
        register_extractors()
        self.bp, self.lp, self.ex, self.lexer, self.pt = bp, lp, ex, lexer, parsetree
        self.extract_python = extract_python
        self.pyx = get_extractor("x.py")

        class Opt:
            keywords = []
            domain = None
            comment_tag = True
        self.LOpt = Opt

    # ---- real extraction
    def babel(self, data, tags, options, record=None):
        """list of (line, func, messages, comments) or ('EXC', class name)"""
        bp = self.bp
        orig = bp.extract_python
        if record is not None:
            def rec(fileobj, keywords, comment_tags, opts):
                record.append(fileobj.getvalue())
                self.last_finder_options = dict(opts)     # how the implementation configures the finder
                return orig(fileobj, keywords, comment_tags, opts)
            bp.extract_python = rec
        try:
            f = io.BytesIO(data) if isinstance(data, bytes) else io.StringIO(data)
            try:
                return [tuple(x) for x in bp.extract(f, KEYWORDS, list(tags), dict(options))]
            except Exception as e:
                return ("EXC", type(e).__name__)
        finally:
            bp.extract_python = orig

    def lingua(self, text, cfg):
        plugin = self.lp.LinguaMakoExtractor({"comment-tags": cfg})
        err = sys.stderr
        sys.stderr = io.StringIO()      # lingua prints diagnostics for non-literal arguments
        try:
            return list(plugin("t.mako", self.LOpt(), io.StringIO(text)))
        except BaseException as e:   # lingua calls sys.exit on tokenizer errors
            if isinstance(e, KeyboardInterrupt):
                raise
            return ("EXC", type(e).__name__)
        finally:
            sys.stderr = err

    def lingua_recorded(self, text, cfg):
        """real lingua extraction + the sources handed to the python extractor"""
        lp = self.lp
        rec = []
        orig = lp.get_extractor
        real = self.pyx

        def fake_get(name):
            def wrapped(filename, options, fileobj=None, lineno=0):
                rec.append(fileobj.getvalue())
                return real(filename, options, fileobj, lineno)
            return wrapped
        lp.get_extractor = fake_get
        try:
            res = self.lingua(text, cfg)
        finally:
            lp.get_extractor = orig
        return res, rec

    # ---- the finders as oracles for the model
    def babel_finder(self, code, tags, options, finder_options=None):
        """the finder as an oracle: `finder_options` are the options the implementation was seen to pass to
        extract_python for this template (the codec hand-off is the implementation's business, the oracle stream
        judges its effect)"""
        encoding = options.get("input_encoding", options.get("encoding", None)) or "ascii"
        data = code.encode(encoding, "backslashreplace")
        try:
            return [(l, fn, repr(msgs), list(cm)) for l, fn, msgs, cm in
                    self.extract_python(io.BytesIO(data), KEYWORDS, " ".join(tags),
                                        dict(finder_options if finder_options is not None else options))]
        except Exception as e:
            return ("EXC", type(e).__name__)

    def lingua_finder(self, source):
        err = sys.stderr
        sys.stderr = io.StringIO()
        try:
            return [(m.location[1], "", lingua_payload(m), [m.comment]) for m in
                    self.pyx("t.mako", self.LOpt(), io.StringIO(source), 0)]
        except BaseException as e:
            if isinstance(e, KeyboardInterrupt):
                raise
            return ("EXC", type(e).__name__)
        finally:
            sys.stderr = err

    # ---- parse tree
    def tree(self, data, encoding):
        try:
            t = self.lexer.Lexer(data, input_encoding=encoding).parse()
        except Exception as e:
            return ("EXC", type(e).__name__)
        return [self.ser(n) for n in t.get_children()]

    def ser(self, n):
        pt = self.pt
        kids = []
        code = esc = text = ""
        off = 0
        if isinstance(n, pt.Text):
            kind, text = "text", n.content
        elif isinstance(n, pt.Comment):
            kind, text = "comment", n.text
        elif isinstance(n, pt.DefTag):
            kind, code, kids = "def", n.function_decl.code, n.nodes
        elif isinstance(n, pt.BlockTag):
            kind, code, kids = "block", n.body_decl.code, n.nodes
        elif isinstance(n, pt.CallTag):
            kind, code, kids = "call", n.code.code, n.nodes
        elif isinstance(n, pt.PageTag):
            kind, code, kids = "page", n.body_decl.code, n.nodes
        elif isinstance(n, pt.CallNamespaceTag):
            kind, code, kids = "nscall", n.expression, n.nodes
        elif isinstance(n, pt.NamespaceTag):
            kind, kids = "namespace", n.nodes
        elif isinstance(n, pt.ControlLine):
            kind, code = ("ctlend" if n.isend else "ctl"), n.text
        elif isinstance(n, pt.Code):
            kind, code = "code", n.code.code
        elif isinstance(n, pt.Expression):
            kind, code, esc, off = "expr", n.code.code, n.escapes, getattr(n, "escapes_lineno_offset", 0)
        else:
            kind, kids = "other", getattr(n, "nodes", [])
        return (kind, n.lineno, code, esc, off, text, [self.ser(k) for k in kids])


def lingua_payload(m):
    return repr((m.msgctxt, m.msgid, m.msgid_plural, list(m.flags), m.tcomment))


def canon_babel(res):
    if isinstance(res, tuple) and res and res[0] == "EXC":
        return res
    return [(l, fn, repr(msgs), list(cm)) for l, fn, msgs, cm in res]


def canon_lingua(res):
    if isinstance(res, tuple) and res and res[0] == "EXC":
        return res
    return [(m.location[1], "", lingua_payload(m), [m.comment]) for m in res]


# --------------------------------------------------------------------------------------------- wire

def enc_tree(nodes):
    toks = [str(len(nodes))]

    def go(n):
        kind, ln, code, esc, off, text, kids = n
        toks.extend([kind, str(ln), enc(code), enc(esc), str(off), enc(text), str(len(kids))])
        for k in kids:
            go(k)
    for n in nodes:
        go(n)
    return " ".join(toks)


def enc_cfg(flavor, tags, cfg):
    if flavor == "babel":
        return " ".join([str(len(tags))] + [enc(t) for t in tags])
    return enc(cfg)


def enc_finder(table):
    toks = [str(len(table))]
    for code, hits in table:
        toks += [enc(code), str(len(hits))]
        for l, fn, payload, cm in hits:
            toks += [str(l), enc(fn), enc(payload), str(len(cm))] + [enc(c) for c in cm]
    return " ".join(toks)


def dec_int(t):
    return -int(t[1:]) if t.startswith("n") else int(t)


def dec_codes(line):
    t = line.split(" ")
    n = int(t[0])
    return [(int(t[1 + 2 * i]), dec(t[2 + 2 * i])) for i in range(n)]


def dec_msgs(line):
    t = line.split(" ")
    n = int(t[0])
    i = 1
    out = []
    for _ in range(n):
        l, fn, payload, nc = dec_int(t[i]), dec(t[i + 1]), dec(t[i + 2]), int(t[i + 3])
        cm = [dec(x) for x in t[i + 4:i + 4 + nc]]
        i += 4 + nc
        out.append((l, fn, payload, cm))
    return out


# --------------------------------------------------------------------------------------------- cases

def make_case(rng, wild, size):
    enc_mode = rng.choice(["str", "str", "opt:utf-8", "opt:latin-1", "opt:cp1251", "coding:utf-8", "coding:cp1251",
                           "coding:latin-1", "both:utf-8", "both:cp1251",
                           # magic comment and configured encoding DISAGREE (bytes input): the comment wins
                           "conflict:cp1251:utf-8", "conflict:latin-1:utf-8", "conflict:koi8-r:latin-1",
                           "conflict:utf-8:latin-1", "conflict:cp1251:latin-1", "conflict:utf-8:cp1251",
                           # the codec is configured with the documented `input_encoding` option only
                           "inopt:latin-1", "inopt:cp1251", "inopt:utf-8"])
    encoding = "utf-8" if enc_mode == "str" else enc_mode.split(":")[1]
    charset = ENC_CHARS[encoding] if rng.random() < (0.95 if enc_mode.startswith("conflict") else 0.8) else ""
    tagsets = [["TR:"], ["TRANSLATORS:", "NOTE:"], ["TR:", "L10N"]]
    if wild or rng.random() < 0.08:
        tagsets += [["TR", "TR:"]]
    if wild:
        tagsets += [["NOTE TO:"], []]
    tags = rng.choice(tagsets)
    g = Gen(rng, charset, tags or ["TR:"], wild=wild, size=size, exotic=EXOTIC if encoding == "utf-8" else EXOTIC_ASCII)
    tree = g.seq(0, rng.randint(1, size))
    return {"tree": tree, "tags": tags, "enc_mode": enc_mode, "crlf": rng.random() < 0.3,
            "cfg_ws": wild and rng.random() < 0.3}


def render_case(case):
    """-> (rd, src text (LF/CRLF applied, coding comment added), data handed to babel, options)"""
    if "raw" in case:    # hand-written template, carried verbatim
        rd = Render([], case["tags"])
        rd.src = case["raw"]
        return rd, case["raw"], case["raw"], {}
    rd = Render(case["tree"], case["tags"])
    mode = case["enc_mode"]
    src = rd.src
    options = {}
    prefix = ""
    if mode != "str":
        kind, encoding = mode.split(":")[:2]
        if kind in ("coding", "both", "conflict"):
            prefix = "## -*- coding: %s -*-\n" % encoding
        if kind in ("opt", "both"):
            options = {"encoding": encoding}
        if kind == "inopt":
            options = {"input_encoding": encoding}
        if kind == "conflict":       # the file is written in the codec of its magic comment; the option names another
            options = {"encoding": mode.split(":")[2]}
    if prefix:
        # keep the renderer's offsets valid: re-render behind the prefix
        rd.src = prefix + rd.src
        for c in rd.constructs:
            c["pos"] += len(prefix)
        for c in rd.comments:
            c["pos"] += len(prefix)
        for e in rd.events:
            if e["kind"] != "construct":     # (construct events share the dict shifted above)
                e["pos"] += len(prefix)
        src = rd.src
    text = src.replace("\n", "\r\n") if case["crlf"] else src
    data = text if mode == "str" else text.encode(mode.split(":")[1])
    return rd, text, data, options


# --------------------------------------------------------------------------------------------- oracle

def recorded_comment_behaviour(rd, tags):
    """What the translator-comment logic of extract_nodes *as recorded in known_findings.json* (F-C20-4..7) attaches
    to every planted call - a transcription of that state machine over the generator's own event list.  It is used
    for one thing only: a comment mismatch (already established against the ground truth) counts as one of the
    recorded findings only if it is exactly what the recorded behaviour produces; anything else is a new violation."""
    pred = {}
    scopes = {}
    for e in rd.events:
        scopes.setdefault(e["scope"], []).append(e)
    for evs in scopes.values():
        evs.sort(key=lambda e: e["pos"] if e["kind"] != "construct" else e["c"]["pos"])
        tc, intc = [], False
        for e in evs:
            if e["kind"] == "cmt":
                pos = e["pos"]
                line = line_of(rd.src, pos)
                value = e["text"].strip()
                lines = [(line + i, l) for i, l in enumerate(value.splitlines())]
                if intc:
                    tc += lines
                else:
                    for tag in tags:
                        if value.startswith(tag):
                            intc = True
                            tc += lines
            elif e["kind"] == "ctlend":
                intc = False
            else:
                c = e["c"]
                line = line_of(rd.src, c["pos"])
                if tc and tc[-1][0] < line - 1:
                    tc = []
                for k in c["keys"]:
                    pred[k] = [t for _, t in tc]
                if c["keys"]:
                    tc = []
                intc = False
    return pred


def classify_comments(t, got, info, tags, doc_lines=(), truth=None):
    exp = t["comments"]
    if got == exp:
        return None
    alt = [piece for line in exp for piece in line.splitlines()]
    if alt != exp and got == alt:
        return "comment-split-at-formfeed-or-unicode-line-boundary"
    if exp and got == [x for x in exp for _ in (0, 1)][:len(got)] and len(got) > len(exp):
        return "comment-duplicated-when-two-tags-match"
    if exp and len(got) > len(exp) and sorted(set(got)) == sorted(set(exp)) and any(b["multi_tag"] for b in info):
        return "comment-duplicated-when-two-tags-match"
    if truth is not None and not exp and got:
        # the construct the comment belongs to yields no message because its only calls sit in a filter list
        # (or below <%namespace>): the comment moves on to the next construct of that line - same root cause
        adj0 = next((b for b in info if b["end"] + 1 == t["cline"] and b["tr"]), None)
        if adj0 is not None and adj0["target"] and got == adj0["tr"] and \
                all(truth[k]["in_filter"] or truth[k]["hidden"] == "ns" for k in adj0["target"]):
            # both names below are REGRESSION SITES without a matcher (F10 / F-C20-1 are repaired): a comment that moved on
            # because its construct yielded nothing can only happen again if one of those repairs is lost
            return ("call-in-expression-filter-not-extracted" if any(truth[k]["in_filter"] and not truth[k]["hidden"] for k in adj0["target"])
                    else "call-inside-namespace-tag-body-not-extracted")
    if (len(got) > len(exp) and got[len(got) - len(exp):] == exp) if exp else bool(got):
        extra = got[:len(got) - len(exp)] if exp else got
        # where do the extra lines come from?
        line = t["cline"]
        adj = next((b for b in info if b["end"] + 1 == line), None)
        far = [b for b in info if b is not adj and any(x in b["texts"] for x in extra)]
        from_adj = [x for x in extra if adj is not None and x in adj["texts"]]
        from_far = [x for x in extra if any(x in b["texts"] for b in far)]
        from_doc = [x for x in extra if x in doc_lines and x not in from_far and x not in from_adj]
        far.sort(key=lambda b: b["first"])
        if from_far and len(from_far) + len(from_adj) + len(from_doc) == len(extra) and far[0]["tr"] and \
                all(b["end"] + 1 < line for b in far):
            if from_doc or from_adj or (adj is not None and adj["tr"] is None) or any(b["tr"] is None for b in far):
                # an untagged ## line or a <%doc> block was collected: the window opened further up was still open
                return "comments-window-continued-by-untagged-comment"
            if adj is None:
                return "comments-unexpected"
            return "comments-unused-block-leaks-into-next-block"
        return "comments-unexpected"
    if len(got) < len(exp):
        return "comments-missing"
    return "comments-differ"


def check_results(flavor, res, truth, info, rd, tags):
    """-> list of (site, detail) - the property oracle"""
    bad = []
    if isinstance(res, tuple) and res and res[0] == "EXC":
        return [("extractor-raises:" + res[1], "the extractor raised " + res[1])]
    recorded = recorded_comment_behaviour(rd, tags)
    seen = {}
    for (line, fn, payload, comments) in res:
        if flavor == "babel":
            key = payload if isinstance(payload, str) else payload[0]
        else:
            key = payload[0]
        if key not in truth:
            if isinstance(key, str) and re.match(r"d\d+", key):
                bad.append(("decoy-extracted", "decoy %r reported at line %r" % (key, line)))
            else:
                bad.append(("unexpected-message", "%r reported at line %r" % (key, line)))
            continue
        seen.setdefault(key, []).append((line, fn, payload, comments))
    for key, t in truth.items():
        hits = seen.get(key, [])
        if not hits:
            if t["hidden"] == "skip":
                bad.append(("call-inside-page-or-inherit-tag-body-not-extracted", "%s(%r) at line %d inside the body of a <%%page>/<%%inherit> tag is not reported" % (t["fn"], key, t["line"])))
            elif t["hidden"]:
                # REGRESSION SITE - no matcher any more (F-C20-1 repaired in 79d0bc8)
                bad.append(("call-inside-namespace-tag-body-not-extracted", "%s(%r) at line %d inside <%%namespace> is not reported" % (t["fn"], key, t["line"])))
            elif t["in_filter"]:
                # REGRESSION SITE - no matcher any more (F10 repaired in 5365b81)
                bad.append(("call-in-expression-filter-not-extracted", "%s(%r) at line %d in a filter list is not reported" % (t["fn"], key, t["line"])))
            else:
                bad.append(("call-not-extracted:" + t["kind"], "%s(%r) at line %d is not reported" % (t["fn"], key, t["line"])))
            continue
        if len(hits) > 1:
            bad.append(("call-reported-more-than-once:" + t["kind"], "%r reported %d times" % (key, len(hits))))
        line, fn, payload, comments = hits[0]
        t["cline"] = rd.constructs[t["cidx"]]["line"]
        if flavor == "babel":
            want = t["msgs"][0] if t["fn"] != "ngettext" else (t["msgs"][0], t["msgs"][1], None)
            if fn != t["fn"]:
                bad.append(("wrong-function-name", "%r: %r instead of %r" % (key, fn, t["fn"])))
            if payload != want:
                bad.append(("wrong-messages", "%r: %r instead of %r" % (key, payload, want)))
            if line != t["line"]:
                if t["late"] and line == t["cline"] + t.get("rec_off", 0):
                    bad.append(("code-in-attribute-on-later-line-of-multiline-tag", "%r written on line %d, reported on line %d (tag starts on line %d)" % (key, t["line"], line, t["cline"])))
                elif t["late"]:
                    bad.append(("wrong-line-deviates-from-recorded-behaviour:" + t["kind"], "%r written on line %d, reported on line %d; the recorded F7 behaviour reports line %d (construct starts on line %d)" % (key, t["line"], line, t["cline"] + t.get("rec_off", 0), t["cline"])))
                else:
                    bad.append(("wrong-line:" + t["kind"], "%r written on line %d, reported on line %d" % (key, t["line"], line)))
            got_c = list(comments)
        else:
            want = (t["msgs"][0], t["msgs"][1] if t["fn"] == "ngettext" else None)
            if (payload[0], payload[1]) != want:
                bad.append(("wrong-messages", "%r: %r instead of %r" % (key, payload, want)))
            if line != t["line"]:
                if t["late"] and line == t["cline"] + t.get("rec_off", 0):
                    bad.append(("code-in-attribute-on-later-line-of-multiline-tag", "lingua: %r written on line %d, reported on line %d" % (key, t["line"], line)))
                elif t["late"]:
                    bad.append(("wrong-line-deviates-from-recorded-behaviour:" + t["kind"], "lingua: %r written on line %d, reported on line %d; the recorded F7 behaviour reports line %d" % (key, t["line"], line, t["cline"] + t.get("rec_off", 0))))
                elif line == t["line"] - 1:
                    # REGRESSION SITE - no matcher any more (F-C20-2 repaired in ee690ea): any Lingua line that is one too low
                    bad.append(("lingua-line-one-less", "lingua: %r written on line %d, reported on line %d" % (key, t["line"], line)))
                elif t["lead"] > 0 and line == t["line"] - 1 - t["lead"]:
                    # REGRESSION SITE - no matcher any more (F-C20-3 repaired in ee690ea)
                    bad.append(("lingua-line-shifted-by-leading-blank-lines", "lingua: %r written on line %d, reported on line %d (%d leading newline(s) in the code)" % (key, t["line"], line, t["lead"])))
                else:
                    bad.append(("wrong-line:" + t["kind"], "lingua: %r written on line %d, reported on line %d" % (key, t["line"], line)))
            # lingua: one comment string = " ".join(translator strings + [python comment])
            cs = comments
            exp = t["comments"]
            joined = " ".join(exp + [""]) if exp else ""
            alt = [piece for line in exp for piece in line.splitlines()]
            if cs == joined:
                got_c = list(exp)
            elif alt != exp and cs == " ".join(alt + [""]):
                got_c = alt
            else:
                got_c = ["<lingua> " + cs]
                # try to split along the known comment texts
                pool = [x for b in info for x in b["texts"]] + list(rd.doc_lines)
                rest, parts = cs, []
                while rest:
                    m = next((p for p in sorted(pool, key=len, reverse=True) if rest.startswith(p + " ")), None)
                    if m is None:
                        parts = None
                        break
                    parts.append(m)
                    rest = rest[len(m) + 1:]
                if parts is not None:
                    got_c = parts
        site = classify_comments(t, got_c, info, tags, rd.doc_lines, truth)
        if site:
            pred = recorded.get(key)
            same = (list(comments) == pred) if flavor == "babel" else (comments == (" ".join(pred + [""]) if pred else ""))
            if pred is not None and not same:
                site = "comments-deviate-from-recorded-behaviour"
                got_c = got_c + ["<recorded behaviour would give %r>" % (pred,)]
        if site:
            bad.append((site, "%r (line %d): comments %r, expected %r" % (key, t["line"], got_c, t["comments"]), key))
    return bad


def run_flavor_real(impl, flavor, case):
    rd, text, data, options = render_case(case)
    truth, info = ground_truth(rd, case["tags"])
    if flavor == "babel":
        res = impl.babel(data, case["tags"], options)
    else:
        res = impl.lingua(text, " ".join(case["tags"]))
        if not (isinstance(res, tuple) and res and res[0] == "EXC"):
            res = [(m.location[1], "", (m.msgid, m.msgid_plural), m.comment) for m in res]
    return rd, text, truth, info, res


UNCLASSIFIED = ("comments-differ", "comments-unexpected", "comments-missing")
EXOTIC = "\x0b\x0c\x1c\x1d\x1e\x85\u2028\u2029"
EXOTIC_ASCII = "\x0b\x0c\x1c\x1d\x1e"      # the ones every codec of ENC_CHARS can write


def _map_cmt(node, f):
    if isinstance(node, list):
        return [_map_cmt(x, f) for x in node]
    if isinstance(node, dict):
        d = {k: _map_cmt(v, f) for k, v in node.items()}
        if d.get("t") == "cmt":
            d["text"] = f(d["text"])
        return d
    return node


def oracle_case(impl, flavor, case, refine=True):
    """-> ([(site, detail)], rendered text).  A comment mismatch that fits none of the described situations is
    re-examined on variants of the case (line-boundary characters removed from the ## texts; overlapping tags
    reduced to the longest): when the mismatch on that message disappears the feature removed is its cause."""
    rd, text, truth, info, res = run_flavor_real(impl, flavor, case)
    bad = check_results(flavor, res, truth, info, rd, case["tags"])
    if refine and flavor == "babel" and case.get("enc_mode", "").startswith("inopt:") and bad:
        # same template with the codec given as `encoding` instead of `input_encoding`: what disappears is due to
        # the option not reaching Babel's own decoding
        v = dict(case)
        v["enc_mode"] = "opt:" + case["enc_mode"].split(":")[1]
        try:
            bad_v, _ = oracle_case(impl, flavor, v, refine=False)
            keep = {(s_, d_) for s_, d_ in bad_v}
        except Exception:
            keep = None
        if keep is not None:
            # REGRESSION SITE - no matcher in known_findings.json (F-C20-8 is repaired, 0b42cfd): reported as a new
            # violation if the configured codec stops reaching Babel again
            bad = [b if (b[0], b[1]) in keep else ("babel-input-encoding-option-only", b[1] + "  [options = {'input_encoding': %r}; fine with {'encoding': ...}]" % case["enc_mode"].split(":")[1]) + tuple(b[2:])
                   for b in bad]
    out = []
    for b in bad:
        site, detail = b[0], b[1]
        if refine and site in UNCLASSIFIED and "tree" in case:
            key = b[2]
            texts = []
            _map_cmt(case["tree"], lambda s_: texts.append(s_) or s_)
            has_exotic = any(ch in tx for tx in texts for ch in EXOTIC)
            tags = case["tags"]
            slim = [t for t in tags if not any(o != t and o.startswith(t) for o in tags)]
            variants = []
            if has_exotic:
                v = dict(case)
                v["tree"] = _map_cmt(case["tree"], lambda s: "".join("-" if ch in EXOTIC else ch for ch in s))
                variants.append(("comment-split-at-formfeed-or-unicode-line-boundary", v))
            if slim != tags:
                v = dict(case)
                v["tags"] = slim
                variants.append(("comment-duplicated-when-two-tags-match", v))
            if has_exotic and slim != tags:
                v = dict(variants[0][1])
                v["tags"] = slim
                variants.append(("comment-split-at-formfeed-or-unicode-line-boundary", v))
            for name, v in variants:
                try:
                    bad_v, _ = oracle_case(impl, flavor, v, refine=False)
                except Exception:
                    continue
                if not any(s in UNCLASSIFIED and key in d for s, d in bad_v):
                    site = name
                    break
        out.append((site, detail))
    return out, text


def _lists(node, path=()):
    """paths of all reducible lists inside the item tree"""
    if isinstance(node, list):
        if node and all(isinstance(x, (dict, str)) for x in node):
            yield path
        for i, x in enumerate(node):
            yield from _lists(x, path + (i,))
    elif isinstance(node, dict):
        for k, v in node.items():
            if k in ("calls", "msgs", "extra", "lines"):
                continue
            yield from _lists(v, path + (k,))


def _get(node, path):
    for p in path:
        node = node[p]
    return node


def shrink_case(impl, flavor, case, site):
    """item-level reduction keeping a violation of the same site"""
    budget = [500]

    def valid(node):
        """stay inside the generator's rules: no <%doc> directly after a ## line"""
        if isinstance(node, list):
            for a, b in zip(node, node[1:]):
                if isinstance(a, dict) and isinstance(b, dict) and a.get("t") == "cmt" and b.get("t") == "doc":
                    return False
            return all(valid(x) for x in node)
        if isinstance(node, dict):
            return all(valid(v) for v in node.values())
        return True

    def fails(c):
        if budget[0] <= 0 or not valid(c["tree"]):
            return False
        budget[0] -= 1
        try:
            bad, _ = oracle_case(impl, flavor, c)
        except Exception:
            return False
        return any(s == site for s, _ in bad)

    cur = json.loads(json.dumps(case))
    for simpler in ({"crlf": False}, {"enc_mode": "str"}):
        d = dict(cur)
        d.update(simpler)
        if fails(d):
            cur = d
    for _round in range(4):
        changed = False
        done = set()
        while budget[0] > 0:
            paths = [p for p in _lists(cur["tree"]) if p not in done]
            if not paths:
                break
            p = paths[0]
            done.add(p)
            items = _get(cur["tree"], p)

            def put(sub, p=p):
                c2 = json.loads(json.dumps(cur))
                lst = _get(c2["tree"], p)
                lst[:] = sub
                return c2
            small = ddmin(list(items), lambda sub: fails(put(sub)), 40)
            if len(small) < len(items) and fails(put(small)):
                cur = put(small)
                changed = True
                done = set()
        # hoist: replace a container by its body
        for p in list(_lists(cur["tree"])):
            if budget[0] <= 0:
                break
            try:
                items = _get(cur["tree"], p)
            except (KeyError, IndexError, TypeError):
                continue
            for i, it in enumerate(items):
                if isinstance(it, dict) and isinstance(it.get("body"), list) and it.get("t") in ("def", "block", "call", "nscall", "ctl", "nsdefs"):
                    c2 = json.loads(json.dumps(cur))
                    lst = _get(c2["tree"], p)
                    lst[i:i + 1] = it["body"]
                    if fails(c2):
                        cur = c2
                        changed = True
                        break
        if not changed:
            break
    return cur


def oracle(ctx, impl, cases):
    st_b = ctx.stream("oracle.babel", "oracle")
    st_l = ctx.stream("oracle.lingua", "oracle")
    reported = {}
    for ci, case in enumerate(cases):
        for flavor, st in (("babel", st_b), ("lingua", st_l)):
            st["cases"] += 1
            try:
                bad, text = oracle_case(impl, flavor, case)
            except Exception as e:
                ctx.broke("oracle:harness-exception", "%s: %r on %s" % (flavor, e, json.dumps(case)[:1500]))
                continue
            for site, detail in bad:
                ctx.branch("oracle:violation:%s:%s" % (flavor, site))
                k = (flavor, site)
                reported[k] = reported.get(k, 0) + 1
                if reported[k] > 1:
                    continue          # one minimised witness per (flavour, site) and run
                small = shrink_case(impl, flavor, case, site)
                bad2, text2 = oracle_case(impl, flavor, small)
                det = next((d for s, d in bad2 if s == site), detail)
                ctx.violation(site, {"input": text2, "flavor": flavor, "tags": small["tags"], "enc_mode": small["enc_mode"],
                                     "crlf": small["crlf"], "tree": small["tree"]}, det, "oracle." + flavor)
    ctx.log("oracle: %d templates x 2 flavours; violation sites: %s" % (len(cases), sorted({"%s:%s=%d" % (f, s, n) for (f, s), n in reported.items()})))


# --------------------------------------------------------------------------------------------- correspondence

PY_WS = [c for c in range(0x3100) if chr(c).isspace()]


def corr_strings(ctx, rng):
    drv = ctx.driver()
    st = ctx.stream("corr.strhelpers")
    special = sorted(set(PY_WS + [0x0a, 0x0d, 0x0b, 0x0c, 0x1c, 0x1d, 0x1e, 0x1f, 0x85, 0x2028, 0x2029, 0x200b, 0xfeff, 0x180e,
                                   0x61, 0x3a, 0x20]))
    strs = [""]
    for c in special:
        ch = chr(c)
        strs += [ch, ch + "a", "a" + ch, ch + "a" + ch + "b" + ch, "a" + ch + ch + "b", "\r\n" + ch + "x\r" + ch + "\n"]
    alphabet = [chr(c) for c in special] + list("ab:ps ")
    n = 3000 if ctx.quick else 40000
    for _ in range(n):
        strs.append("".join(rng.choice(alphabet) for _ in range(rng.randint(0, 8))))
    frag = ["try:", "else:", "except:", "except E as e:", "elif x:", "if x:", "for a in b:", "x", "x:", " elif y: ", "\n\nwhile 1:\n",
            "exceptional:", "elifx:", "try: ", "a[1:]", "else :", "finally:", "with a as b:", ":"]
    for f in frag:
        strs.append(f)
        strs.append("  " + f + "\n")
    reqs = []
    for s in strs:
        for op in ("strip", "blank", "splitlines", "splitws", "linguaprep"):
            reqs.append("extr %s %s" % (op, enc(s)))
    outs = drv.ask_many(reqs)
    i = 0

    def lst(xs):
        return "[]" if not xs else " ".join(enc(x) for x in xs)

    def lingua_prep(code):
        source = ("\n" + code).strip()
        if source.endswith(":"):
            if source in ("try:", "else:") or source.startswith("except"):
                source = ""
            elif source.startswith("elif"):
                source = source[2:]
            source += "pass"
        return source
    for s in strs:
        want = [enc(s.strip()), "1" if not s.strip() else "0", lst(s.splitlines()),
                lst(list(filter(None, re.split(r"\s+", s)))), enc(lingua_prep(s))]
        for j, op in enumerate(("strip", "blank", "splitlines", "splitws", "linguaprep")):
            st["cases"] += 1
            if outs[i] != want[j]:
                ctx.disagree("corr.strhelpers", {"op": op, "input": s}, outs[i], want[j])
            i += 1
    ctx.branch("corr:strhelpers:strings", len(strs))


def corr(ctx, impl, cases):
    drv = ctx.driver()
    st = {f: ctx.stream("corr." + f) for f in ("babel", "lingua")}
    sth = {f: ctx.stream("corr.handed." + f) for f in ("babel", "lingua")}
    work = []
    for case in cases:
        rd, text, data, options = render_case(case)
        encoding = options.get("input_encoding", options.get("encoding"))   # BabelMakoExtractor.__init__
        for flavor in ("babel", "lingua"):
            if flavor == "babel":
                tree = impl.tree(data, encoding)
                rec = []
                impl.last_finder_options = None
                real = canon_babel(impl.babel(data, case["tags"], options, rec))
                fopts = impl.last_finder_options
                cfg = None
            else:
                tree = impl.tree(text, "utf-8")
                cfg = ("  ".join(case["tags"]) + "\t") if case.get("cfg_ws") else " ".join(case["tags"])
                fopts = None
                real, rec = impl.lingua_recorded(text, cfg)
                real = canon_lingua(real)
            work.append({"case": case, "flavor": flavor, "tree": tree, "real": real, "rec": rec, "cfg": cfg,
                         "options": options, "fopts": fopts, "text": text, "ncalls": len(rd.calls)})
    # phase 1: which strings does the model hand to the finder?
    reqs, idx = [], []
    for i, w in enumerate(work):
        if isinstance(w["tree"], tuple):
            continue
        reqs.append("extr codes %s %s %s" % (w["flavor"], enc_cfg(w["flavor"], w["case"]["tags"], w["cfg"]), enc_tree(w["tree"])))
        idx.append(i)
    outs = drv.ask_many(reqs)
    for i, o in zip(idx, outs):
        work[i]["codes"] = dec_codes(o) if o and o[0].isdigit() else ("BAD", o)
    # phase 2: the finder's answers, then the model's message list
    reqs, idx = [], []
    for i, w in enumerate(work):
        f = w["flavor"]
        if isinstance(w["tree"], tuple):
            # the lexer rejects the template: the extractor must raise the same
            st[f]["cases"] += 1
            ctx.branch("corr:%s:lexer-raises" % f)
            if w["real"] != w["tree"]:
                ctx.disagree("corr." + f, {"input": w["text"], "flavor": f}, w["tree"], w["real"])
            continue
        if isinstance(w["codes"], tuple):
            st[f]["cases"] += 1
            ctx.disagree("corr." + f, {"input": w["text"], "flavor": f}, w["codes"], w["real"])
            continue
        # handed strings vs recorded arguments of the real finder
        sth[f]["cases"] += 1
        model_handed = [c for _, c in w["codes"]]
        if f == "babel":
            encoding = w["options"].get("input_encoding", w["options"].get("encoding")) or "ascii"
            model_cmp = [c.encode(encoding, "backslashreplace") for c in model_handed]
        else:
            model_cmp = model_handed
        if not (isinstance(w["real"], tuple)) and model_cmp != w["rec"]:
            ctx.disagree("corr.handed." + f, {"input": w["text"], "flavor": f}, [repr(x) for x in model_cmp][:40], [repr(x) for x in w["rec"]][:40])
        table, seen, exc = [], set(), None
        for c in model_handed:
            if c in seen:
                continue
            seen.add(c)
            hits = impl.babel_finder(c, w["case"]["tags"], w["options"], w["fopts"]) if f == "babel" else impl.lingua_finder(c)
            if isinstance(hits, tuple):
                exc = hits
                break
            table.append((c, hits))
        if exc is not None:
            st[f]["cases"] += 1
            ctx.branch("corr:%s:finder-raises" % f)
            if w["real"] != exc:
                ctx.disagree("corr." + f, {"input": w["text"], "flavor": f}, exc, w["real"])
            continue
        reqs.append("extr run %s %s %s %s" % (f, enc_cfg(f, w["case"]["tags"], w["cfg"]), enc_tree(w["tree"]), enc_finder(table)))
        idx.append(i)
    outs = drv.ask_many(reqs)
    for i, o in zip(idx, outs):
        w = work[i]
        f = w["flavor"]
        st[f]["cases"] += 1
        try:
            model = dec_msgs(o)
        except Exception:
            model = ("BAD", o)
        if model != w["real"]:
            ctx.disagree("corr." + f, {"input": w["text"], "flavor": f, "tags": w["case"]["tags"], "options": w["options"]},
                         model if isinstance(model, tuple) else model[:30], w["real"] if isinstance(w["real"], tuple) else w["real"][:30])
        n = 0 if isinstance(w["real"], tuple) else len(w["real"])
        ctx.branch("corr:%s:messages" % f, n)
        if w["ncalls"]:
            ctx.nontriv((f, w["text"]))
        with_c = 0 if isinstance(w["real"], tuple) else sum(1 for m in w["real"] if any(m[3]))
        ctx.branch("corr:%s:messages-with-comments" % f, with_c)

        def kinds(nodes):
            for n_ in nodes:
                ctx.branch("corr:node:" + n_[0])
                kinds(n_[6])
        if f == "babel":
            kinds(w["tree"])
            ctx.branch("corr:enc:" + w["case"]["enc_mode"])
            ctx.branch("corr:newline:" + ("crlf" if w["case"]["crlf"] else "lf"))
    if work:
        w = next((w for w in work if not isinstance(w["real"], tuple) and len(w["real"]) >= 2), work[0])
        ctx.sample({"stream": "corr." + w["flavor"], "input": w["text"][:600], "model=impl": w["real"][:4] if not isinstance(w["real"], tuple) else w["real"]})


FIXED_TEMPLATES = [
    "${_('a')}",
    "x\n${x | f(_('m'))}",
    "<%def\n name=\"f(a=_('a'))\">\n${_('b')}\n</%def>",
    "## TR: a\n${foo()}\n## TR: b\n${_('m')}",
    "## TR: a\nfoo\n## b\n${_('m')}",
    "## TR: a\n\n\n## TR: b\n${_('m')}",
    "## TR: a\x0cb\n\n${_('m')}",
    "<%namespace name=\"ns\">\n<%def name=\"f()\">${_('m')}</%def>\n</%namespace>",
    "<%doc>TR: foo</%doc>${_('a')}",
    "## TR: x\n<%doc>\na\nb\n</%doc>\n${_('a')}",
    "<%\n  # TR: py\n  a = _('x')\n\n  if a:\n      b = _('y')\n%>",
    "<%self:foo a=\"${_('a')}\"\n   b=\"${_('b')}\">\n${_('c')}\n</%self:foo>",
    "% if a and \\\n  _('m'):\nx\n% elif _('n'):\n% else:\n% endif",
    "% try:\n${_('t')}\n% except Exception as e:\n${_('u')}\n% endtry",
    "<%page args=\"a=_('m')\"/>\n<%block name=\"b\" args=\"x=_('n')\">\n</%block>",
    "## TR: x\n   \n## more\n  ${_('m')} ${_('n')}",
    "## TR: x\n% if x:\n${_('m')}\n% endif\n## TR: y\n% endfor",
    "<%text>\n${_('d')}\n</%text>${_('m')}",
    "## TR: x\n<%include file=\"a\"/>${_('m')}",
    "## TR: x\n<% a = 1 %>${_('m')}",
]


def corr_fixed(ctx, impl):
    """hand-written corner cases (incl. the gettext.mako fixture of mako's own suite) through the same comparison"""
    import os
    from harness.common import REPO
    cases = []
    srcs = list(FIXED_TEMPLATES)
    p = os.path.join(REPO, "test", "templates", "gettext.mako")
    if os.path.exists(p):
        srcs.append(open(p, encoding="utf-8").read())
    for s in srcs:
        for tags in (["TR:"], ["TRANSLATOR:"], ["TR", "TR:"]):
            cases.append({"tree": [{"t": "text", "lines": [s]}], "tags": tags, "enc_mode": "str", "crlf": False, "raw": s})
    return cases


def _c(key, fn="_"):
    return {"key": key, "fn": fn, "msgs": [key]}


def _x(src, calls, filt=None, lead=""):
    return {"t": "exprline", "ind": "", "parts": [{"expr": {"body": {"src": src, "calls": calls}, "lead": lead, "trail": "", "filter": filt}}]}


def _cm(text):
    return {"t": "cmt", "ind": "", "sp": " ", "text": text}


def _code(src, keys, module=False):
    return {"t": "code", "module": module, "src": src, "calls": [k if isinstance(k, dict) else _c(k) for k in keys], "tail": "", "ind": ""}


def linebreak_like_witnesses():
    """<% %> / <%! %> blocks holding a character str.splitlines() breaks at - a form-feed page break between
    statements, or any of VT FF FS GS RS NEL LS PS inside a Python comment / a string literal.  A template line ends
    at a line feed only, so every call below such a character is still written on (and must be reported at) the line
    counted in line feeds; the expected lines come from the position of the unique literal in the rendered source."""
    def case(tree):
        return {"tree": tree, "tags": ["TR:"], "enc_mode": "str", "crlf": False}
    out = [
        # page breaks: indented inside <%! %>, at column 0 followed by a comment inside <% %>
        case([_code("\n    k = 1\n    \x0c\n    t = _('m20 w')\n", ["m20 w"], True),
              _x("_('m21 w')", [_c("m21 w")]),
              _code("\n    a = _('m22 w')\n\x0c\n    # python comment\n\n    b = _('m23 w')\n    c = _('m24 w')\n",
                    ["m22 w", "m23 w", "m24 w"]),
              _x("_('m25 w')", [_c("m25 w")])]),
        dict(case([_code("\n  a = _('m26 w')\n  \x0c\n  b = gettext('m27 w')\n", ["m26 w", _c("m27 w", "gettext")])]), crlf=True),
    ]
    for i, ch in enumerate(EXOTIC):
        a, b, c = "m%d w" % (30 + 3 * i), "m%d w" % (31 + 3 * i), "m%d w" % (32 + 3 * i)
        # inside a Python comment, between two calls (an empty line keeps the comment from being taken as the
        # call's own comment by Lingua's Python finder)
        out.append(case([_code("\n  a = _('%s')\n  # sec%spart\n\n  b = _('%s')\n" % (a, ch, b), [a, b], i % 2 == 1),
                         _x("_('%s')" % c, [_c(c)])]))
        # inside a string literal
        out.append(case([_code("\n  s = 'x%sy'\n  b = _('%s')\n" % (ch, a), [a], i % 2 == 0)]))
    return out


def witness_cases():
    """the recorded witnesses of known_findings.json as item trees: replayed by the oracle on every run"""
    def case(tree, tags=("TR:",)):
        return {"tree": tree, "tags": list(tags), "enc_mode": "str", "crlf": False}
    return [
        # F10
        case([_x("x", [], {"src": "f(_('m1 w'))", "calls": [_c("m1 w")], "nl": False})]),
        # F7
        case([{"t": "def", "sig": "f(a=_('m2 w'))", "calls": [_c("m2 w")], "extra": [], "layout": "late", "extra_first": False,
               "body": [], "inline": False, "ind": ""}]),
        # repaired (79d0bc8): defs written inside <%namespace>
        case([{"t": "nsdefs", "name": "ns", "body": [{"t": "def", "sig": "f()", "calls": [], "extra": [], "layout": "flat",
               "extra_first": False, "body": [_x("_('m3 w')", [_c("m3 w")])], "inline": True, "ind": ""}]}]),
        # F-C20-2 / F-C20-3
        case([{"t": "text", "lines": ["x"]}, {"t": "code", "module": False, "src": "\n\n\n  _('m4 w')\n", "calls": [_c("m4 w")], "tail": "", "ind": ""},
              _x("_('m5 w')", [_c("m5 w")])]),
        # F-C20-4
        case([_cm("TR: a"), _x("foo()", []), _cm("TR: b"), _x("_('m6 w')", [_c("m6 w")])]),
        # F-C20-5
        case([_cm("TR: a"), {"t": "text", "lines": ["foo"]}, _cm("b"), _x("_('m7 w')", [_c("m7 w")])]),
        # F-C20-6
        case([_cm("TR: x"), _x("_('m8 w')", [_c("m8 w")])], ("TR", "TR:")),
        # F-C20-7
        case([_cm("TR: a\x0cb"), {"t": "blank", "n": 1, "ws": False}, _x("_('m9 w')", [_c("m9 w")])]),
        # whitespace-only lines / blanks between the opening delimiter and the first code line (both flavours must
        # still report the line the call is written on)
        case([{"t": "code", "module": False, "src": " \n\t\n  _('m14 w')\n", "calls": [_c("m14 w")], "tail": "", "ind": ""},
              _x("_('m15 w')", [_c("m15 w")], None, " \n  "),
              {"t": "call", "expr": {"src": "\t\n \n  comp(_('m16 w'))", "calls": [_c("m16 w")]}, "args": None, "layout": "flat",
               "body": [], "ind": ""}]),
        # F-C20-9: body of a <%page> tag
        case([{"t": "bodytag", "open": '<%page cached="False">', "body": [_x("_('m13 w')", [_c("m13 w")])]}]),
        # repaired (must stay repaired): filter list on the line after the '|' (ca5ce72)
        case([_x("_('m10 w')", [_c("m10 w")], {"src": "f(_('m11 w'))", "calls": [_c("m11 w")], "nl": True})]),
        # repaired: codec configured as input_encoding only (0b42cfd)
        dict(case([_x("_('m12 K\u00f6ln')", [_c("m12 K\u00f6ln")])]), enc_mode="inopt:latin-1"),
    ] + linebreak_like_witnesses()


def run(ctx):
    impl = Impl()
    rng = ctx.rng
    n_or = 1500 if ctx.quick else 20000
    n_wild = 800 if ctx.quick else 10000
    size = 7
    oracle_cases = witness_cases() + [make_case(rng, False, size) for _ in range(n_or)]
    wild_cases = [make_case(rng, True, size) for _ in range(n_wild)]
    try:
        corr_strings(ctx, rng)
        fixed = corr_fixed(ctx, impl)
        corr(ctx, impl, fixed + oracle_cases + wild_cases)
    finally:
        oracle(ctx, impl, oracle_cases)
    # distribution of what was planted
    for case in oracle_cases[:2000]:
        rd = Render(case["tree"], case["tags"])
        for m in rd.calls.values():
            ctx.branch("planted:" + m["kind"] + (":late" if m["late"] else "") + ((":" + m["hidden"]) if m["hidden"] else ""))
        for c in rd.comments:
            ctx.branch("planted:##-line")


def replay(ctx, data):
    """re-run the recorded case: the oracle on the implementation (holds iff the recorded site is no longer
    violated; other - recorded - findings are only listed) and the model/implementation comparison"""
    case = data.get("case") or (data.get("first_disagreements") or [{}])[0].get("case")
    impl = Impl()
    site = data.get("site")
    ok = True
    if isinstance(case, dict) and "tree" in case:
        flavor = case.get("flavor", "babel")
        bad, text = oracle_case(impl, flavor, case)
        print("template:\n" + text)
        rd, text, truth, info, res = run_flavor_real(impl, flavor, case)
        print("ground truth:", [(k, t["line"], t["fn"], t["comments"]) for k, t in truth.items()])
        print("%s reports :" % flavor, res)
        for s, d in bad:
            print("VIOLATES" if site in (None, s) else "(also)", s, "-", d)
        ok = not any(site in (None, s) for s, _ in bad)
        c = {"tree": [], "tags": case["tags"], "enc_mode": "str", "crlf": False, "raw": text}
    elif isinstance(case, dict) and "input" in case and isinstance(case["input"], str):
        c = {"tree": [], "tags": case.get("tags", ["TR:"]), "enc_mode": "str", "crlf": False, "raw": case["input"]}
        ok = False
    else:
        return False
    try:
        corr(ctx, impl, [c])
        for d in ctx.disagreements:
            print("MODEL != IMPLEMENTATION:", json.dumps(d, ensure_ascii=False)[:1500])
        if not ctx.disagreements:
            print("model = implementation on this template (both flavours)")
            if "tree" not in case:
                ok = True
    except Exception as e:
        print("model comparison not available:", e)
    return ok


DRIVER_OPS = ["extr"]   # per-area driver executable(s) this check talks to (built before any worker is forked)
