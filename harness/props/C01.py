"""C01 - literal text and the documented escapes are reproduced exactly; lexing terminates.

corr   : the Lean lexer model (MakoModel/Lexer/Model.lean, driver op `lex`) against the real
         `mako.lexer.Lexer`:
           * per-matcher streams - every `match_*` method, `parse_until_text`, the string-literal regex and the
             magic-comment regex on exhaustive enumerations over an alphabet chosen for that regex, with the
             cursor at offset 0, after a newline, mid-line and after text+newline (sizes grow to the thorough ones
             in the quick tier too when the regex literals of mako/lexer.py changed - fingerprint);
           * the Unicode classes `\\w`, `\\s`, `str.isspace` on every scalar value;
           * whole-lexer streams: (a) every concatenation of <= k tokens of a 26-token alphabet,
             (b) randomly generated long documents with ground truth - also with the preprocessors handed to the
             real lexer and the model lexing the preprocessed text -, (c) malformed documents / token soup.
         Compared: the node list (class, lineno, pos, tag depth, payload) or exception class + (lineno, pos) +
         kind; when a node *constructor* raises (Python syntax, tag validation - outside the model) the nodes
         created so far must be a prefix of the model's ("prefix agreement").
oracle : no Lean involved.
         (A) tiling: spans reconstructed from the (lineno, pos) of consecutive nodes of the real parse tree must
             tile the source - every node's own raw text is at its reported position and the rest of its span is
             only closing tags / backslash-newlines;
         (B) rendering: `Template(s).render_unicode()` equals the input for inert strings, the generator's ground
             truth for documents and the documented output for the canonical one-directive documents;
         (B') construction paths: the same along string+coding line / bytes / file / file+module_directory /
             reused module file in utf-8, latin-1, cp1251, koi8-r;
         (B") preprocessors: `Lexer(src, preprocessor=p)`, `Template(src, preprocessor=p)` and a file-based
             `TemplateLookup(preprocessor=p)` equal lexing / rendering `p(src)`;
         (C) exceptions escaping `Lexer.parse` must be Mako exceptions - on every stream, and on a dedicated stream
             of Python-bearing constructs whose code CPython's parser rejects with each exception class it can raise
             (lone surrogates, NUL bytes, overlong integers, very deep nesting);
         (D) timing *test* of `Lexer(s).parse()` on adversarial repetition families (CPU time of a child process,
             per-point budget);
         every call into mako runs under a limit of CPU time of the calling process (wall-clock backup at 8 x), so
         a regex gone exponential is reported (site `lexer-does-not-finish`) instead of hanging the check, while a
         frozen or starved process does not produce a false report; timer signals outside a timed call are
         ignored; the worker pool survives a dead worker (one restart, then `worker-died` + `streams-cut-short`).
"""
from __future__ import annotations

import itertools
import warnings
import multiprocessing
import os
import re
import select
import subprocess
import sys
import time

from harness import common
from harness.common import enc, dec, shrink_str, VERIF, LeanError
from harness import lexmodel as LM


Driver = common.Driver      # routes `lex …` requests to the per-area executable (private copy, built before forking)

CASE_BUDGET = 5.0           # seconds of CPU time (wall backup: 8 x) one call into mako may take inside a stream
SLOW_ABORT = 40             # after this many expired calls (all workers together) no further call into mako is made
RUN_BUDGET = {"quick": 8 * 60.0, "thorough": 45 * 60.0}   # wall seconds for the streams of one run

# shared between the main process and the forked workers
SLOW = multiprocessing.Value("i", 0)          # number of calls that ran into the limit so far
DEADLINE = multiprocessing.Value("d", 0.0)    # wall-clock end of the stream budget (0 = none)


class CaseTimeout(BaseException):
    """raised by the timer signal; a BaseException so that no `except Exception` in mako or in an oracle swallows it"""


_IN_TIMED = [False]         # the handler raises only while this says that a timed call is running ...
_LIMITS = [0.0, 0.0]        # ... and only once its CPU or wall deadline has really passed (process_time, time)


def _alarm(signum, frame):
    """SIGPROF / SIGALRM handler, installed once per process and never removed.  A signal that arrives outside a
    timed call (between two tasks, after the call returned, sent by somebody else) or before the deadline is ignored."""
    if _IN_TIMED[0] and (time.process_time() >= _LIMITS[0] or time.time() >= _LIMITS[1]):
        raise CaseTimeout()


def _install_handler():
    import signal
    if signal.getsignal(signal.SIGPROF) is not _alarm:
        signal.signal(signal.SIGPROF, _alarm)
    if signal.getsignal(signal.SIGALRM) is not _alarm:
        signal.signal(signal.SIGALRM, _alarm)


def aborted():
    """no further call into mako: too many calls ran into the limit already, or the run's budget is used up"""
    return SLOW.value >= SLOW_ABORT or (DEADLINE.value and time.time() > DEADLINE.value)


def timed(fn, *args, budget=None):
    """EVERY call into mako made by this check goes through here: run fn(*args) under a limit of `budget` seconds
    of CPU time of this process (ITIMER_PROF: a regex gone exponential burns CPU; a frozen or starved process does
    not run into it) with a wall-clock backup of 8 x budget (ITIMER_REAL), both re-armed every 0.5 s in case
    something swallowed the exception.  -> (result, None), (None, 'timeout') when the limit expired, or
    (None, 'skipped') when the run has been aborted (see `aborted`).  The timers are cancelled before the
    "inside" flag is cleared; the handler stays installed and ignores anything that arrives outside."""
    import signal
    if aborted():
        return None, "skipped"
    _install_handler()
    budget = budget or CASE_BUDGET
    was_inside = _IN_TIMED[0]
    try:
        try:
            _LIMITS[0] = time.process_time() + budget
            _LIMITS[1] = time.time() + 8 * budget
            _IN_TIMED[0] = True
            signal.setitimer(signal.ITIMER_PROF, budget, 0.5)
            signal.setitimer(signal.ITIMER_REAL, 8 * budget, 0.5)
            return fn(*args), None
        finally:
            signal.setitimer(signal.ITIMER_PROF, 0)
            signal.setitimer(signal.ITIMER_REAL, 0)
            _IN_TIMED[0] = was_inside
    except CaseTimeout:
        _IN_TIMED[0] = was_inside
        with SLOW.get_lock():
            SLOW.value += 1
        return None, "timeout"


def timeout_site(s):
    """name the site of an input on which Lexer.parse did not finish within CASE_BUDGET"""
    if re.search(r"<%[\w.:]+(?:\s*[=,]\s*){18,}", s):
        return "tag-regex-exponential"
    return "lexer-does-not-finish"


REGEN = ["Unicode", "LexerCfg"]

RULE = ("(a) all concatenations of <=k tokens from {<% %> </% ${ } % %% ## \\ LF CRLF CR \" ' | > / <%text> </%text> "
        "<%doc> </%doc> <%def name=\"f()\"> </%def> space a e-acute} (quick k=3 + a 1/8 sample of k=4; thorough k<=5 "
        "exhaustive); per-matcher exhaustive enumerations over regex-specific alphabets at 4 cursor contexts (offset 0, "
        "after LF, mid-line, after text+LF); @NCANON@ canonical one-directive documents; "
        "(b) randomly generated documents (PRNG from the run's seed) of 8-60 segments interleaving Unicode text runs (incl. stray % # $ < \\ { } |, CR, LF, "
        "CRLF, NBSP, U+2028, astral) with well-formed directives (expression, control lines, ## comment, %% escape, "
        "backslash-newline, <%doc>, <%text>, <% %>, <%! %>, def+call) at line start / mid-line / after a "
        "continuation / at EOF / after CRLF, each with its ground-truth output; (c) token-level mutations of such "
        "documents and random token soup; hostile Python: 8 Python-bearing constructs (expression, filter list, control "
        "line, <% %>, <%! %>, def signature, attribute expression, call expr) x code CPython's parser rejects with "
        "every class it raises here (lone surrogates, NUL bytes, overlong int literal, 9 kinds of nesting at 10 depths "
        "from 60 to 60000 - the classes met are recorded in the branch histogram) through Lexer.parse and Template; "
        "preprocessors: 10 configurations (identity, lengthening: banner / tail / "
        "tab expansion / #if rewriting, shortening, lists of several) - Lexer(src, preprocessor=p), Template(src, "
        "preprocessor=p) and a file-based TemplateLookup(preprocessor=p) with and without module_directory must equal "
        "lexing / rendering p(src): every canonical document x every configuration x every route, every generated "
        "document with one configuration, every enumeration string (k<=4) at the Lexer level; construction paths: every canonical document x {utf-8, latin-1, cp1251, "
        "koi8-r} x {string+coding line, bytes, file, file+module_directory, reused module file}, every generated "
        "document and every inert non-ASCII enumeration string along all five paths in one encoding (characters the "
        "codec lacks are substituted in source and documented output alike); timing test: 27 hand-written + 234 grid families (unterminated opener x "
        "repeated filler), n = 16..1024 (quick) / 32768 (thorough). A case is non-trivial when it contains at least "
        "one directive opener or escape; distinct = distinct strings.")
ASSUMPTIONS = [
    "a line ends at LF only (a lone CR is ordinary text), blanks are space and tab - as everywhere in mako's lexer",
    "the magic encoding comment on the first line (`# -*- coding: x -*-`) is a directive: it is consumed by parse()",
    "the newline after </%doc> and after a closing tag is ordinary text",
    "Python-syntax checks and tag-class validation done by node constructors are outside the lexer model; "
    "on such errors only prefix agreement is required",
    "the hostile-Python stream runs with sys.setrecursionlimit(1000) (CPython's default, restored afterwards): which "
    "nesting depths the parser and the identifier visitors refuse depends on the interpreter's recursion limit and on "
    "the CPython version (the exception classes met are recorded in the branch histogram)",
    "lone surrogates are not generated for the correspondence streams (Lean's Char has none); the hostile-Python "
    "oracle stream writes them into templates, as code and as text",
    "a file that starts with U+FEFF starts with the UTF-8 byte order mark, which reading a template file strips "
    "(the file routes of the preprocessor oracle take their reference from the text without it)",
    "preprocessor and construction-path oracles are differential (the same source through two routes of the "
    "implementation); exceptions are compared by class, (lineno, pos) and message without the file name",
]
TRUSTED_EXTRA = [
    "C01: every regex of mako/lexer.py is transcribed by hand into a deterministic scanner (Lexer/Model.lean); "
    "agreement with CPython's `re` is checked by the per-matcher streams, not proved",
    "C01: the running time of CPython's backtracking regex engine is measured (timing test), not modelled",
    "C01: Unicode class tables are probed from the running interpreter (tools/regen_unicode.py)",
    "C01: tools/regen_lexercfg.py recognises source shapes with Python's ast: the matcher cascade of Lexer.parse, the "
    "two F1-repair shapes (second append_node in match_text, assignment to match_position in match_tag_start), the "
    "position of `self.textlength = len(self.text)` relative to the preprocessor loop, the width of the handler in "
    "pyparser.parse, the routing of the three identifier visitors of mako/ast.py through pyparser.visit, and the "
    "is_primary / is_ternary tables; a shape it misreads yields a wrong Boolean or table, which the correspondence "
    "and oracle streams (not the obligations) would have to expose",
]

# sha1 over the regex literals of mako/lexer.py the model was written against (Generated/LexerCfg.lean holds the
# current one).  A different fingerprint never changes a verdict: it only makes the quick tier run the per-matcher
# enumerations at their thorough sizes (change-directed effort).
MODELLED_FINGERPRINT = "e975eaf2f0f51b4994fc46e9adb835dfa83c95a0"


def current_fingerprint():
    try:
        txt = open(os.path.join(VERIF, "lean", "MakoModel", "Generated", "LexerCfg.lean"), encoding="utf-8").read()
        m = re.search(r'def regexFingerprint : String := "([0-9a-f]+)"', txt)
        return m.group(1) if m else None
    except OSError:
        return None


NPROC = min(16, os.cpu_count() or 1)
warnings.filterwarnings("ignore", category=SyntaxWarning)

ALPHA = ["<%", "%>", "</%", "${", "}", "%", "%%", "##", "\\", "\n", "\r\n", "\r", '"', "'", "|", ">", "/",
         "<%text>", "</%text>", "<%doc>", "</%doc>", '<%def name="f()">', "</%def>", " ", "a", "\u00e9"]

# --------------------------------------------------------------------------------------------------
# direct oracles on the implementation (no Lean)

F_RE = re.compile(r"(?:</%[\t ]*[^\t ]+?[\t ]*>|\\\r?\n)*")
F_ONE = re.compile(r"</%[\t ]*[^\t ]+?[\t ]*>|\\\r?\n")
CODING_RE = re.compile(r"#.*coding[:=]\s*([-\w.]+).*\r?\n")
ATTR_RE = re.compile(r"""(\w+)\s*=\s*(?:'([^']*)'|"([^"]*)")""")


def flatten(nodes, out=None):
    if out is None:
        out = []
    for n in nodes:
        out.append(n)
        if n.__class__.__name__.endswith("Tag"):
            flatten(n.nodes, out)
    return out


def own_raw_ends(s, off, span, n):
    """candidate lengths of the node's own raw text at the start of `span` (independent reading of the syntax)"""
    from mako.pygen import adjust_whitespace
    cls = n.__class__.__name__
    bol = off == 0 or s[off - 1] == "\n"
    ends = []
    if cls == "Text":
        c = n.content
        if span.startswith(c):
            ends.append(len(c))
        m = re.match(r"(?s)(.*?)([ \t]*)%(%*)\Z", c)
        if m and bol and (m.group(1) == "" or m.group(1).endswith("\n")):
            raw = m.group(1) + m.group(2) + "%%" + m.group(3)
            if span.startswith(raw):
                ends.append(len(raw))
    elif cls == "Expression":
        if span.startswith("${"):
            i = 2
            ok = True
            for ch in n.text:
                if ch == "\n" and span[i:i + 2] == "\r\n":
                    i += 2
                elif i < len(span) and span[i] == ch:
                    i += 1
                else:
                    ok = False
                    break
            if ok:
                if span[i:i + 1] == "}" and n.escapes == "":
                    ends.append(i + 1)
                if span[i:i + 1] == "|":
                    for j in range(i + 1, len(span)):
                        if span[j] == "}" and span[i + 1:j].strip() == n.escapes:
                            ends.append(j + 1)
    elif cls == "Code":
        pre = "<%!" if n.ismodule else "<%"
        if span.startswith(pre) and (n.ismodule or span[2:3] != "!"):
            k = len(pre)
            j = span.find("%>", k)
            while j >= 0:
                try:
                    if adjust_whitespace(span[k:j]) + "\n" == n.text:
                        ends.append(j + 2)
                except Exception:
                    pass
                j = span.find("%>", j + 1)
    elif cls == "ControlLine":
        m = re.match(r"[\t ]*%[\t ]*", span)
        if m and bol and span.startswith(n.text, m.end()) and n.text.startswith(("end" if n.isend else "") + n.keyword):
            e = m.end() + len(n.text)
            t = re.match(r"\r?\n", span[e:])
            if t:
                ends.append(e + t.end())
            elif off + e == len(s):
                ends.append(e)
    elif cls == "Comment":
        if span.startswith("<%doc>" + n.text + "</%doc>"):
            ends.append(len(n.text) + 13)
        m = re.match(r"[\t ]*##[\t ]*", span)
        if m and bol and span.startswith(n.text, m.end()):
            e = m.end() + len(n.text)
            t = re.match(r"\r?\n", span[e:])
            if t:
                ends.append(e + t.end())
            elif off + e == len(s):
                ends.append(e)
    elif cls.endswith("Tag"):
        head = "<%" + n.keyword
        if span.startswith(head):
            j = span.find(">", len(head))
            while j >= 0:
                body = span[len(head):j]
                d = {}
                for k_, v1, v2 in ATTR_RE.findall(body):
                    d[k_] = (v1 or v2).replace("\r\n", "\n")
                if d == dict(n.attributes):
                    ends.append(j + 1)
                j = span.find(">", j + 1)
    return ends


def bol_at(s, off):
    return off == 0 or s[off - 1] == "\n"


def classify_gap(s, g, left):
    """name the site of unaccounted source text `left` starting at offset g: every character of it must be one
    that match_text's empty match steps over (the `<` of a `</%`, or the first character of a `%`/`##` line)"""
    if not left:
        return "source-text-unaccounted"
    for i in range(len(left)):
        o = g + i
        if s.startswith("</%", o):
            continue
        if (o == 0 or s[o - 1] == "\n" or (i > 0 and s[g - 1:g] in ("", "\n") and left[:i].strip(" \t") == "")) \
                and re.match(r"[ \t]*(%|##)", s[o:]):
            continue
        return "source-text-unaccounted"
    return "empty-match-skips-char"


def tiling_oracle(s, tree):
    """(A)  returns [] or a list of (site, detail).  `tree` is the real TemplateNode."""
    nodes = flatten(tree.nodes)
    starts = [0] + [i + 1 for i, c in enumerate(s) if c == "\n"]
    offs = []
    for n in nodes:
        if not (1 <= n.lineno <= len(starts)) or n.pos < 1:
            return [("position-out-of-range", "%s at (%s,%s)" % (n.__class__.__name__, n.lineno, n.pos))]
        o = starts[n.lineno - 1] + n.pos - 1
        if o > len(s):
            return [("position-out-of-range", "%s at (%s,%s)" % (n.__class__.__name__, n.lineno, n.pos))]
        offs.append(o)
    for a, b in zip(offs, offs[1:]):
        if a > b:
            return [("positions-not-in-source-order", "offsets %d > %d" % (a, b))]
    bad = []
    first = offs[0] if offs else len(s)
    pre = s[:first]
    m = CODING_RE.match(pre)
    k = m.end() if m else 0
    fm = F_RE.match(pre, k)
    if fm.end() != len(pre):
        g = fm.end()
        bad.append((classify_gap(s, g, pre[g:]), "before the first node: %r" % pre[g:g + 20]))
    for i, n in enumerate(nodes):
        off = offs[i]
        end = offs[i + 1] if i + 1 < len(offs) else len(s)
        span = s[off:end]
        ends = own_raw_ends(s, off, span, n)
        if not ends:
            cls = n.__class__.__name__
            site = "node-not-at-reported-position"
            if cls == "Text" and bol_at(s, off) and re.match(r"(?s)\s*%+\Z", n.content) and span.startswith(n.content):
                site = "percent-escape-after-nonblank-whitespace"
            bad.append((site, "%s at (%s,%s): span %r" % (cls, n.lineno, n.pos, span[:40])))
            continue
        best = None
        for e in ends:
            fm = F_RE.match(span, e)
            if fm.end() == len(span):
                best = None
                break
            if best is None or fm.end() > best:
                best = fm.end()
        else:
            g = off + best
            left = span[best:]
            # skip further closers after the unaccounted character to measure what is really missing
            core = left
            for cut in range(1, len(left) + 1):
                if F_RE.match(left, cut).end() == len(left):
                    core = left[:cut]
                    break
            site = classify_gap(s, g, core)
            if (site == "source-text-unaccounted" and n.__class__.__name__ == "Text" and bol_at(s, off)
                    and re.match(r"(?s)\s*%+\Z", n.content) and core[:1] == "%"
                    and (core == "%" or classify_gap(s, g + 1, core[1:]) == "empty-match-skips-char")):
                site = "percent-escape-after-nonblank-whitespace"
            bad.append((site, "after %s at (%s,%s): %r is in no node" % (n.__class__.__name__, n.lineno, n.pos, core[:20])))
    return bad


def inert(s):
    """no directive and no escape, by the documented syntax (strict reading: blanks are space/tab, lines end at LF)"""
    if "${" in s or "<%" in s:
        return False
    i = s.find("</%")
    if i >= 0 and ">" in s[i:]:
        return False
    if re.search(r"\\\r?\n", s):
        return False
    for line in s.split("\n"):
        if re.match(r"[ \t]*(%|##)", line):
            return False
    if re.match(r"#.*coding[:=]", s):
        return False
    return True


def render(s, **ctx):
    from mako.template import Template
    return Template(s).render_unicode(**ctx)


# ---- construction paths: the same source must give the same literal text however the Template is built
ENCODINGS = ["utf-8", "latin-1", "cp1251", "koi8-r"]
REPL = {"utf-8": "", "latin-1": "\u00e9\u00fc\u00df\u00d8", "cp1251": "\u0436\u042f\u0451\u0491", "koi8-r": "\u0436\u042f\u0451\u2557"}
PATHS = ["string+coding-line", "bytes", "file", "file+module_directory", "reused-module-file"]
_serial = [0]


def transcode(text, enc):
    """replace every character the codec cannot encode by a non-ASCII letter it can (same map for source and
    documented output, so the documented output stays the documented output)"""
    try:
        text.encode(enc)
        return text
    except UnicodeEncodeError:
        pass
    rep = REPL[enc]
    out = []
    for ch in text:
        try:
            ch.encode(enc)
            out.append(ch)
        except UnicodeEncodeError:
            out.append(rep[ord(ch) % len(rep)])
    return "".join(out)


def path_renderer(path, enc, tmp):
    """-> render(src, **ctx) building the Template along `path`, the source preceded by the magic encoding comment
    (which the lexer skips) and, for the byte/file paths, encoded with `enc`"""
    from mako.template import Template

    def r(src, **ctx):
        coded = "# -*- coding: %s -*-\n" % enc + src
        if path == "string+coding-line":
            return Template(coded).render_unicode(**ctx)
        data = coded.encode(enc)
        if path == "bytes":
            return Template(data).render_unicode(**ctx)
        _serial[0] += 1
        fn = os.path.join(tmp, "t%d_%d.txt" % (os.getpid(), _serial[0]))
        with open(fn, "wb") as f:
            f.write(data)
        if path == "file":
            return Template(filename=fn).render_unicode(**ctx)
        md = os.path.join(tmp, "mods")
        t1 = Template(filename=fn, module_directory=md)
        out1 = t1.render_unicode(**ctx)
        if path == "file+module_directory":
            sys.modules.pop(t1.module.__name__, None)
            return out1
        name = t1.module.__name__
        sys.modules.pop(name, None)
        del t1
        t2 = Template(filename=fn, module_directory=md)      # loads the module file written above
        try:
            return t2.render_unicode(**ctx)
        finally:
            sys.modules.pop(name, None)
    return r


def paths_oracle(oracle, src, want, tmp, enc):
    """run `oracle(src, want, renderer)` along every construction path with encoding `enc`;
    -> list of (site, detail, path)"""
    bad = []
    src2, want2 = transcode(src, enc), transcode(want, enc)
    for path in PATHS:
        r, to = timed(oracle, src2, want2, path_renderer(path, enc, tmp))
        if to == "skipped":
            break
        if to:
            r = ("lexer-does-not-finish", "did not finish within %.0f s" % CASE_BUDGET)
        if r:
            site = r[0]
            if site in ("render-differs", "document-output-differs", "inert-input-rejected", "well-formed-document-rejected",
                        "well-formed-document-crashed"):
                site = "literal-text-differs-by-construction-path"
            bad.append((site, "%s [path %s, encoding %s]" % (r[1], path, enc), path, src2))
    return bad


# ---- preprocessors: Template(src, preprocessor=p) must be Template(p(src))
def pp_identity(t):
    return t


def pp_banner(t):
    return "banner \u00e9\n" + t


def pp_tail(t):
    return t + "\ntail \u00e9 text"


def pp_tabs(t):
    return t.replace("\t", "        ").replace(" ", "  ")


def pp_hash_if(t):
    return re.sub(r"(?m)^#(if|endif)\b", r"% \1", t) + "\n#if True:\nyes\n#endif\n" if False else \
        re.sub(r"(?m)^#(if|endif)\b", r"% \1", t + "\n#if True:\nyes\n#endif\n")


def pp_shorten(t):
    return t.replace("b", "").replace("  ", " ")


def pp_halve(t):
    return t[: (len(t) + 1) // 2]


PREPROCESSORS = [
    ("identity", [pp_identity]), ("banner", [pp_banner]), ("tail", [pp_tail]), ("tabs", [pp_tabs]),
    ("hash-if", [pp_hash_if]), ("shorten", [pp_shorten]), ("halve", [pp_halve]),
    ("banner+tail", [pp_banner, pp_tail]), ("shorten+tail", [pp_shorten, pp_tail]), ("tail+halve+tail", [pp_tail, pp_halve, pp_tail]),
]


def apply_pps(ps, t):
    for p_ in ps:
        t = p_(t)
    return t


def _outcome(fn):
    """value or a description of the Mako exception raised (class, line, column, message)"""
    from mako import exceptions
    try:
        return ("ok", fn())
    except exceptions.MakoException as e:
        return ("raised", type(e).__name__, getattr(e, "lineno", None), getattr(e, "pos", None),
                re.sub(r" in file '[^']*'", "", str(e))[:160])
    except Exception as e:
        return ("raised-raw", type(e).__name__)      # (the message names the module / a memory address)


def preprocessor_oracle(src, name, ps, tmp=None, lexer_only=False):
    """`Lexer(src, preprocessor=ps).parse()` / `Template(src, preprocessor=ps)` / a file-based
    `TemplateLookup(preprocessor=ps)` against lexing / rendering `p(src)` directly.  -> [(site, detail, route)]"""
    from mako.lexer import Lexer
    from mako.template import Template
    from mako.lookup import TemplateLookup
    bad = []
    want_src = apply_pps(ps, src)
    a = _outcome(lambda: repr(Lexer(src, preprocessor=list(ps)).parse()))
    b_ = _outcome(lambda: repr(Lexer(want_src).parse()))
    if a != b_:
        bad.append(("preprocessed-text-lexed-differently", "Lexer(src, preprocessor=%s): %s ; Lexer(p(src)): %s" % (
            name, str(a)[:160], str(b_)[:160]), "lexer"))
    if lexer_only:
        return bad
    ref = _outcome(lambda: Template(want_src).render_unicode(x="X"))
    got = _outcome(lambda: Template(src, preprocessor=list(ps) if len(ps) > 1 else ps[0]).render_unicode(x="X"))
    if got != ref:
        bad.append(("preprocessed-text-rendered-differently", "Template(src, preprocessor=%s): %s ; Template(p(src)): %s" % (
            name, str(got)[:160], str(ref)[:160]), "template"))
    if tmp is not None:
        _serial[0] += 1
        d = os.path.join(tmp, "pp%d_%d" % (os.getpid(), _serial[0]))
        os.makedirs(d)
        with open(os.path.join(d, "t.txt"), "wb") as f:
            f.write(src.encode("utf-8"))
        if src.startswith("\ufeff"):
            # a file that starts with U+FEFF starts with the UTF-8 byte order mark, which reading a file strips
            ref = _outcome(lambda: Template(apply_pps(ps, src[1:])).render_unicode(x="X"))
        for route, kw in (("lookup", {}), ("lookup+module_directory", {"module_directory": os.path.join(d, "mods")})):
            def viaLookup():
                lk = TemplateLookup(directories=[d], preprocessor=list(ps), **kw)
                t_ = lk.get_template("t.txt")
                try:
                    return t_.render_unicode(x="X")
                finally:
                    sys.modules.pop(t_.module.__name__, None)
            got = _outcome(viaLookup)
            if got != ref:
                bad.append(("preprocessed-text-rendered-differently", "TemplateLookup(preprocessor=%s) [%s]: %s ; "
                            "Template(p(src)): %s" % (name, route, str(got)[:160], str(ref)[:160]), route))
    return bad


def render_oracle_inert(s, want=None, renderer=None):
    """(B) for inert strings: output == input.  returns None or (site, detail)"""
    from mako import exceptions
    try:
        out = (renderer or render)(s)
    except exceptions.MakoException as e:
        return ("inert-input-rejected", "%s: %s" % (type(e).__name__, str(e)[:120]))
    except Exception as e:
        return ("inert-input-rejected", "raw %s: %s" % (type(e).__name__, str(e)[:120]))
    if out == s:
        return None
    # which characters went missing?  (known shapes: one `%` of a `\\s*%%` at the very start whose whitespace is not
    # blank; the `<` of a `</%`)
    base = s
    f1c = False
    m = re.match(r"(?s)(\s*)%%", s)
    if m and not re.match(r"[ \t\n]*%%", s):
        base = s[:m.end() - 1] + s[m.end():]
        f1c = True
    j = 0
    ok = True
    dropped = 0
    for i, ch in enumerate(base):
        if j < len(out) and out[j] == ch and not (base.startswith("</%", i) and out[j:j + 3] != "</%"):
            j += 1
        elif base.startswith("</%", i):
            dropped += 1
        else:
            ok = False
            break
    if ok and j == len(out):
        if dropped:
            return ("empty-match-skips-char", "rendered %r" % out[:60])
        if f1c:
            return ("percent-escape-after-nonblank-whitespace", "rendered %r" % out[:60])
    return ("render-differs", "rendered %r" % out[:80])


# --------------------------------------------------------------------------------------------------
# worker side: whole-lexer comparison of a batch of strings

def _adjust():
    from mako.pygen import adjust_whitespace
    return adjust_whitespace


def check_batch(strs, opts):
    """compare model and implementation on every string; run the oracles.  Returns a summary dict."""
    from mako import exceptions
    res = {"cases": 0, "branches": {}, "disagreements": [], "violations": [], "oracle_cases": 0,
           "render_cases": 0, "nontrivial": 0}
    try:
        outs = Driver().ask_many([LM.req_full(s) for s in strs])
    except Exception as e:          # the oracles below must run even when the model cannot be asked
        outs = [None] * len(strs)
        res["driver_failed"] = repr(e)[:300]
    adjust = _adjust()
    br = res["branches"]

    def b(k, n=1):
        br[k] = br.get(k, 0) + n
    n_timeouts = 0
    for s, o in zip(strs, outs):
        if n_timeouts >= 6:
            b("skipped-after-6-timeouts-in-this-batch")     # the verdict is established; do not burn the budget
            continue
        res["cases"] += 1
        impl, to = timed(LM.impl_lex, s)
        if to == "skipped":
            b("skipped-after-abort")
            res["skipped"] = True
            break
        if to:
            n_timeouts += 1
            site = timeout_site(s)
            b("impl:timeout")
            b("oracle:" + site)
            if len(res["violations"]) < 20:
                res["violations"].append((site, s, "Lexer(s).parse() did not finish within %.0f s (|s| = %d)" % (
                    CASE_BUDGET, len(s)), "oracle.timeout"))
            continue
        tree = impl.get("tree")
        try:
            d = None
            if o is not None:
                model = LM.parse_full(o)
                d = LM.compare_full(impl, model, adjust)
        except Exception as e:
            d = "cannot parse the model's answer: %r" % (e,)
        b("impl:" + impl["outcome"] + (":" + impl.get("kind", "") if impl["outcome"] == "lexer-error" else ""))
        for n in impl["nodes"]:
            b("node:" + n[0])
        if any(t in s for t in ("${", "<%", "</%", "%%", "##", "\\\n", "\\\r\n")) or re.search(r"(?m)^[ \t]*%", s):
            res["nontrivial"] += 1
        if d and len(res["disagreements"]) < 5:
            res["disagreements"].append({"case": s, "why": d, "model": (o or "")[:600],
                                         "impl": {k: v for k, v in impl.items() if k not in ("nodes", "tree")} | {
                                             "nodes": [list(map(str, n)) for n in impl["nodes"][:12]]}})
        if d:
            res.setdefault("n_disagreements", 0)
            res["n_disagreements"] += 1
        # ---- oracles (implementation only)
        res["oracle_cases"] += 1
        if impl["outcome"] == "foreign-error":
            site = "non-mako-exception"
            if impl["cls"] == "ValueError" and "parsetree.py" in impl["where"] and re.search(r"<%[\w.]*:[\w.]*:", s):
                site = "tag-keyword-multi-colon-valueerror"
            if len(res["violations"]) < 20:
                res["violations"].append((site, s, "%s: %s (%s)" % (impl["cls"], impl["msg"], impl["where"]), "oracle.exceptions"))
            b("oracle:" + site)
        if tree is not None:
            for site, detail in tiling_oracle(s, tree):
                b("oracle:" + site)
                if len(res["violations"]) < 20:
                    res["violations"].append((site, s, detail, "oracle.tiling"))
        if opts.get("render"):
            name, ps = PREPROCESSORS[1 + (len(s) + sum(map(ord, s))) % (len(PREPROCESSORS) - 1)]
            res["render_cases"] += 1
            r_, to = timed(preprocessor_oracle, s, name, ps, None, True)
            if to == "timeout":
                n_timeouts += 1
                r_ = [("lexer-does-not-finish", "Lexer(src, preprocessor=%s).parse() / Lexer(p(src)).parse() did not finish "
                       "within %.0f s" % (name, CASE_BUDGET), "lexer")]
            for site, detail, route in (r_ or []):
                b("oracle:" + site)
                if len(res["violations"]) < 20:
                    res["violations"].append((site, {"input": s, "preprocessor": name, "route": route}, detail,
                                              "oracle.preprocessor"))
        if opts.get("paths") and inert(s) and not s.isascii():
            enc = ENCODINGS[(len(s) + sum(map(ord, s))) % len(ENCODINGS)]
            res["render_cases"] += len(PATHS)
            b("paths:inert:" + enc)
            for site, detail, path, src2 in paths_oracle(render_oracle_inert, s, s, opts["paths"], enc):
                b("oracle:" + site)
                if len(res["violations"]) < 20:
                    res["violations"].append((site, {"input": src2, "path": path, "encoding": enc}, detail, "oracle.render-paths"))
        if opts.get("render") and inert(s):
            res["render_cases"] += 1
            r, to = timed(render_oracle_inert, s)
            if to == "timeout":
                n_timeouts += 1
                r = ("lexer-does-not-finish", "Template(s).render_unicode() did not finish in %.0f s" % CASE_BUDGET)
            if r:
                b("oracle:" + r[0])
                if len(res["violations"]) < 20:
                    res["violations"].append((r[0], s, r[1], "oracle.render-inert"))
    return res


def with_tmp(fn):
    """run fn(tmpdir) with a scratch directory for the file / module_directory construction paths"""
    import shutil
    import tempfile
    tmp = tempfile.mkdtemp(prefix="c01paths_")
    try:
        return fn(tmp)
    finally:
        shutil.rmtree(tmp, ignore_errors=True)


def guarded(job):
    """what a pool worker runs: the task, with a stray CaseTimeout (a timer signal that slipped through outside a
    timed call) turned into a result instead of killing the worker"""
    fn, arg = job
    _install_handler()
    try:
        return fn(arg)
    except CaseTimeout:
        r = skipped_result()
        r["branches"] = {"task-interrupted-by-stray-timer-signal": 1}
        return r


class Jobs:
    """a process pool a dead worker cannot hang: results are awaited with a deadline, a broken pool is replaced
    once and the unfinished jobs are re-submitted; what still cannot be completed is answered as skipped (named in
    `streams-cut-short`) and reported with ctx.broke("worker-died", ...)"""

    def __init__(self, ctx):
        self.ctx = ctx
        self.ex = None
        self.deaths = 0

    def executor(self):
        import concurrent.futures
        if self.ex is None:
            self.ex = concurrent.futures.ProcessPoolExecutor(NPROC, mp_context=multiprocessing.get_context("fork"))
        return self.ex

    def kill(self):
        ex, self.ex = self.ex, None
        if ex is None:
            return
        procs = list(getattr(ex, "_processes", {}).values())
        try:
            ex.shutdown(wait=False, cancel_futures=True)
        except Exception:
            pass
        for p_ in procs:
            try:
                p_.terminate()
            except Exception:
                pass

    def run(self, jobs, allowance=None):
        """jobs: [(tag, fn, arg)] -> [(tag, result)] in order"""
        import concurrent.futures
        from concurrent.futures.process import BrokenProcessPool
        results = {}
        pending = list(range(len(jobs)))
        why = None
        for attempt in (1, 2):
            ex = self.executor()
            try:
                futs = [(i, ex.submit(guarded, (jobs[i][1], jobs[i][2]))) for i in pending]
            except BrokenProcessPool as e:
                futs, why = [], "the pool was already broken: %r" % (e,)
            failed = [i for i in pending if i not in [j for j, _ in futs]]
            for i, f in futs:
                left = (DEADLINE.value - time.time()) if DEADLINE.value else 3000.0
                wait = allowance if allowance is not None else max(120.0, left + 300.0)
                try:
                    results[i] = f.result(timeout=wait)
                except BrokenProcessPool as e:
                    failed.append(i)
                    why = why or "a worker process died (%s)" % (str(e)[:120] or type(e).__name__)
                except concurrent.futures.TimeoutError:
                    failed.append(i)
                    why = why or "no answer from a worker within %.0f s (task %s)" % (wait, jobs[i][0])
                    break
            failed += [i for i, f in futs if i not in results and i not in failed]
            if not failed:
                return [(jobs[i][0], results[i]) for i in range(len(jobs))]
            self.deaths += 1
            self.ctx.log("worker pool broken (%s): %d of %d jobs unfinished, attempt %d" % (why, len(failed), len(jobs), attempt))
            self.ctx.branch("worker-pool-broken", 1)
            self.kill()
            pending = sorted(set(failed))
        for i in pending:
            results[i] = skipped_result()
        self.ctx.broke("worker-died", "%s; after one restart of the pool %d jobs of streams {%s} are still unfinished" % (
            why, len(pending), ", ".join(sorted({str(jobs[i][0]) for i in pending}))))
        return [(jobs[i][0], results[i]) for i in range(len(jobs))]


def skipped_result():
    """what a worker task answers once the run has been aborted (see `aborted`)"""
    return {"cases": 0, "branches": {"task-skipped-after-abort": 1}, "disagreements": [], "violations": [],
            "n_disagreements": 0, "skipped": True}


def task_exhaustive(args):
    if aborted():
        return skipped_result()
    prefix, rest_len, stride, phase, opts = args
    strs = []
    i = 0
    p = "".join(prefix)
    for t in itertools.product(ALPHA, repeat=rest_len):
        if stride == 1 or (i % stride) == phase:
            strs.append(p + "".join(t))
        i += 1
    if opts.get("render"):
        return with_tmp(lambda tmp: check_batch(strs, dict(opts, paths=tmp)))
    return check_batch(strs, opts)


def task_strings(args):
    if aborted():
        return skipped_result()
    strs, opts = args
    return check_batch(strs, opts)


# --------------------------------------------------------------------------------------------------
# per-matcher streams (worker side)

MATCHER_SPECS = {
    # name: (alphabet, head, quick maxlen, thorough maxlen, tag stacks, ctl stacks)
    "tag_start": (["a", ".", ":", " ", "\n", "=", ",", '"', "'", "/", ">", "x"], ["<%", "<%text"], 4, 5, [[]], [[]]),
    "tag_end": (["a", " ", "\t", ">", "/", "%", "\n", "<"], ["</%"], 5, 6, [[], ["a"], ["aa", "a"]], [[]]),
    "control_line": (["%", "#", " ", "\t", "\\", "\n", "\r", "a"], [""], 5, 6, [[]], [[], ["if"]]),
    "control_kw": (["end", "if", "for", "else", "elif", "try", "except", "finally", "while", "x", ":", " ", "\n"],
                   ["% ", "%"], 3, 4, [[]], [[], ["if"], ["for"], ["try", "if"], ["while"]]),
    "comment": (["<%doc>", "</%doc>", "<", "/", "%", "doc>", "\n", "a"], ["", "<%doc>"], 5, 6, [[]], [[]]),
    "expression": (['"', "'", "\\", "a", "\n", "\r\n", "#", "|", "}", "{", "(", ")", " "], ["${"], 4, 5, [[]], [[]]),
    "python_block": (['"', "'", "\\", "a", "\n", "#", "%>", "%", ">", "!", " "], ["<%", "<%!"], 4, 5, [[]], [[]]),
    "percent": (["%", " ", "\n", "\r", "\t", "\x0b", "\u00a0", "a"], [""], 5, 6, [[]], [[]]),
    "text": (["$", "{", "<", "/", "%", "#", "\\", "\n", "\r", " ", "\t", "a"], [""], 5, 6, [[]], [[]]),
    "end": (["a", "\n"], [""], 2, 2, [[]], [[]]),
}
CONTEXTS = ["", "\n", "x", "x\n"]
MATCHER_METHOD = {"control_kw": "control_line"}


def _fake_tag(kw):
    import types
    return types.SimpleNamespace(keyword=kw, nodes=[])


def _ctl_frame(kw):
    from mako import parsetree
    return parsetree.ControlLine(kw, False, {"if": "if x:", "for": "for x in y:", "try": "try:", "while": "while x:",
                                             "with": "with x:"}[kw], source="", lineno=0, pos=0, filename=None)


def impl_matcher(method, s, p, tags, ctls):
    from mako import exceptions
    P = LM.probe_class()
    lx = P(s)
    lx.textlength = len(s)
    lx.match_position = p
    lx.lineno = 1 + s.count("\n", 0, p)
    lx.tag = [_fake_tag(k) for k in reversed(tags)]
    lx.control_line = [_ctl_frame(k) for k in reversed(ctls)]
    lx.ternary_stack = [[] for _ in ctls]
    r = {}
    try:
        v = getattr(lx, "match_" + method)()
        r["res"] = "yes" if v else "no"
    except Exception as e:
        import traceback
        tb = traceback.extract_tb(sys.exc_info()[2])
        inner = tb[-1].filename if tb else ""
        if not isinstance(e, exceptions.MakoException):
            r["res"] = "foreign"
        elif inner.endswith("lexer.py"):
            r["res"] = "err"
            r["kind"] = LM.err_kind(str(e))
            r["elineno"], r["epos"] = e.lineno, e.pos
        else:
            r["res"] = "ctor"
        r["cls"] = type(e).__name__
        r["msg"] = str(e)[:120]
        r["where"] = "%s:%s" % (inner.rsplit("/", 1)[-1], tb[-1].name if tb else "")
    r["pos"], r["lineno"] = lx.match_position, lx.lineno
    r["mlineno"], r["mcharpos"] = lx.matched_lineno, lx.matched_charpos
    r["tags"] = [t.keyword for t in reversed(lx.tag)]
    r["ctls"] = [c.keyword for c in reversed(lx.control_line)]
    r["nodes"] = lx.node_log
    return r


def compare_matcher(impl, model, depth0, adjust):
    if model["res"] == "fuel":
        return "model out of fuel"
    if impl["res"] == "no":
        # a method that consumed input and then answered False is `fell` in the model
        if model["res"] == "no":
            return None if not impl["nodes"] else "impl appended nodes but model says no"
        if model["res"] != "fell":
            return "impl False, model %s" % model["res"]
    elif impl["res"] == "yes":
        if model["res"] != "yes":
            return "impl True, model %s" % model["res"]
    elif impl["res"] == "err":
        if model["res"] != "err":
            return "impl raised %s, model %s" % (impl["msg"], model["res"])
        if (impl["elineno"], impl["epos"]) != (model["elineno"], model["epos"]):
            return "error position: impl (%s,%s) model (%s,%s)" % (impl["elineno"], impl["epos"], model["elineno"], model["epos"])
        if impl["kind"] != "unknown" and impl["kind"] != model["kind"]:
            return "error kind: impl %s model %s" % (impl["kind"], model["kind"])
    mn = LM.model_nodes(model.get("toks", []), adjust)
    mn = [(n[0], n[1], n[2], n[3] + depth0) + n[4:] for n in mn]
    if impl["res"] in ("ctor", "foreign"):
        if mn[:len(impl["nodes"])] != impl["nodes"]:
            return "node prefix differs"
        return None
    if mn != impl["nodes"]:
        return "nodes differ"
    for k in ("pos", "lineno", "mlineno", "mcharpos", "tags", "ctls"):
        if impl[k] != model[k]:
            return "%s: impl %r model %r" % (k, impl[k], model[k])
    return None


def task_matcher(args):
    if aborted():
        return skipped_result()
    name, head, first, rest_len, tags, ctls = args
    alphabet = MATCHER_SPECS[name][0]
    method = MATCHER_METHOD.get(name, name)
    cases = []
    # the longest bodies (6 tokens) only at offset 0 and at a line start after text
    contexts = CONTEXTS if rest_len < 5 else ["", "x\n"]
    for t in itertools.product(alphabet, repeat=rest_len):
        body = head + first + "".join(t)
        for c in contexts:
            cases.append((c + body, len(c)))
    drv = Driver()
    outs = drv.ask_many([LM.req_matcher(method, s, p, tags, ctls) for s, p in cases])
    adjust = _adjust()
    res = {"cases": 0, "branches": {}, "disagreements": [], "violations": [], "n_disagreements": 0}
    n_timeouts = 0
    for (s, p), o in zip(cases, outs):
        if n_timeouts >= 6:
            continue
        res["cases"] += 1
        impl, to = timed(impl_matcher, method, s, p, tags, ctls)
        if to == "skipped":
            res["skipped"] = True
            break
        if to:
            n_timeouts += 1
            res["branches"]["m:%s:timeout" % name] = res["branches"].get("m:%s:timeout" % name, 0) + 1
            if len(res["violations"]) < 5:
                res["violations"].append((timeout_site(s), s, "match_%s at offset %d did not finish within %.0f s" % (
                    method, p, CASE_BUDGET), "oracle.timeout"))
            continue
        try:
            model = LM.parse_mres(o)
            d = compare_matcher(impl, model, len(tags), adjust)
        except Exception as e:
            d = "cannot parse the model's answer %r: %r" % (o[:100], e)
        k = "m:%s:%s" % (name, impl["res"] + (":" + impl.get("kind", "") if impl["res"] == "err" else ""))
        res["branches"][k] = res["branches"].get(k, 0) + 1
        if d:
            res["n_disagreements"] += 1
            if len(res["disagreements"]) < 3:
                res["disagreements"].append({"case": {"input": s, "p": p, "matcher": method, "tags": tags, "ctls": ctls},
                                             "why": d, "model": o[:400],
                                             "impl": {k_: (v if k_ != "nodes" else [list(map(str, n)) for n in v[:8]])
                                                      for k_, v in impl.items()}})
        if impl["res"] == "foreign":
            site = "non-mako-exception"
            if impl["cls"] == "ValueError" and "parsetree.py" in impl["where"] and re.search(r"<%[\w.]*:[\w.]*:", s):
                site = "tag-keyword-multi-colon-valueerror"
            if len(res["violations"]) < 5:
                res["violations"].append((site, s[p:], "%s: %s (%s)" % (impl["cls"], impl["msg"], impl["where"]),
                                          "oracle.exceptions"))
    return res


UNTIL = {"e1": (True, (r"\|", r"}")), "e2": (True, (r"}",)), "pb": (False, (r"%>",))}
UNTIL_ALPHA = ['"', "'", "\\", "a", "\n", "#", "|", "}", "{", "(", ")", "[", "]", "'''", '"""', "%>", "%", ">"]
STRING_ALPHA = ['"', "'", "\\", "a", "\n"]
CODING_ALPHA = ["#", "coding", ":", "=", " ", "\n", "\r", "a", "-", "\u00e9"]


def task_until(args):
    if aborted():
        return skipped_result()
    which, first, rest_len = args
    from mako import exceptions
    from mako.lexer import Lexer
    watch, terms = UNTIL[which]
    cases = []
    for t in itertools.product(UNTIL_ALPHA, repeat=rest_len):
        body = first + "".join(t)
        for c in ("", "x\n"):
            cases.append((c + body, len(c)))
    outs = Driver().ask_many([LM.req_until(which, s, p) for s, p in cases])
    res = {"cases": 0, "branches": {}, "disagreements": [], "violations": [], "n_disagreements": 0}
    for (s, p), o in zip(cases, outs):
        res["cases"] += 1
        lx = Lexer(s)
        lx.textlength = len(s)
        lx.match_position = p
        lx.lineno = 1 + s.count("\n", 0, p)
        try:
            r_, to = timed(lx.parse_until_text, watch, *terms)
            if to == "skipped":
                res["skipped"] = True
                break
            if to:
                res["branches"]["until:timeout"] = res["branches"].get("until:timeout", 0) + 1
                if len(res["violations"]) < 5:
                    res["violations"].append(("lexer-does-not-finish", s, "parse_until_text did not finish", "oracle.timeout"))
                continue
            text, term = r_
            want = "found %d %d %d %d %s %s" % (lx.match_position, lx.lineno, lx.matched_lineno, lx.matched_charpos,
                                                enc(text), enc(term))
            k = "until:found"
        except exceptions.SyntaxException as e:
            want = "fail %d %d %d" % (e.lineno, e.pos, lx.match_position)
            k = "until:fail"
        res["branches"][k] = res["branches"].get(k, 0) + 1
        if o != want:
            res["n_disagreements"] += 1
            if len(res["disagreements"]) < 3:
                res["disagreements"].append({"case": {"input": s, "p": p, "until": which}, "why": "differs", "model": o, "impl": want})
    return res


def _string_regex():
    """the compiled string-literal regex the real parse_until_text uses (from mako.lexer's own cache)"""
    import mako.lexer as L
    lx = L.Lexer('"x"}')
    lx.textlength = 4
    timed(lx.parse_until_text, True, r"}")
    for (pat, flags), reg in L._regexp_cache.items():
        if pat.startswith("(\\\"\\\"\\\"|"):
            return reg
    return None


def task_string(args):
    if aborted():
        return skipped_result()
    first, rest_len = args
    reg = _string_regex()
    res = {"cases": 0, "branches": {}, "disagreements": [], "violations": [], "n_disagreements": 0}
    if reg is None:
        res["branches"]["string:regex-not-found"] = 1
        return res
    cases = [first + "".join(t) for t in itertools.product(STRING_ALPHA, repeat=rest_len)]
    outs = Driver().ask_many(["lex string %s 0" % enc(s) for s in cases])
    for s, o in zip(cases, outs):
        res["cases"] += 1
        m, to = timed(reg.match, s)
        if to:
            if to == "timeout" and len(res["violations"]) < 5:
                res["violations"].append(("lexer-does-not-finish", s, "the string-literal regex did not finish", "oracle.timeout"))
            if to == "skipped":
                res["skipped"] = True
                break
            continue
        want = str(m.end()) if m else "none"
        k = "string:" + ("match" if m else "none")
        res["branches"][k] = res["branches"].get(k, 0) + 1
        if o != want:
            res["n_disagreements"] += 1
            if len(res["disagreements"]) < 3:
                res["disagreements"].append({"case": {"input": s, "regex": "string"}, "why": "differs", "model": o, "impl": want})
    return res


def task_coding(args):
    if aborted():
        return skipped_result()
    first, rest_len = args
    from mako.lexer import Lexer
    reg = Lexer._coding_re
    res = {"cases": 0, "branches": {}, "disagreements": [], "violations": [], "n_disagreements": 0}
    cases = ["#" + first + "".join(t) for t in itertools.product(CODING_ALPHA, repeat=rest_len)]
    outs = Driver().ask_many(["lex coding %s" % enc(s) for s in cases])
    for s, o in zip(cases, outs):
        res["cases"] += 1
        m, to = timed(reg.match, s)
        if to:
            if to == "timeout" and len(res["violations"]) < 5:
                res["violations"].append(("lexer-does-not-finish", s, "the coding-comment regex did not finish", "oracle.timeout"))
            if to == "skipped":
                res["skipped"] = True
                break
            continue
        want = str(m.end()) if m else "none"
        k = "coding:" + ("match" if m else "none")
        res["branches"][k] = res["branches"].get(k, 0) + 1
        if o != want:
            res["n_disagreements"] += 1
            if len(res["disagreements"]) < 3:
                res["disagreements"].append({"case": {"input": s, "regex": "coding"}, "why": "differs", "model": o, "impl": want})
    return res


# --------------------------------------------------------------------------------------------------
# (b) documents with ground truth

TEXT_ATOMS = list("abcXYZ019 .,;:!?-_=+*()[]@&^~`") + [" ", " ", "\t", "\u00e9", "\u4e16", "\U0001F600", "\u00a0",
                                                          "\u2028", "\u0301", "\x0b", "\x1c", "\u200b", "\ufeff"]
STRAY = ["%", "#", "$", "<", "\\", "{", "}", "|", ">", "/", '"', "'", "%>", "/>", "$$", "#!", "< %", "$ {", "%%"]
NEWLINES = ["\n", "\n", "\r\n", "\r"]


class DocGen:
    """builds a template source together with the output mako documents for it"""

    def __init__(self, rng, empty_text_tag=False):
        self.rng = rng
        self.src = []
        self.out = []
        self.kinds = {}
        self.defs = 0
        self.empty_text_tag = empty_text_tag

    def s(self):
        return "".join(self.src)

    def line_so_far(self):
        s = self.s()
        return s[s.rfind("\n") + 1:]

    def at_col0(self):
        s = self.s()
        return s == "" or s.endswith("\n")

    def note(self, kind):
        s = self.s()
        where = ("start" if s == "" else "after-crlf" if s.endswith("\r\n") else
                 "line-start" if s.endswith("\n") else "mid-line")
        if s.endswith("\\\n") or s.endswith("\\\r\n"):
            where = "after-continuation"
        self.kinds["%s@%s" % (kind, where)] = self.kinds.get("%s@%s" % (kind, where), 0) + 1

    def emit(self, src, out):
        self.src.append(src)
        self.out.append(out)

    def ok_text(self, cand):
        """would appending `cand` as literal text keep it literal?"""
        s = self.s() + cand
        tail = s[max(0, len(s) - len(cand) - 4):]
        if "${" in tail or "<%" in tail or "</%" in tail:
            return False
        if re.search(r"\\\r?\n", tail):
            return False
        # every line touched by cand: first non-blank must not be % or ##
        start = len(s) - len(cand)
        ls = s.rfind("\n", 0, start) + 1
        for line in s[ls:].split("\n"):
            if re.match(r"[ \t]*(%|##)", line) or re.match(r"\s*%%", line):
                return False
        if re.match(r"#.*coding[:=]", s):
            return False
        return True

    def text_run(self):
        rng = self.rng
        n = rng.randint(1, 12)
        self.note("text")
        for _ in range(n):
            for _try in range(20):
                r = rng.random()
                a = rng.choice(TEXT_ATOMS) if r < 0.6 else rng.choice(STRAY) if r < 0.85 else rng.choice(NEWLINES)
                if self.ok_text(a):
                    self.emit(a, a)
                    break

    def newline(self):
        nl = self.rng.choice(["\n", "\n", "\r\n"])
        if self.ok_text(nl):
            self.emit(nl, nl)
            return True
        return False

    def expression(self):
        self.note("expr")
        src, out = self.rng.choice([
            ("${'lit'}", "lit"), ("${x}", "X"), ('${ "}" }', "}"), ('${"a|b" | n}', "a|b"), ("${{'a':1}['a']}", "1"),
            ("${(x\n + 'y')}", "Xy"), ("${ '#' }", "#"), ("${'%' | trim}", "%"), ("${ [1,2][1] }", "2"),
            ('${"<>" | h}', "&lt;&gt;"), ("${'\u00e9'}", "\u00e9"), ("${x #c\n}", "X"), ("${'a\\'}b'}", "a'}b"),
            ("${x\r\n}", "X"),
        ])
        self.emit(src, out)

    def need_col0(self):
        if not self.at_col0():
            if not self.newline():
                self.emit("a\n", "a\n")

    def comment_line(self, eof=False):
        self.need_col0()
        self.note("comment-line")
        ind = self.rng.choice(["", " ", "\t", "   "])
        body = self.rng.choice(["", " note", " ${x} <%doc> % if", "#", " \u4e16 \\"])
        if body.endswith("\\"):
            body += " "
        end = "" if eof else self.rng.choice(["\n", "\r\n"])
        self.emit(ind + "##" + body + end, "")

    def percent_line(self):
        self.need_col0()
        self.note("percent-escape")
        ind = self.rng.choice(["", " ", "\t "])
        more = "%" * self.rng.choice([0, 0, 1, 3])
        self.emit(ind + "%%" + more, ind + "%" + more)

    def continuation(self):
        self.note("continuation")
        # the backslash must stay a backslash-newline: previous text must not end so that it changes meaning
        self.emit("\\" + self.rng.choice(["\n", "\r\n"]), "")

    def doc(self):
        self.note("doc")
        body = self.rng.choice(["", "x", " multi\nline ", "${x} ## % <%text>", "\r\n%%\n", "</%doc", "<%doc>"])
        self.emit("<%doc>" + body + "</%doc>", "")

    def text_tag(self):
        self.note("text-tag")
        bodies = ["t", "${x}", "\n## c\n% if x:\n%% y\\\n", "<%doc>d</%doc>", "</%text", " <%def name='f()'> ", "\u00e9\r\n",
                  "</%def>", "<%text>"]
        if self.empty_text_tag:
            bodies.append("")
        body = self.rng.choice(bodies)
        self.emit("<%text>" + body + "</%text>", body)

    def code(self):
        self.note("code")
        src = self.rng.choice(["<% y = 1 %>", "<%! import os %>", "<%\n  z = '%>'\n%>", "<% # c %>\n%>", "<%\r\n y = 2\r\n%>"])
        self.emit(src, "")

    def control(self, depth=0):
        self.need_col0()
        self.note("control")
        ind = self.rng.choice(["", "  ", "\t"])
        nl = lambda: self.rng.choice(["\n", "\n", "\r\n"])
        kind = self.rng.choice(["if", "if-else", "for", "if-cont"])
        if kind == "for":
            self.emit(ind + "% for i in range(2):" + nl(), "")
            mark = len(self.out)
            self.body(depth + 1)
            self.need_col0()
            body_out = "".join(self.out[mark:])
            self.emit(ind + "%endfor" + nl(), body_out)
        elif kind == "if-else":
            self.emit(ind + "% if x == 'X':" + nl(), "")
            self.body(depth + 1)
            self.need_col0()
            self.emit(ind + "% else:" + nl(), "")
            mark_s, mark_o = len(self.src), len(self.out)
            self.body(depth + 1)
            self.need_col0()
            del self.out[mark_o:]
            self.out.extend([""] * (len(self.src) - mark_s))
            self.emit(ind + "% endif" + nl(), "")
        else:
            head = "% if \\" + self.rng.choice(["\n", "\r\n"]) + "   True:" if kind == "if-cont" else "%if True:"
            self.emit(ind + head + nl(), "")
            self.body(depth + 1)
            self.need_col0()
            self.emit(ind + "% endif" + nl(), "")

    def definition(self):
        self.note("def")
        self.defs += 1
        name = "f%d" % self.defs
        body = self.rng.choice(["D", " d${x} ", "\nline\n", "\u4e16"])
        bx = body.replace("${x}", "X")
        self.emit('<%%def name="%s()">%s</%%def>' % (name, body), "")
        if self.rng.random() < 0.7:
            self.text_run()
            self.emit("${%s()}" % name, bx)

    def body(self, depth):
        self.emit("b", "b")          # a block without any output node is not compilable (not a lexer matter)
        for _ in range(self.rng.randint(1, 3)):
            self.segment(depth)

    def segment(self, depth=0):
        r = self.rng.random()
        if r < 0.30:
            self.text_run()
        elif r < 0.40:
            self.expression()
        elif r < 0.48:
            self.comment_line()
        elif r < 0.56:
            self.percent_line()
        elif r < 0.64:
            if not (self.s().endswith("\\") or self.s().endswith("\\\r")):
                self.continuation()
        elif r < 0.70:
            self.doc()
        elif r < 0.77:
            self.text_tag()
        elif r < 0.83:
            self.code()
        elif r < 0.92 and depth < 3:
            self.control(depth)
        elif r < 0.96 and depth == 0:
            self.definition()
        else:
            self.newline()


def gen_document(rng, nseg=None, empty_text_tag=False):
    g = DocGen(rng, empty_text_tag)
    for _ in range(nseg or rng.randint(8, 60)):
        g.segment()
    # what stands directly at the end of the input
    r = rng.random()
    if r < 0.1:
        g.comment_line(eof=True)
        g.note("eof:comment-without-newline")
    elif r < 0.2:
        g.need_col0()
        g.emit("% if True:\n", "")
        g.text_run()
        g.need_col0()
        g.emit("% endif", "")
        g.note("eof:control-line-without-newline")
    elif r < 0.3:
        g.percent_line()
    elif r < 0.4:
        g.continuation()
    elif r < 0.5:
        g.expression()
    elif r < 0.6:
        g.text_tag()
    return g


def doc_oracle(src, want, renderer=None):
    """(B) on a generated document.  None or (site, detail)"""
    from mako import exceptions
    try:
        out = (renderer or render)(src, x="X")
    except exceptions.MakoException as e:
        if "<%text></%text>" in src and "Unclosed tag: <%text>" in str(e):
            return ("empty-text-tag-body", "%s: %s" % (type(e).__name__, str(e)[:100]))
        return ("well-formed-document-rejected", "%s: %s" % (type(e).__name__, str(e)[:160]))
    except Exception as e:
        return ("well-formed-document-crashed", "%s: %s" % (type(e).__name__, str(e)[:160]))
    if out != want:
        if "<%text></%text>" in src:
            return ("empty-text-tag-body", "rendered %r, documented %r" % (out[:60], want[:60]))
        i = 0
        while i < min(len(out), len(want)) and out[i] == want[i]:
            i += 1
        return ("document-output-differs", "at output offset %d: rendered %r, documented %r" % (i, out[i:i + 30], want[i:i + 30]))
    return None


# small canonical documents: every directive kind once, at the position kinds the property names; (source, output)
CANONICAL = [
    ("caf\u00e9\n", "caf\u00e9\n"),
    ("plain \u00e9 \u4e16 % # $ < \\ { } | > /\r\nx\ry", "plain \u00e9 \u4e16 % # $ < \\ { } | > /\r\nx\ry"),
    ("${'a'}", "a"), ("x${x}y", "xXy"), ("${ '}' }", "}"), ("${'a|b' | n}", "a|b"), ("${'<' | h}\n", "&lt;\n"),
    ("${x\r\n}", "X"),
    ("%%x", "%x"), ("a\n  %%% b\n", "a\n  %% b\n"), ("a\r\n%%\r\n", "a\r\n%\r\n"), ("a %% b", "a %% b"),
    ("## c\nx", "x"), ("##\nx\n", "x\n"), ("a\n  ##  \n  b\n", "a\n  b\n"), ("a\r\n##\r\nb\r\n", "a\r\nb\r\n"), ("x\n  ## c\r\ny", "x\ny"), ("x\n## c", "x\n"), ("a ## b\n", "a ## b\n"),
    ("a\\\nb", "ab"), ("a\\\r\nb", "ab"), ("a\\\n", "a"), ("a\\b", "a\\b"), ("a\\\n%%b", "a%b"),
    ("<%doc>d\n</%doc>x", "x"), ("a<%doc></%doc>\nb", "a\nb"),
    ("<%text>${x} ## % <%doc>\n</%text>y", "${x} ## % <%doc>\ny"), ("a<%text>t</%text>", "at"),
    ("% if True:\nx\n% endif\n", "x\n"), ("  % if x == 'X':\r\na\r\n  % else:\r\nb\r\n  % endif\r\nc", "a\r\nc"),
    ("% for i in range(2):\n${i}\n% endfor", "0\n1\n"), ("% if \\\n True:\ny\n%endif\n", "y\n"),
    ("<% y = 1 %>${y}", "1"), ("<%! z = 2 %>${z}", "2"), ("<%\n  w = '%>'\n%>${w}", "%>"),
    ('<%def name="f()">d</%def>[${f()}]', "[d]"), ('<%def name="g(a)">\n${a}\n</%def>${g(1)}', "\n1\n"),
    ("# -*- coding: utf-8 -*-\nx", "x"), ("a\n# b\n", "a\n# b\n"),
]


RULE = RULE.replace("@NCANON@", str(len(CANONICAL)))


def canonical_oracle():
    """-> list of (site, source, detail) for canonical documents that do not render as documented"""
    bad = []
    for src, want in CANONICAL:
        r, to = timed(doc_oracle, src, want)
        if to == "timeout":
            r = ("lexer-does-not-finish", "rendering did not finish in %.0f s" % CASE_BUDGET)
        if r:
            bad.append((r[0], src, r[1]))
    return bad


def canonical_paths_oracle():
    """every canonical document (those that do not start with a coding comment of their own) along every
    construction path in every encoding -> ([(site, case, detail)], number of renders compared)"""
    bad = []
    n = [0]

    def run(tmp):
        for src, want in CANONICAL:
            if re.match(r"#.*coding[:=]", src):
                continue
            for enc in ENCODINGS:
                n[0] += len(PATHS)
                for site, detail, path, src2 in paths_oracle(doc_oracle, src, want, tmp, enc):
                    bad.append((site, {"input": src2, "path": path, "encoding": enc}, detail))
    with_tmp(run)
    return bad, n[0]


# ---- hostile Python inside directives: CPython's parser rejects it with every exception class it can raise;
#      lexing must end with a parse tree or a Mako syntax / compile exception
RECURSION_LIMIT = 1000      # CPython's default; set explicitly while the hostile-Python stream runs (C11 pins the same)
NEST_DEPTHS = [60, 250, 450, 700, 1000, 2000, 3500, 6000, 12000, 60000]
NESTINGS = [
    ("unary", lambda d: "-" * d + "1"),
    ("parens", lambda d: "(" * d + "1" + ")" * d),
    ("brackets", lambda d: "[" * d + "]" * d),
    ("lambda", lambda d: "lambda: " * d + "1"),
    ("binop-chain", lambda d: "1" + "+1" * d),
    ("attribute-chain", lambda d: "a" + ".b" * d),
    ("call-chain", lambda d: "f" + "()" * d),
    ("not-chain", lambda d: "not " * d + "x"),
    ("conditional", lambda d: "1 if x else " * d + "0"),
]
CONSTRUCTS = [
    ("expression", lambda e: "a ${" + e + "} b"),
    ("filter-list", lambda e: "${x | " + e + "}"),
    ("control-line", lambda e: "% if " + e + ":\nx\n% endif\n"),
    ("block", lambda e: "<%\n    y = " + e + "\n%>"),
    ("module-block", lambda e: "<%!\n    y = " + e + "\n%>"),
    ("def-signature", lambda e: '<%def name="f(a=' + e + ')">d</%def>'),
    ("attribute-expression", lambda e: '<%include file="${' + e + '}"/>'),
    ("call-expr", lambda e: '<%call expr="' + e + '">c</%call>'),
]


def hostile_snippets():
    """(name, Python expression text, class compile() rejects it with or None) - probed on the running interpreter"""
    import ast as pyast
    out = [("lone-surrogate", "'\ud800'"), ("lone-surrogate-name", "x\udfff"), ("nul-byte", "'a\x00b'"),
           ("nul-outside-string", "1 +\x00 2"), ("overlong-int", "9" * 5000), ("plain-syntax-error", "1 +* 2"),
           ("fine", "x")]
    for name, mk in NESTINGS:
        for d in NEST_DEPTHS:
            out.append(("%s-%d" % (name, d), mk(d)))
    res = []
    for name, code in out:
        cls = None
        try:
            pyast.parse(code, "<probe>", "eval")
        except BaseException as e:          # MemoryError, RecursionError, ValueError, UnicodeEncodeError, SyntaxError
            cls = type(e).__name__
        res.append((name, code, cls))
    return res


def hostile_python_oracle():
    """every construct x every hostile snippet: `Lexer(s).parse()` and `Template(s)` end with a result or a Mako
    exception.  -> ([(site, case, detail)], cases, histogram of what compile() raised, histogram of outcomes)"""
    import traceback
    from mako import exceptions
    from mako.lexer import Lexer
    from mako.template import Template
    bad = []
    hist, outcomes = {}, {}
    n = 0
    old_limit = sys.getrecursionlimit()
    sys.setrecursionlimit(RECURSION_LIMIT)      # which depths are "too deep" depends on it: pinned for the run
    try:
        return _hostile_python_cases(bad, hist, outcomes, n, traceback, exceptions, Lexer, Template)
    finally:
        sys.setrecursionlimit(old_limit)


def _hostile_python_cases(bad, hist, outcomes, n, traceback, exceptions, Lexer, Template):
    for sname, code, cls in hostile_snippets():
        hist["hostile:cpython-rejects-with:%s" % cls] = hist.get("hostile:cpython-rejects-with:%s" % cls, 0) + 1
        for cname, mk in CONSTRUCTS:
            if cname in ("attribute-expression", "call-expr", "def-signature") and '"' in code:
                continue
            src = mk(code)
            lexer_outcome = None
            for api, call in (("Lexer.parse", lambda: Lexer(src).parse()), ("Template", lambda: Template(src))):
                # Template() goes on to generate, compile and execute the module - other properties' matter; it is
                # asked only where the lexer refuses the source: it must refuse it with a Mako exception too
                if api == "Template" and lexer_outcome != "mako":
                    continue
                n += 1

                def run():
                    try:
                        call()
                        return ("ok",)
                    except exceptions.MakoException as e:
                        return ("mako", type(e).__name__)
                    except BaseException as e:
                        if isinstance(e, (CaseTimeout, KeyboardInterrupt)):
                            raise
                        tb = traceback.extract_tb(sys.exc_info()[2])
                        files = [f.filename.rsplit("/", 1)[-1] + ":" + f.name for f in tb[-6:]]
                        return ("raw", type(e).__name__, str(e)[:100], files)
                r, to = timed(run)
                if to == "skipped":
                    return bad, n, hist, outcomes
                if to:
                    r = ("raw", "timeout", "did not finish within %.0f s" % CASE_BUDGET, [])
                if api == "Lexer.parse":
                    lexer_outcome = r[0]
                key = "hostile:%s:%s" % (api, r[0] if r[0] != "mako" else r[1])
                outcomes[key] = outcomes.get(key, 0) + 1
                if r[0] == "raw":
                    site = "python-error-not-wrapped"
                    if r[1] == "RecursionError" and any(f.startswith(("_ast_util.py:", "pyparser.py:visit", "pyparser.py:_")) or
                                                        f.startswith("pyparser.py:") and "visit" in f for f in r[3]) \
                            and not any(f.endswith(":parse") for f in r[3][-2:]):
                        site = "identifier-visitor-recursionerror"
                    if r[1] == "timeout":
                        site = "lexer-does-not-finish"
                    bad.append((site, {"input": src if len(src) < 400 else src[:200] + "..." + src[-100:], "construct": cname,
                                       "python": sname, "api": api, "cpython_raises": cls, "length": len(src)},
                                "%s raised a raw %s: %s (innermost frames: %s)" % (api, r[1], r[2], ", ".join(r[3][-3:]))))
    # literal text holding a lone surrogate is ordinary text
    for src in ("a\ud800b", "\udfff\n% if True:\nx\udc00\n% endif\n"):
        n += 1
        want = src if src.startswith("a") else "\udfff\nx\udc00\n"
        r, to = timed(lambda: Template(src).render_unicode())
        if to == "skipped":
            break
        if to or r != want:
            bad.append(("surrogate-in-text-altered", {"input": src}, "rendered %r" % (r,)))
    return bad, n, hist, outcomes


def canonical_preprocessor_oracle():
    """every canonical document with every preprocessor configuration along every route -> [(site, case, detail)]"""
    bad = []

    def run(tmp):
        for src, want in CANONICAL:
            for name, ps in PREPROCESSORS:
                r_, to = timed(preprocessor_oracle, src, name, ps, tmp)
                if to == "timeout":
                    r_ = [("lexer-does-not-finish", "preprocessor %s: did not finish within %.0f s" % (name, CASE_BUDGET), "any")]
                for site, detail, route in (r_ or []):
                    bad.append((site, {"input": src, "preprocessor": name, "route": route}, detail))
    with_tmp(run)
    return bad


def task_documents(args):
    if aborted():
        return skipped_result()
    seed, n, empty_text = args
    import random
    rng = random.Random(seed)
    docs = [gen_document(rng, empty_text_tag=empty_text) for _ in range(n)]
    strs = [d.s() for d in docs]
    res = check_batch(strs, {"render": False})
    kinds = {}
    for d in docs:
        for k, v in d.kinds.items():
            kinds["doc:" + k] = kinds.get("doc:" + k, 0) + v
    for k, v in kinds.items():
        res["branches"][k] = res["branches"].get(k, 0) + v
    def paths(tmp):
        for i, d in enumerate(docs):
            if aborted():
                break
            enc = ENCODINGS[i % len(ENCODINGS)]
            res["render_cases"] += len(PATHS)
            res["branches"]["paths:document:" + enc] = res["branches"].get("paths:document:" + enc, 0) + 1
            for site, detail, path, src2 in paths_oracle(doc_oracle, d.s(), "".join(d.out), tmp, enc):
                res["branches"]["oracle:" + site] = res["branches"].get("oracle:" + site, 0) + 1
                if len(res["violations"]) < 20:
                    res["violations"].append((site, {"input": src2, "path": path, "encoding": enc}, detail,
                                              "oracle.render-paths"))
    with_tmp(paths)

    def pps(tmp):
        for i, d in enumerate(docs):
            name, ps = PREPROCESSORS[i % len(PREPROCESSORS)]
            res["render_cases"] += 4
            res["branches"]["preprocessor:document:" + name] = res["branches"].get("preprocessor:document:" + name, 0) + 1
            r_, to = timed(preprocessor_oracle, d.s(), name, ps, tmp)
            if to == "skipped":
                break
            if to == "timeout":
                r_ = [("lexer-does-not-finish", "preprocessor %s: did not finish within %.0f s" % (name, CASE_BUDGET), "any")]
            for site, detail, route in (r_ or []):
                res["branches"]["oracle:" + site] = res["branches"].get("oracle:" + site, 0) + 1
                if len(res["violations"]) < 20:
                    res["violations"].append((site, {"input": d.s(), "preprocessor": name, "route": route}, detail,
                                              "oracle.preprocessor"))
    with_tmp(pps)
    # correspondence: the model lexes the preprocessed text; the implementation is given the preprocessors
    cases = [(d.s(),) + PREPROCESSORS[(i + 3) % len(PREPROCESSORS)] for i, d in enumerate(docs)]
    try:
        outs = Driver().ask_many([LM.req_full(apply_pps(ps, s)) for s, _, ps in cases])
    except Exception as e:
        outs = []
        res["driver_failed"] = repr(e)[:300]
    adjust = _adjust()
    for (s, name, ps), o in zip(cases, outs):
        res["cases"] += 1
        impl, to = timed(LM.impl_lex, s, list(ps))
        if to:
            continue
        try:
            dd = LM.compare_full(impl, LM.parse_full(o), adjust)
        except Exception as e:
            dd = "cannot parse the model's answer: %r" % (e,)
        if dd:
            res["n_disagreements"] = res.get("n_disagreements", 0) + 1
            if len(res["disagreements"]) < 5:
                res["disagreements"].append({"case": {"input": s, "preprocessor": name}, "why": dd, "model": (o or "")[:400],
                                             "impl": {k: v for k, v in impl.items() if k not in ("nodes", "tree")}})
    for d in docs:
        res["render_cases"] += 1
        src = d.s()
        r, to = timed(doc_oracle, src, "".join(d.out))
        if to == "skipped":
            break
        if to:
            r = ("lexer-does-not-finish", "rendering a well-formed document did not finish in %.0f s" % CASE_BUDGET)
        if r:
            res["branches"]["oracle:" + r[0]] = res["branches"].get("oracle:" + r[0], 0) + 1
            if len(res["violations"]) < 20:
                res["violations"].append((r[0], src, r[1], "oracle.render-documents"))
    res["lengths"] = [len(s) for s in strs]
    return res


SOUP = ALPHA + ["<%if", "% if x:\n", "% endif\n", "% else:\n", "% for i in y:\n", "% endfor\n", "=", ",", "(", ")", "#",
                "# coding: ", "<%a", "<%n:d", ":x", "/>", "<%include", ' file="a"', "<%page", "<%block>", "</%block>",
                "<%call expr='f()'>", "</%call>", "\t", "\u2028", "x", "b", "end", "<%!", "\x0b"]


def task_malformed(args):
    if aborted():
        return skipped_result()
    seed, n = args
    import random
    rng = random.Random(seed)
    strs = []
    while len(strs) < n:
        r = rng.random()
        if r < 0.5:
            d = gen_document(rng, nseg=rng.randint(2, 10))
            toks = re.findall(r"<%\w*|</%\w*|\$\{|%>|##|%%|\\\r?\n|\r\n|\w+|.", d.s(), re.S)
            for _ in range(rng.randint(1, 3)):
                if not toks:
                    break
                i = rng.randrange(len(toks))
                m = rng.random()
                if m < 0.35:
                    del toks[i]
                elif m < 0.55:
                    toks.insert(i, toks[i])
                elif m < 0.75:
                    j = rng.randrange(len(toks))
                    toks[i], toks[j] = toks[j], toks[i]
                else:
                    toks.insert(i, rng.choice(SOUP))
            strs.append("".join(toks))
        else:
            strs.append("".join(rng.choice(SOUP) for _ in range(rng.randint(3, 30))))
    return check_batch(strs, {"render": True})


# --------------------------------------------------------------------------------------------------
# (D) timing test

def families():
    return [
        ("quotes", lambda n: '"' * n),
        ("expr-quotes", lambda n: "${" + '"' * n),
        ("expr-mixed-quotes", lambda n: "${" + "'\"" * n),
        ("expr-backslashes", lambda n: '${"' + "\\" * n),
        ("expr-open-braces", lambda n: "${" + "{" * n),
        ("expr-brace-pairs", lambda n: "${" + "{}" * n),
        ("expr-hashes", lambda n: "${" + "#" * n),
        ("expr-triple-quotes", lambda n: "${" + '"""' * n + "a"),
        ("tag-eq", lambda n: "<%a" + " =" * n + "!"),
        ("tag-comma", lambda n: "<%a" + " ," * n + "!"),
        ("tag-words", lambda n: "<%a" + " x" * n),
        ("tag-whitespace", lambda n: "<%a" + " " * n),
        ("tag-quoted", lambda n: "<%a" + ' b="c"' * n),
        ("closing-tag-blanks", lambda n: "</%" + " " * n),
        ("closing-tag-name", lambda n: "</%" + "a" * n),
        ("hashes", lambda n: "#" * n),
        ("percent-lines", lambda n: "\n%" * n),
        ("percents", lambda n: "%" * n),
        ("whitespace-percent", lambda n: " " * n + "%%"),
        ("continuations", lambda n: "\\\n" * n),
        ("ctl-continuations-lone-cr", lambda n: "% x" + "\\\n" * n + "\r"),
        ("doc-openers", lambda n: "<%doc>" * n),
        ("text-openers", lambda n: "<%text>" * n),
        ("lt-slash", lambda n: "</" * n),
        ("dollar", lambda n: "$" * n + "{"),
        ("block-percent", lambda n: "<%" + "%" * n),
        ("coding", lambda n: "#" + "coding:" * n),
    ] + grid_families()


OPENERS = [("expr-squote", "${'"), ("expr-dquote", '${"'), ("expr-tquote", "${" + "'" * 3), ("expr", "${"),
           ("expr-filter", "${a|"), ("block-squote", "<% x = '"), ("block-dquote", '<% x = "'), ("block", "<%"),
           ("module-block", "<%!"), ("tag", "<%a"), ("tag-attr", '<%a b="'), ("tag-attr-sq", "<%a b='"),
           ("text-tag", "<%text>"), ("doc", "<%doc>"), ("closing", "</%"), ("control", "% if "), ("comment", "## "),
           ("plain", "")]
FILLERS = [("blanks", " "), ("letters", "a"), ("words", "ab "), ("braces", "{}"), ("backslash-blank", "\\ "),
           ("newlines", "\n"), ("assign", "x= "), ("squotes", "'"), ("dquotes", '"'), ("mixed", "a\"b'c "),
           ("lt", "<"), ("percent-gt", "%>"), ("crs", "\r")]


def grid_families():
    """an unterminated opener of every construct followed by n repetitions of a filler and a `}`: what a typo
    looks like; pumps every loop of every regex of the lexer"""
    fams = []
    for on, o in OPENERS:
        for fn, f in FILLERS:
            fams.append(("%s+%s" % (on, fn), (lambda o_, f_: (lambda n: o_ + f_ * n + "}"))(o, f)))
    return fams


CHILD = r"""
import sys, time
sys.path.insert(0, %r)
from mako.lexer import Lexer
fams = dict(__import__('harness.props.C01', fromlist=['families']).families())
name = sys.argv[1]
ns = [int(x) for x in sys.argv[2].split(',')]
f = fams[name]
for n in ns:
    s = f(n)
    best = None
    for rep in range(3):
        t0 = time.process_time()
        try:
            Lexer(s).parse()
        except Exception:
            pass
        t = time.process_time() - t0
        best = t if best is None else min(best, t)
        if t > 0.2:
            break
    print(n, best, flush=True)
"""


def _cpu_seconds(pid):
    """user+system CPU time consumed so far by the process (from /proc; None when it is gone)"""
    try:
        f = open("/proc/%d/stat" % pid).read()
        rest = f[f.rindex(")") + 2:].split()
        return (int(rest[11]) + int(rest[12])) / float(os.sysconf("SC_CLK_TCK"))
    except Exception:
        return None


def task_timing(args):
    """run one family in a child process, n growing; the budget is CPU time *of the child* per point (so a loaded
    machine does not turn a slow wall clock into a verdict); the child is killed when a point exceeds it"""
    name, ns, budget, repo = args
    code = CHILD % (repo,)
    env = dict(os.environ)
    env["PYTHONPATH"] = VERIF + os.pathsep + repo
    p = subprocess.Popen([sys.executable, "-c", code, name, ",".join(map(str, ns))], stdout=subprocess.PIPE,
                         stderr=subprocess.DEVNULL, env=env, cwd=VERIF)
    pts = []
    timed_out = None
    try:
        for n in ns:
            cpu0 = _cpu_seconds(p.pid) or 0.0
            wall0 = time.time()
            line = b""
            while True:
                r, _, _ = select.select([p.stdout], [], [], 0.25)
                if r:
                    line = p.stdout.readline()
                    break
                cpu = _cpu_seconds(p.pid)
                if cpu is None or cpu - cpu0 > budget + 1.0 + (2.0 if n == ns[0] else 0.0) or time.time() - wall0 > 60 * budget:
                    break
            if not line:
                timed_out = n
                break
            a, b = line.decode().split()
            pts.append((int(a), float(b)))
            if float(b) > budget:
                break
            if float(b) > 1.0:
                break       # the next doubling would only burn time; the exponent rule has what it needs
    finally:
        p.kill()
        p.wait()
    return {"name": name, "points": pts, "timed_out_at": timed_out}


def judge_family(r, budget):
    """DESIGN C01: super-polynomial when the local exponent exceeds 4 at two consecutive doublings (points above a
    2 ms noise floor only) or a point with n <= 4096 exceeds the budget"""
    pts = r["points"]
    if r["timed_out_at"] is not None and r["timed_out_at"] <= 4096:
        return "n=%d did not finish within the %.0fs budget (previous points: %s)" % (
            r["timed_out_at"], budget, ", ".join("%d:%.3fs" % p for p in pts[-3:]))
    for n, t in pts:
        if t > budget and n <= 4096:
            return "n=%d took %.1fs CPU (> %.0fs budget)" % (n, t, budget)
    exps = []
    for (n1, t1), (n2, t2) in zip(pts, pts[1:]):
        if t1 > 0.002 and t2 > 0.002 and n2 == 2 * n1:
            import math
            exps.append(math.log2(t2 / t1))
        else:
            exps.append(None)
    for a, b in zip(exps, exps[1:]):
        if a is not None and b is not None and a > 4 and b > 4:
            return "local exponent %.1f, %.1f at consecutive doublings" % (a, b)
    return None


# --------------------------------------------------------------------------------------------------
# main-process side

SKIPPED = set()


def merge(ctx, stream, kind, r, oracle_stream_cases=True):
    st = ctx.stream(stream, kind)
    if r.get("skipped"):
        SKIPPED.add(stream)
    if r.get("driver_failed") and not any(b_["what"] == "correspondence:driver" for b_ in ctx.broken):
        ctx.broke("correspondence:driver", r["driver_failed"])
    st["cases"] += r["cases"]
    for k, v in r["branches"].items():
        ctx.branch(k, v)
    nd = r.get("n_disagreements", 0)
    for d in r["disagreements"]:
        ctx.disagree(stream, d["case"], d.get("model"), {"why": d["why"], "impl": d.get("impl")})
    extra = nd - len(r["disagreements"])
    if extra > 0:
        st["disagreements"] += extra
    for site, case, detail, ostream in r["violations"]:
        VIOL.append((site, case, detail, ostream))
    if r.get("oracle_cases"):
        ctx.stream("oracle.tiling", "oracle")["cases"] += r["oracle_cases"]
        ctx.stream("oracle.exceptions", "oracle")["cases"] += r["oracle_cases"]
    if r.get("render_cases"):
        ctx.stream("oracle.render", "oracle")["cases"] += r["render_cases"]
    base = len(ctx.nontrivial)
    for i in range(min(r.get("nontrivial", 0), 200000)):
        ctx.nontriv((stream, base, i))


VIOL = []


def shrink_violation(site, case, ostream):
    """minimise a failing string for the oracle that reported it, keeping the same site"""
    from mako.lexer import Lexer
    from mako import exceptions

    def parse(x):
        r_, to = timed(lambda: Lexer(x).parse(), budget=0.5)
        if to:
            raise RuntimeError("time limit")
        return r_

    def fails(x):
        if ostream == "oracle.timeout" or time.time() > SHRINK_DEADLINE[0]:
            return False
        if ostream == "oracle.tiling":
            try:
                tree = parse(x)
            except Exception:
                return False
            return any(s_ == site for s_, _ in tiling_oracle(x, tree))
        if ostream == "oracle.render-inert":
            if not inert(x):
                return False
            r, to = timed(render_oracle_inert, x, budget=1.0)
            return (not to) and bool(r) and r[0] == site
        if ostream == "oracle.exceptions":
            try:
                parse(x)
            except exceptions.MakoException:
                return False
            except Exception as e:
                if site == "tag-keyword-multi-colon-valueerror":
                    return isinstance(e, ValueError) and bool(re.search(r"<%[\w.]*:[\w.]*:", x))
                return True
            return False
        return False
    try:
        if not fails(case):
            return case
        return shrink_str(case, fails, 400)
    except Exception:
        return case


SHRINK_DEADLINE = [0.0]


def report_violations(ctx):
    """shrink, de-duplicate per (site, minimised input) and hand to the runner"""
    SHRINK_DEADLINE[0] = time.time() + 40.0      # all shrinking together; afterwards cases are reported as found
    seen = set()
    per_site = {}
    for site, case, detail, ostream in VIOL:
        if per_site.get(site, 0) >= 6:
            continue
        small = shrink_violation(site, case, ostream) if isinstance(case, str) and ostream in (
            "oracle.tiling", "oracle.render-inert", "oracle.exceptions") else case
        key = (site, small if isinstance(small, str) else str(small))
        if key in seen:
            continue
        seen.add(key)
        per_site[site] = per_site.get(site, 0) + 1
        ctx.violation(site, {"input": small, "found_in": case if len(case) < 300 else case[:300] + "...",
                             "oracle": ostream} if isinstance(small, str) else small, detail, ostream)


def classes(ctx, drv):
    sys.path.insert(0, os.path.join(VERIF, "tools"))
    from regen_unicode import ranges
    st = ctx.stream("corr.unicode-classes", exhaustive=True)
    preds = {"w": lambda c: re.match(r"\w", c) is not None, "s": lambda c: re.match(r"\s", c) is not None,
             "i": str.isspace}
    if ctx.quick:
        st["exhaustive"] = False
        cps = list(range(0, 0x3000)) + [ctx.rng.randrange(0x3000, 0x110000) for _ in range(6000)]
        cps = [c for c in cps if not 0xD800 <= c <= 0xDFFF]
        for w, pred in preds.items():
            outs = drv.ask_many(["lex class %s %d" % (w, c) for c in cps])
            for c, o in zip(cps, outs):
                st["cases"] += 1
                if (o == "1") != bool(pred(chr(c))):
                    ctx.disagree("corr.unicode-classes", {"class": w, "cp": c}, o, bool(pred(chr(c))))
    else:
        for w, pred in preds.items():
            o = drv.ask("lex classranges " + w)
            want = ",".join("%d-%d" % r for r in ranges(pred))
            st["cases"] += 0x110000 - 0x800
            if o != want:
                ctx.disagree("corr.unicode-classes", {"class": w}, o[:200], want[:200])
    ctx.branch("classes:checked", 3)


def run(ctx):
    del VIOL[:]
    SKIPPED.clear()
    SLOW.value = 0
    DEADLINE.value = time.time() + RUN_BUDGET[ctx.tier]
    repo = os.environ.get("MAKO_REPO", "/repo")
    _install_handler()
    pool = Jobs(ctx)
    t0 = time.time()
    try:
        try:
            drv = Driver()
            classes(ctx, drv)
            # ---------------- per-matcher streams ------------------------------------------------------
            jobs = []
            fp = current_fingerprint()
            deep = (not ctx.quick) or fp != MODELLED_FINGERPRINT
            ctx.branch("regex-fingerprint:" + ("as-modelled" if fp == MODELLED_FINGERPRINT else "changed"))
            if ctx.quick and deep:
                ctx.log("the regex literals of mako/lexer.py changed: per-matcher streams run at thorough size")
            for name, (alphabet, heads, qk, tk, tagss, ctlss) in MATCHER_SPECS.items():
                k = tk if deep else qk
                for head in heads:
                    for tags in tagss:
                        for ctls in ctlss:
                            jobs.append(("corr.matcher." + name, task_matcher, (name, head, "", 0, tags, ctls)))
                            for n in range(1, k + 1):
                                for first in alphabet:
                                    jobs.append(("corr.matcher." + name, task_matcher, (name, head, first, n - 1, tags, ctls)))
            uk = 3 if ctx.quick else 4
            for which in UNTIL:
                for n in range(1, uk + 1):
                    for first in UNTIL_ALPHA:
                        jobs.append(("corr.parse_until_text", task_until, (which, first, n - 1)))
            sk = 6 if ctx.quick else 8
            for n in range(1, sk + 1):
                for first in STRING_ALPHA:
                    jobs.append(("corr.regex.string-literal", task_string, (first, n - 1)))
            ck = 4 if ctx.quick else 6
            for n in range(1, ck + 1):
                for first in CODING_ALPHA:
                    jobs.append(("corr.regex.coding-comment", task_coding, (first, n - 1)))
            ctx.log("per-matcher streams: %d jobs on %d processes" % (len(jobs), NPROC))
            for stream, r in pool.run(jobs):
                ctx.stream(stream, "corr", exhaustive=True)
                merge(ctx, stream, "corr", r)
            ctx.log("per-matcher streams done: %d cases, %d disagreements (%.1fs)" % (
                sum(s["cases"] for n_, s in ctx.streams.items() if n_.startswith("corr.")),
                sum(s["disagreements"] for n_, s in ctx.streams.items() if n_.startswith("corr.")), time.time() - t0))

            # ---------------- (a) exhaustive token concatenations -------------------------------------------
            jobs = []
            opts = {"render": True}
            jobs.append(("corr.lexer.exhaustive", task_strings, ([""], opts)))
            kfull = 3 if ctx.quick else 5
            for n in range(1, kfull + 1):
                if n <= 2:
                    jobs.append(("corr.lexer.exhaustive", task_exhaustive, ((), n, 1, 0, opts)))
                else:
                    # k=5: model comparison, tiling and exception oracles; the render oracle stops at k=4
                    o5 = opts if n <= 4 else {"render": False}
                    for pre in itertools.product(ALPHA, repeat=2 if n >= 4 else 1):
                        jobs.append(("corr.lexer.exhaustive", task_exhaustive, (pre, n - len(pre), 1, 0, o5)))
            if ctx.quick:
                phase = ctx.seed % 8
                for pre in itertools.product(ALPHA, repeat=1):
                    jobs.append(("corr.lexer.sampled-k4", task_exhaustive, (pre, 3, 8, phase, opts)))
            ctx.log("(a) token concatenations: %d jobs" % len(jobs))
            for stream, r in pool.run(jobs):
                ctx.stream(stream, "corr", exhaustive=(stream == "corr.lexer.exhaustive"))
                merge(ctx, stream, "corr", r)
            ctx.log("(a) done: %d cases (%.1fs)" % (ctx.streams["corr.lexer.exhaustive"]["cases"], time.time() - t0))

            # ---------------- (b) documents, (c) malformed ----------------------------------------------
            ndocs = 480 if ctx.quick else 12000
            nmal = 16000 if ctx.quick else 200000
            per = max(1, ndocs // (NPROC * 3))
            jobs = []
            i = 0
            while i * per < ndocs:
                jobs.append(("corr.lexer.documents", task_documents, (ctx.rng.getrandbits(48), per, i == 0)))
                i += 1
            perm = max(1, nmal // (NPROC * 4))
            i = 0
            while i * perm < nmal:
                jobs.append(("corr.lexer.malformed", task_malformed, (ctx.rng.getrandbits(48), perm)))
                i += 1
            lengths = []
            for stream, r in pool.run(jobs):
                ctx.stream(stream, "corr", exhaustive=False)
                merge(ctx, stream, "corr", r)
                lengths += r.get("lengths", [])
            if lengths:
                lengths.sort()
                ctx.notes.append("document lengths: min %d median %d max %d" % (lengths[0], lengths[len(lengths) // 2], lengths[-1]))
            ctx.log("(b)+(c) done: %d documents, %d malformed (%.1fs)" % (
                ctx.streams["corr.lexer.documents"]["cases"], ctx.streams["corr.lexer.malformed"]["cases"], time.time() - t0))
            g = gen_document(__import__("random").Random(ctx.seed), nseg=6)
            ctx.sample({"stream": "corr.lexer.documents", "source": g.s(), "documented_output": "".join(g.out)})
            ctx.sample({"stream": "corr.lexer.exhaustive", "input": "a</%b",
                        "model": drv.ask(LM.req_full("a</%b")), "impl": str(LM.impl_lex("a</%b")["nodes"])})
        finally:
            # ---------------- fixed witnesses (corpus) + timing: always run ------------------------------
            st_c = ctx.stream("oracle.render", "oracle")
            for site, src, detail in canonical_oracle():
                VIOL.insert(0, (site, src, detail, "oracle.render-canonical"))
            st_c["cases"] += len(CANONICAL)
            hb, hn, hhist, hout = hostile_python_oracle()
            per = {}
            for site, case, detail in hb:
                per[site] = per.get(site, 0) + 1
                if per[site] <= 4:
                    VIOL.append((site, case, detail, "oracle.hostile-python"))
            ctx.stream("oracle.hostile-python", "oracle")["cases"] += hn
            for k_, v_ in list(hhist.items()) + list(hout.items()) + [("oracle:" + s_, c_) for s_, c_ in per.items()]:
                ctx.branch(k_, v_)
            cpp = canonical_preprocessor_oracle()
            for site, case, detail in reversed(cpp[:12]):
                VIOL.insert(0, (site, case, detail, "oracle.preprocessor"))
            st_c["cases"] += len(CANONICAL) * len(PREPROCESSORS) * 4
            ctx.branch("preprocessor:canonical", len(CANONICAL) * len(PREPROCESSORS) * 4)
            cp, n_cp = canonical_paths_oracle()
            for site, case, detail in reversed(cp[:12]):
                VIOL.insert(0, (site, case, detail, "oracle.render-paths"))
            st_c["cases"] += n_cp
            ctx.branch("paths:canonical", n_cp)
            corpus = ["a</%b", "x\n% foo\rbar", "<%text></%text></%text>", "\x0b%%", "<%a:b:c/>"] + [c for c, _ in CANONICAL]
            r = check_batch(corpus, {"render": True})
            merge(ctx, "corr.lexer.corpus", "corr", r)
            g = DocGen(__import__("random").Random(1), True)
            g.emit("a<%text></%text>b", "ab")
            rr = doc_oracle(g.s(), "".join(g.out))
            ctx.stream("oracle.render", "oracle")["cases"] += 1
            if rr:
                VIOL.append((rr[0], g.s(), rr[1], "oracle.render-documents"))
            budget = 3.0 if ctx.quick else 10.0
            top = 10 if ctx.quick else 15
            ns = [2 ** i for i in range(4, top + 1)]
            st = ctx.stream("oracle.timing", "oracle")
            for _tag, r in pool.run([("oracle.timing", task_timing, (name, ns, budget, repo)) for name, _ in families()],
                                    allowance=1800.0):
                if r.get("skipped"):
                    SKIPPED.add("oracle.timing")
                    continue
                st["cases"] += len(r["points"]) + (1 if r["timed_out_at"] else 0)
                verdict = judge_family(r, budget)
                ctx.branch("timing:" + r["name"] + (":SUPERPOLYNOMIAL" if verdict else ":ok"))
                if r["points"]:
                    ctx.notes.append("timing %s: %s%s" % (r["name"], " ".join("%d:%.4f" % p for p in r["points"][-4:]),
                                                         " TIMEOUT@%s" % r["timed_out_at"] if r["timed_out_at"] else ""))
                if verdict:
                    site = "tag-regex-exponential" if r["name"] in ("tag-eq", "tag-comma") else "superpolynomial:" + r["name"]
                    fam = dict(families())[r["name"]]
                    n_w = r["timed_out_at"] or (r["points"][-1][0] if r["points"] else 32)
                    ctx.violation(site, {"input": fam(min(n_w, 40)), "family": r["name"], "n": n_w,
                                         "note": "timing test (CPU time of Lexer(s).parse() in a subprocess)"},
                                  verdict, "oracle.timing")
            if SLOW.value:
                ctx.branch("calls-that-ran-into-the-time-limit", SLOW.value)
            if SKIPPED:
                why = ("%d calls into mako ran into the %.0f s limit" % (SLOW.value, CASE_BUDGET) if SLOW.value >= SLOW_ABORT
                       else "the run's stream budget of %.0f s was used up" % RUN_BUDGET[ctx.tier])
                ctx.broke("streams-cut-short", "%s; not completed: %s" % (why, ", ".join(sorted(SKIPPED))))
            DEADLINE.value = time.time() + 120.0      # shrinking and replays of the reported cases
            slow_before = SLOW.value
            SLOW.value = 0
            report_violations(ctx)
            SLOW.value += slow_before
            ctx.log("oracles done (%.1fs): %d violations reported" % (time.time() - t0, len(ctx.violations)))
    finally:
        pool.kill()
        ctx._drv = ctx._drv or common.Driver.__new__(common.Driver)
        ctx._drv.n = getattr(ctx._drv, "n", 0) + sum(s_["cases"] for n_, s_ in ctx.streams.items() if s_["kind"] == "corr")


def replay(ctx, data):
    """re-run the recorded case on the implementation (oracles) and on the model"""
    case = data.get("case")
    if case is None and data.get("first_disagreements"):
        case = data["first_disagreements"][0]["case"]
    print("replaying", repr(case)[:300])
    if isinstance(case, dict) and "family" in case:
        r = task_timing((case["family"], [case["n"]], 10.0, os.environ.get("MAKO_REPO", "/repo")))
        print("timing:", r)
        v = judge_family({"name": r["name"], "points": r["points"], "timed_out_at": r["timed_out_at"]}, 10.0)
        print("verdict:", v)
        return v is None
    if isinstance(case, dict) and "matcher" in case:
        s, p = case["input"], case["p"]
        impl = impl_matcher(case["matcher"], s, p, case.get("tags", []), case.get("ctls", []))
        o = ctx.driver().ask(LM.req_matcher(case["matcher"], s, p, case.get("tags", []), case.get("ctls", [])))
        print("impl :", impl)
        print("model:", o)
        return compare_matcher(impl, LM.parse_mres(o), len(case.get("tags", [])), _adjust()) is None
    s = case["input"] if isinstance(case, dict) else case
    if not isinstance(s, str):
        return False
    SLOW.value = 0
    DEADLINE.value = 0.0
    if isinstance(case, dict) and "construct" in case:
        bad, _, _, _ = hostile_python_oracle()
        hits = [b_ for b_ in bad if b_[1].get("construct") == case["construct"] and b_[1].get("python") == case["python"]
                and b_[1].get("api") == case["api"]]
        for site, c_, detail in hits:
            print("oracle:", site, "|", detail[:300])
        return not hits
    if isinstance(case, dict) and "preprocessor" in case:
        ps = dict(PREPROCESSORS)[case["preprocessor"]]
        bad, to = with_tmp(lambda tmp: timed(preprocessor_oracle, s, case["preprocessor"], ps, tmp))
        if to:
            print("did not finish within %.0f s" % CASE_BUDGET)
            return False
        print("p(src) =", repr(apply_pps(ps, s))[:300])
        for site, detail, route in bad:
            print("oracle:", site, "|", detail[:400])
        return not bad
    if isinstance(case, dict) and "path" in case:
        # a construction-path case: the path's output against the output of the plain string Template
        def run(tmp):
            ref, to1 = timed(lambda: render(s, x="X"))
            try:
                got, to2 = timed(lambda: path_renderer(case["path"], case["encoding"], tmp)(s, x="X"))
            except Exception as e:
                got, to2 = "<%s: %s>" % (type(e).__name__, str(e)[:100]), None
            if to1 or to2:
                print("did not finish within %.0f s" % CASE_BUDGET)
                return False
            print("Template(string)           :", repr(ref)[:200])
            print("path %-22s:" % case["path"], repr(got)[:200], "(encoding %s)" % case["encoding"])
            return got == ref
        return with_tmp(run)
    for src, want in CANONICAL:
        if src == s:
            bad = doc_oracle(src, want)
            print("canonical document: documented output %r; oracle: %s" % (want, bad or "holds"))
            if bad:
                return False
    r = check_batch([s], {"render": True})
    print("model:", ctx.driver().ask(LM.req_full(s)))
    print("impl :", LM.impl_lex(s))
    for v in r["violations"]:
        print("oracle:", v[0], v[2])
    for d in r["disagreements"]:
        print("disagreement:", d["why"])
    return not r["violations"] and not r["disagreements"]


DRIVER_OPS = ["lex"]   # per-area driver executable(s) this check talks to (built before any worker is forked)
