"""C09 - template lookup never escapes its configured directories.

regen : group PathCfg (tools/regen_pathcfg.py): control structure of Template.__init__ (the URI check is an
        unconditional top-level statement before anything is compiled or read) and of TemplateLookup
        (has_template = get_template succeeding; what get_template/_check/_load return) -> named obligations.
corr  : Lean path model (normpath/join/dirname/uriToSrc/templateCheck/modulePath/adjustUri) vs the
        real posixpath and the real TemplateLookup.get_template / Template.__init__ (module_directory and
        module_filename) / adjust_uri (instrumented from here: the path handed to os.path.isfile, the module
        path handed to _compile_from_file) on exhaustively enumerated and random URIs; the lookup state machine
        (Path/History.lean) vs a real TemplateLookup over random histories of get_template / has_template calls
        and file creations / deletions inside and outside the roots.
oracle: a real directory tree with secrets beside/above the roots; an audit hook records every file
        opened and the tree is compared before/after: nothing outside the roots is read, nothing
        outside module_directory is created, every returned template's realpath is inside a root,
        has_template agrees with get_template; lookups with module_directory, modulename_callable and a
        module directory shared with a foreign lookup.
"""
from __future__ import annotations

import itertools
import zlib
import os
import posixpath
import shutil
import sys
import tempfile

from harness.common import enc, dec, shrink_str

DIRS_FOR_RULE = ["/srv/t", "/", "rel/t", ".", "../up", "//x", "/srv/t/", "/srv/./t/../t", "///y//z/"]
RULE = ("URIs = segments over {a, sub, .., ., '', ..a, a.., ...} joined by separators {/, //, \\} with "
        "leading {'', /, //, ///, \\, /\\} and trailing {'', /, \\}: exhaustive up to k segments (quick k=3, "
        "thorough k=4), random up to 8 segments incl. NUL/non-ASCII; x %d directory spellings; lookup histories: 8-28 operations over 24 fixed + random attack URIs and a pool of 10 files (4 outside the roots), 6 directory configurations, filesystem_checks on/off; a case is "
        "non-trivial when normalisation changes the URI ('..', '.', empty segment, backslash or repeated slash "
        "present); distinct = distinct (directory, uri) pairs") % len(DIRS_FOR_RULE)
ASSUMPTIONS = [
    "symlinks inside the roots are out of scope (the property speaks of configured directories)",
    "POSIX path semantics (os.path is posixpath)",
    "os.path.isfile/open see the same file system as the harness' audit hook",
]
TRUSTED_EXTRA = ["C09: posixpath.normpath/join/dirname are modelled (Path/Model.lean) and compared on every case",
                 "C09: tools/regen_pathcfg.py (structure of Template.__init__ / TemplateLookup read with Python's ast)"]
REGEN = ["PathCfg"]

SEGS = ["a", "sub", "..", ".", "", "..a", "a..", "..."]
SEPS = ["/", "//", "\\"]
LEAD = ["", "/", "//", "///", "\\", "/\\"]
TRAIL = ["", "/", "\\"]
DIRS = DIRS_FOR_RULE


def enum_uris(k):
    for n in range(1, k + 1):
        for segs in itertools.product(SEGS, repeat=n):
            for seps in itertools.product(SEPS, repeat=n - 1):
                body = segs[0] + "".join(s + g for s, g in zip(seps, segs[1:]))
                for l in LEAD:
                    for t in TRAIL:
                        yield l + body + t


def random_uri(rng):
    n = rng.randint(1, 8)
    segs = []
    for _ in range(n):
        r = rng.random()
        if r < 0.6:
            segs.append(rng.choice(SEGS))
        elif r < 0.8:
            segs.append("".join(rng.choice("ab./\\.é世 -_~") for _ in range(rng.randint(0, 4))))
        else:
            segs.append(rng.choice(["x.html", "%2e%2e", "..\\..", ".\\.", "‥", "a b"]))
    body = segs[0]
    for s in segs[1:]:
        body += rng.choice(SEPS + ["/./", "/../", "\\..\\"]) + s
    return rng.choice(LEAD) + body + rng.choice(TRAIL)


def nontrivial(u):
    return (".." in u) or ("\\" in u) or ("//" in u) or ("/./" in u) or u.startswith("./") or u.endswith("/.") \
        or u.endswith("/")


# --------------------------------------------------------------------------- implementation probes

class Probe:
    """calls into the real mako code with the file system and the compiler stubbed out"""

    def __init__(self):
        import mako.lookup as L
        import mako.template as T
        from mako import exceptions
        self.L, self.T, self.X = L, T, exceptions
        self.lookups = {}

    def lookup_for(self, d):
        lk = self.lookups.get(d)
        if lk is None:
            lk = self.lookups[d] = self.L.TemplateLookup(directories=[d])
        return lk

    def src(self, d, uri):
        """path probed by get_template(uri) for directory spelling d (None if no probe was made)"""
        lk = self.lookup_for(d)
        seen = []
        orig = self.L.os.path.isfile

        def fake(p):
            seen.append(p)
            return False
        self.L.os.path.isfile = fake
        try:
            try:
                lk.get_template(uri)
            except self.X.TopLevelLookupException:
                pass
        finally:
            self.L.os.path.isfile = orig
        return seen

    def check_and_modpath(self, moddir, uri, module_filename=None):
        """(accepted?, module path) of Template.__init__ for (uri, module_directory) – or, with module_filename
        (what a lookup built with modulename_callable passes), for (uri, module_filename)"""
        T = self.T
        rec = []
        orig = T.Template._compile_from_file

        def fake(self_, path, filename):
            rec.append(path)

            class M:
                render_body = staticmethod(lambda *a, **k: "")
            return M
        T.Template._compile_from_file = fake
        try:
            try:
                if module_filename is not None:
                    T.Template(filename="/nonexistent/src.html", uri=uri, module_filename=module_filename)
                else:
                    T.Template(filename="/nonexistent/src.html", uri=uri, module_directory=moddir)
            except self.X.TemplateLookupException:
                return False, None
        finally:
            T.Template._compile_from_file = orig
        return True, rec[0] if rec else None


HIST_POOL = ["root/index.html", "root/sub/page.html", "root/sub/deep/leaf.html", "root/..a/odd.html", "root2/other.html",
             "root2/index.html", "secret.txt", "rootx/index.html", "rootx/evil.html", "outside/evil.html"]
HIST_URIS = ["index.html", "/index.html", "//index.html", "sub/page.html", "/sub/../index.html", "sub\\page.html",
             "/sub/deep/../page.html", "other.html", "/./other.html", "sub/deep/leaf.html", "..a/odd.html", "",
             "../secret.txt", "/../rootx/index.html", "sub/../../rootx/evil.html", "..\\secret.txt",
             "/..//outside/evil.html", "\\..\\rootx\\evil.html", "sub/../../root/index.html", "/../root2/other.html",
             "sub/deep/../../../secret.txt", "/sub/..\\..\\secret.txt", "missing.html", "/sub/missing.html"]


def lookup_history(ctx, drv, st):
    from mako.lookup import TemplateLookup
    from mako import exceptions as X
    rng = ctx.rng
    nhist = 250 if ctx.quick else 4000
    base = os.path.realpath(tempfile.mkdtemp(prefix="c09h_"))
    try:
        reqs, reals, cases = [], [], []
        for hno in range(nhist):
            work = os.path.join(base, "h%d" % hno)
            dirsets = [["root"], ["root", "root2"], ["root/"], ["root/./sub/.."], ["root2", "root"], ["root//", "root2/."]]
            dirs = [os.path.join(work, d) for d in rng.choice(dirsets)]
            fs = rng.random() < 0.7
            files0 = [f for f in HIST_POOL if rng.random() < 0.6]
            for f in files0:
                fp = os.path.join(work, f)
                os.makedirs(os.path.dirname(fp), exist_ok=True)
                with open(fp, "w") as fh:
                    fh.write("x")
            for d in ("root", "root2"):
                os.makedirs(os.path.join(work, d), exist_ok=True)
            lk = TemplateLookup(directories=dirs, filesystem_checks=fs)
            ops, outs = [], []
            for _ in range(rng.randint(8, 28)):
                r = rng.random()
                if r < 0.5 or r < 0.65:
                    kind = "g" if r < 0.5 else "h"
                    uri = rng.choice(HIST_URIS) if rng.random() < 0.8 else attack_uri(rng, work)
                    if "\0" in uri:
                        continue
                    ops.append((kind, uri))
                    cached = uri in lk._collection
                    if kind == "h":
                        try:
                            outs.append("T" if lk.has_template(uri) else "F")
                        except Exception as e:          # noqa: BLE001 - reported as an outcome
                            outs.append("E:" + type(e).__name__)
                        ctx.branch("hist:has:" + outs[-1][:1])
                        continue
                    try:
                        t = lk.get_template(uri)
                        outs.append("S" + enc(t.filename))
                        ctx.branch("hist:get:served-" + ("hit" if cached else "fresh"))
                    except X.TopLevelLookupException:
                        outs.append("N")
                        ctx.branch("hist:get:not-found")
                    except X.TemplateLookupException:
                        outs.append("N" if cached else "R")
                        ctx.branch("hist:get:" + ("dropped-after-delete" if cached else "rejected"))
                    except Exception as e:              # noqa: BLE001
                        outs.append("E:" + type(e).__name__)
                        ctx.branch("hist:get:other-exception")
                else:
                    f = rng.choice(HIST_POOL)
                    fp = os.path.join(work, f)
                    if os.path.isfile(fp):
                        os.remove(fp)
                        ops.append(("d", fp))
                    else:
                        os.makedirs(os.path.dirname(fp), exist_ok=True)
                        with open(fp, "w") as fh:
                            fh.write("y")
                        ops.append(("a", fp))
                    outs.append("_")
            shutil.rmtree(work, ignore_errors=True)
            fl = [os.path.join(work, f) for f in files0]
            reqs.append("path hist %s %d %s %d %s %s" % (
                "1" if fs else "0", len(dirs), " ".join(enc(d) for d in dirs), len(fl), " ".join(enc(f) for f in fl),
                " ".join("%s %s" % (k, enc(a)) for k, a in ops)))
            reals.append(";".join(outs))
            cases.append({"dirs": [os.path.relpath(d, work) for d in dirs], "filesystem_checks": fs,
                          "files": files0, "ops": [[k, a.replace(work, "<base>")] for k, a in ops]})
        got = drv.ask_many([" ".join(r.split()) for r in reqs])
        for c, m, r in zip(cases, got, reals):
            st["cases"] += len(c["ops"])
            if m != r:
                ctx.disagree("corr.lookup_history", c, m, r)
            elif "S" in r and "R" in r:
                ctx.nontriv(("hist", r.count("S"), r.count("R"), r.count("N")))
    finally:
        shutil.rmtree(base, ignore_errors=True)


def corr(ctx):
    drv = ctx.driver()
    probe = Probe()
    k = 3 if ctx.quick else 4
    uris = list(enum_uris(k))
    ctx.log("corr: %d enumerated URIs (k=%d)" % (len(uris), k))
    nrand = 20000 if ctx.quick else 300000
    rnd = []
    while len(rnd) < nrand:
        u = random_uri(ctx.rng)
        if u:
            rnd.append(u)
    # (a1) pure functions vs posixpath ------------------------------------------------------------
    allu = uris + rnd
    reqs = ["path normpath " + enc(u) for u in allu]
    outs = drv.ask_many(reqs)
    st = ctx.stream("corr.normpath", exhaustive=False)
    for u, o in zip(allu, outs):
        st["cases"] += 1
        want = posixpath.normpath(u)
        if o != enc(want):
            ctx.disagree("corr.normpath", u, dec(o) if o[0].isdigit() or o == "-" else o, want)
    reqs = ["path dirname " + enc(u) for u in allu]
    outs = drv.ask_many(reqs)
    st = ctx.stream("corr.dirname")
    for u, o in zip(allu, outs):
        st["cases"] += 1
        want = posixpath.dirname(u)
        if o != enc(want):
            ctx.disagree("corr.dirname", u, o, want)
    # join on pairs
    pairs = [(ctx.rng.choice(allu), ctx.rng.choice(allu)) for _ in range(min(len(allu), 100000))]
    outs = drv.ask_many(["path join %s %s" % (enc(a), enc(b)) for a, b in pairs])
    st = ctx.stream("corr.join")
    for (a, b), o in zip(pairs, outs):
        st["cases"] += 1
        want = posixpath.join(a, b)
        if o != enc(want):
            ctx.disagree("corr.join", [a, b], o, want)

    # (a2) get_template's probed path, for every directory spelling ---------------------------------
    st = ctx.stream("corr.get_template_probe")
    dirs = DIRS
    for d in dirs:
        nd = posixpath.normpath(d)
        sub = allu if d in ("/srv/t", ".", "/") else allu[:: 7]
        outs = drv.ask_many(["path src %s %s" % (enc(nd), enc(u)) for u in sub])
        for u, o in zip(sub, outs):
            st["cases"] += 1
            seen = probe.src(d, u)
            if len(seen) != 1 or o != enc(seen[0]):
                ctx.disagree("corr.get_template_probe", {"dir": d, "input": u}, o, seen)
            if nontrivial(u):
                ctx.nontriv((d, u))
        ctx.branch("dir:" + d, len(sub))
    # the lookup stores normpath(d)
    st = ctx.stream("corr.dirs_normalised")
    for d in DIRS:
        st["cases"] += 1
        got = probe.lookup_for(d).directories
        o = drv.ask("path normpath " + enc(d))
        if [enc(x) for x in got] != [o]:
            ctx.disagree("corr.dirs_normalised", d, o, got)

    # (a3) Template.__init__: URI check and module path ----------------------------------------------
    st = ctx.stream("corr.template_check_modpath")
    # Template(uri='') takes the no-uri branch (module id and uri derived from the file name); the lookup never
    # constructs a Template for the empty uri (no file can match it), so it is outside this stream
    sub = [u for u in ((uris[:: 3] + rnd[:: 3]) if not ctx.quick else (uris[:: 5] + rnd[:: 5])) if u]
    mods = ["/var/mods", "mods/", "/var/./mods/../mods"]
    accepted = rejected = 0
    for m in mods:
        o1 = drv.ask_many(["path check " + enc(u) for u in sub])
        o2 = drv.ask_many(["path modpath %s %s" % (enc(m), enc(u)) for u in sub])
        cwd = os.getcwd()
        for u, c, mp in zip(sub, o1, o2):
            st["cases"] += 1
            ok, path = probe.check_and_modpath(m, u)
            if ok:
                accepted += 1
            else:
                rejected += 1
            if (c == "1") != ok:
                ctx.disagree("corr.template_check_modpath", {"input": u, "what": "check"}, c, ok)
            elif ok:
                want = posixpath.normpath(posixpath.join(cwd, dec(mp)))   # os.path.abspath
                if path != want:
                    ctx.disagree("corr.template_check_modpath", {"input": u, "moddir": m, "what": "modpath"}, want, path)
    # the same check when the module path is given outright (module_filename; a lookup with modulename_callable
    # constructs its templates this way): the model's templateCheck does not depend on how the module path is chosen
    o1 = drv.ask_many(["path check " + enc(u) for u in sub])
    for u, c in zip(sub, o1):
        st["cases"] += 1
        ok, path = probe.check_and_modpath(None, u, module_filename="/var/mods/given.py")
        if (c == "1") != ok:
            ctx.disagree("corr.template_check_modpath", {"input": u, "what": "check", "module_filename": True}, c, ok)
        elif ok and path != "/var/mods/given.py":
            ctx.disagree("corr.template_check_modpath", {"input": u, "what": "modpath", "module_filename": True},
                         "/var/mods/given.py", path)
        ctx.branch("check:module_filename:" + ("accepted" if ok else "rejected"))
    ctx.branch("check:accepted", accepted)
    ctx.branch("check:rejected", rejected)

    # (a4) adjust_uri ---------------------------------------------------------------------------------
    st = ctx.stream("corr.adjust_uri")
    lk = probe.L.TemplateLookup(directories=["/srv/t"])
    rels = [None, "/index.html", "/sub/page.html", "/sub/deep/x.html", "sub/page.html", "/", "//a/b", "/a//b/"] + rnd[:50]
    step = 11 if ctx.quick else 37
    sample = [""] + [u for u in (uris[:: step] + rnd[:: step]) if u]     # the empty uri too (total since the adjust_uri repair)
    reqs, cases = [], []
    for r in rels:
        for u in sample:
            reqs.append("path adjust %s %s" % (enc(u), "none" if r is None else enc(r)))
            cases.append((u, r))
    outs = drv.ask_many(reqs)
    for (u, r), o in zip(cases, outs):
        st["cases"] += 1
        lk._uri_cache.clear()
        want = lk.adjust_uri(u, r)
        if o != enc(want):
            ctx.disagree("corr.adjust_uri", {"input": u, "relativeto": r}, o, want)
    # (a5) the lookup as a state machine: histories of get_template / has_template interleaved with file creations and
    # deletions (inside and outside the directories), on a real directory tree; the model runs the same history
    st = ctx.stream("corr.lookup_history")
    lookup_history(ctx, drv, st)

    ctx.sample({"stream": "corr.get_template_probe", "dir": "/srv/t", "uri": "/sub//..\\../a../x",
                "model=impl": probe.src("/srv/t", "/sub//..\\../a../x")})


# --------------------------------------------------------------------------- oracle on a real tree

SECRET = "SECRET-7f3a"
_opened = []
_written = []      # files opened for writing / created while a case runs
_hook_on = [False]
_hook_installed = [False]


def _audit(event, args):
    if _hook_on[0] and event == "open" and args and isinstance(args[0], str):
        _opened.append(args[0])
        mode, flags = (args[1] if len(args) > 1 else None), (args[2] if len(args) > 2 else 0)
        if (isinstance(mode, str) and any(c in mode for c in "wax+")) or (
                isinstance(flags, int) and flags & (os.O_WRONLY | os.O_RDWR | os.O_CREAT)):
            _written.append(args[0])


def spec_escapes(caller_uri, uri):
    """the property's reading, written from its text: does `uri` - taken relative to the directory of the calling
    template's URI unless it starts with a slash - climb above the lookup root at any point?  (A path that dips above
    the root and comes back by naming a directory is outside too: the root's own name is not part of the URI space.)"""
    u = uri
    if caller_uri is not None and not u.startswith("/"):
        u = posixpath.dirname(caller_uri) + "/" + u
    depth = 0
    for c in u.replace("\\", "/").split("/"):
        if c in ("", "."):
            continue
        if c == "..":
            depth -= 1
            if depth < 0:
                return True
        else:
            depth += 1
    return False


def build_tree(base):
    def w(rel, txt):
        p = os.path.join(base, rel)
        os.makedirs(os.path.dirname(p), exist_ok=True)
        with open(p, "w") as f:
            f.write(txt)
    w("secret.txt", SECRET + " top\n")
    w("outside/evil.html", SECRET + " outside\n")
    w("rootx/evil.html", SECRET + " sibling\n")
    w("rootx/index.html", SECRET + " sibling index\n")
    w("root/index.html", "root index\n")
    w("root/sub/page.html", "root sub page\n")
    w("root/sub/deep/leaf.html", "root leaf\n")
    w("root/..a/odd.html", "odd dir\n")
    w("root2/other.html", "root2 other\n")
    w("root2/index.html", "root2 index (shadowed)\n")
    # callers that include / inherit / import whatever URI they are given, at several depths
    for rel in ("root/call.html", "root/sub/call.html", "root/sub/deep/call.html", "root2/call2.html"):
        w(rel, "[inc:<%include file=\"${target}\"/>]")
    for rel in ("root/ns.html", "root/sub/deep/ns.html"):
        w(rel, "<%namespace name=\"n\" file=\"${context['target']}\"/>[ns:${n.body()}]")
    for rel in ("root/inh.html", "root/sub/inh.html"):
        w(rel, "<%inherit file=\"${context['target']}\"/>[inh]")
    for rel in ("root/api.html", "root/sub/deep/api.html"):
        w(rel, "[api:${local.get_template(target).render()}${local.get_namespace(target).body() and ''}]")
    os.makedirs(os.path.join(base, "mods"), exist_ok=True)


def snapshot(base):
    res = set()
    for root, dirs, files in os.walk(base):
        for f in files:
            res.add(os.path.relpath(os.path.join(root, f), base))
    return res


ATTACK_SEGS = ["..", ".", "", "sub", "deep", "index.html", "page.html", "leaf.html", "secret.txt", "root", "rootx",
               "root2", "outside", "evil.html", "other.html", "..a", "odd.html", "mods", "..\\..", "call.html"]


def attack_uri(rng, base):
    n = rng.randint(1, 7)
    segs = [rng.choice(ATTACK_SEGS) for _ in range(n)]
    # bias: climb then descend into a sibling
    if rng.random() < 0.5:
        up = [".."] * rng.randint(1, 4)
        tail = rng.choice([["secret.txt"], ["rootx", "evil.html"], ["outside", "evil.html"], ["root", "index.html"],
                           ["rootx", "index.html"], ["root2", "other.html"]])
        mid = [rng.choice(["sub", "deep", ".", ""])] * rng.randint(0, 2)
        segs = mid + up + tail
    body = segs[0]
    for s in segs[1:]:
        body += rng.choice(["/", "/", "//", "\\", "/./"]) + s
    if rng.random() < 0.1:
        body = base + "/" + rng.choice(["secret.txt", "rootx/evil.html", "outside/evil.html"])   # absolute file names
    return rng.choice(["", "/", "/", "//", "\\", "///"]) + body


VALID_TARGETS = [["index.html"], ["sub", "page.html"], ["sub", "deep", "leaf.html"], ["..a", "odd.html"]]


def detour_uri(rng):
    """a URI that resolves INSIDE the root to an existing file, spelled with detours (k names then k '..')
    whose separators are a random mix of slash and backslash - accepted URIs whose module path must stay below
    module_directory as well"""
    target = rng.choice(VALID_TARGETS)
    out = []
    for comp in target:
        while rng.random() < 0.6:
            k = rng.randint(1, 3)
            names = [rng.choice(["sub", "deep", "x", "..a"]) for _ in range(k)]
            out.append(("name", names))
        out.append(("comp", comp))
    parts = []
    for kind, v in out:
        if kind == "comp":
            parts.append(v)
        else:
            parts.extend(v)
            parts.extend([".."] * len(v))
    body = parts[0]
    for s in parts[1:]:
        body += rng.choice(["/", "\\", "/", "\\", "//", "/./"]) + s
    return rng.choice(["", "/", "\\", "//"]) + body


def overclimb_uri(rng):
    """a RELATIVE URI that climbs above the root - by more than any caller is deep - and then names a file that
    exists INSIDE the root: it must be refused (it leaves the root on the way), and a lookup that clamps the climb at
    the root would serve the in-root file instead"""
    target = rng.choice(VALID_TARGETS)
    sep = lambda: rng.choice(["/", "/", "\\", "//", "/./"])          # noqa: E731
    body = ""
    if rng.random() < 0.4:
        body += rng.choice(["sub", "x", "..a"]) + sep()
        climbs = rng.randint(4, 7)
    else:
        climbs = rng.randint(3, 6)
    for _ in range(climbs):
        body += ".." + sep()
    return body + sep().join(target) if rng.random() < 0.5 else body + "/".join(target)


def _inside(p, tops):
    rp = os.path.realpath(p)
    return any(rp.startswith(os.path.realpath(t) + os.sep) for t in tops)

def _check_case(base, dirs, md, how, uri):
    """returns None if fine, else a description; `md` is None, a directory, or ("callable", dir)"""
    from mako.lookup import TemplateLookup
    from mako.template import Template
    from mako import exceptions as X
    if not _hook_installed[0]:
        sys.addaudithook(_audit)
        _hook_installed[0] = True
    roots = [os.path.join(base, "root"), os.path.join(base, "root2")]
    mods = os.path.join(base, "mods")
    allowed_read = [r + os.sep for r in roots] + [mods + os.sep]
    if isinstance(md, tuple):
        def namer(filename, uri, _m=md[1]):
            return os.path.join(_m, "cb", "%08x.py" % (zlib.crc32(filename.encode()) & 0xffffffff))
        lk = TemplateLookup(directories=dirs, modulename_callable=namer)
        md = md[1]
    else:
        lk = TemplateLookup(directories=dirs, module_directory=md)
    _opened.clear()
    _written.clear()
    _hook_on[0] = True
    out = None
    t = None
    has_said_yes = False
    try:
        try:
            if how == "get":
                t = lk.get_template(uri)
                out = t.render()
            elif how == "has":
                if lk.has_template(uri):
                    has_said_yes = True
                    t = lk.get_template(uri)
            elif how == "template":
                # direct construction with a uri: the file name is the attacker-resolved path
                fn = posixpath.normpath(posixpath.join(dirs[0], uri.replace("\\", "/").lstrip("/")))
                if os.path.isfile(fn):
                    t = Template(filename=fn, uri=uri, module_directory=md, lookup=lk)
                    # such a template is inside a root iff the uri check passed *and* fn is inside: check below
            else:
                caller = lk.get_template(how)
                out = caller.render(target=uri)
        except (X.TemplateLookupException,):
            pass
        except (X.CompileException, X.SyntaxException, IndexError, TypeError, AttributeError, ValueError, OSError, RecursionError):
            # unrelated failures of odd URIs (e.g. '' -> IndexError in adjust_uri, NUL in path):
            # not a containment matter; outputs are still checked below
            pass
    finally:
        _hook_on[0] = False
    if out is not None and SECRET in out:
        return "secret content reached the output"
    if has_said_yes and t is None:
        return "has_template answered True for a URI that get_template refuses"
    # the property text directly: a URI that resolves outside the directories raises TemplateLookupException
    if how != "template" and spec_escapes(None if how in ("get", "has") else how, uri):
        if out is not None or t is not None or has_said_yes:
            return "a URI that climbs above the lookup root did not raise TemplateLookupException (%s)" % (
                "rendered %r" % out[:60] if out is not None else "template returned")
    # generated module files (and their temporary files) are created only beneath module_directory
    for p in _written:
        ap = os.path.realpath(os.path.abspath(p))
        if md is None or not ap.startswith(os.path.realpath(mods) + os.sep):
            return "file opened for writing outside module_directory: %s" % ap
    if t is not None and how != "template" and t.filename is not None and not _inside(t.filename, roots):
        return "template file %s outside the roots" % t.filename
    if how == "template" and t is not None and not _inside(t.filename, roots):
        return "Template(uri=%r) accepted a file outside the roots: %s" % (uri, t.filename)
    for p in _opened:
        ap = os.path.realpath(os.path.abspath(p))
        if ap.startswith(base + os.sep) and not any(ap.startswith(a) for a in allowed_read):
            return "opened %s (outside roots)" % ap
    return None



def oracle(ctx):
    from mako.lookup import TemplateLookup
    from mako.template import Template
    from mako import exceptions as X
    if not _hook_installed[0]:
        sys.addaudithook(_audit)
        _hook_installed[0] = True
    base = os.path.realpath(tempfile.mkdtemp(prefix="c09_"))
    try:
        build_tree(base)
        before = snapshot(base)
        roots = [os.path.join(base, "root"), os.path.join(base, "root2")]
        mods = os.path.join(base, "mods")
        configs = []
        for dirs in ([roots[0]], roots, [roots[0] + "/"], [base + "/root/./sub/.."], [roots[0] + "//", roots[1]]):
            for md in (None, mods):
                configs.append((dirs, md))
        # lookups that choose the module path themselves (modulename_callable -> Template(module_filename=...))
        configs.append(([roots[0]], ("callable", mods)))
        configs.append((roots, ("callable", mods)))
        n = 1500 if ctx.quick else 40000
        uris = [attack_uri(ctx.rng, base) for _ in range(n)]
        uris += [detour_uri(ctx.rng) for _ in range(n // 2)]
        uris += [overclimb_uri(ctx.rng) for _ in range(n // 3)]
        # plus a slice of the exhaustive enumeration with real names substituted
        # (a -> index.html, a.. -> rootx, ..a kept: names that exist in the tree)
        for u in itertools.islice(enum_uris(3), 0, None, 37 if ctx.quick else 3):
            uris.append(u.replace("a..", "rootx").replace("..a", "\0").replace("a", "index.html").replace("\0", "..a"))
        st = ctx.stream("oracle.tree", "oracle")
        allowed_read = [r + os.sep for r in roots] + [mods + os.sep]

        inside = _inside
        check_case = lambda dirs, md, how, uri: _check_case(base, dirs, md, how, uri)

        hows = ["get", "has", "template", "/call.html", "/sub/call.html", "/sub/deep/call.html", "/ns.html",
                "/sub/deep/ns.html", "/inh.html", "/sub/inh.html", "/api.html", "/sub/deep/api.html"]
        seen_stray = set()
        for i, uri in enumerate(uris):
            dirs, md = configs[i % len(configs)]
            how = hows[(i // len(configs)) % len(hows)] if i % 3 else "get"
            st["cases"] += 1
            ctx.branch("oracle:how:" + (how if how in ("get", "has", "template") else "from-template"))
            bad = check_case(dirs, md, how, uri)
            if not bad and md:
                now = {f for f in snapshot(base) - before if not f.startswith("mods" + os.sep)} - seen_stray
                if now:
                    seen_stray.update(now)
                    bad = "module file created outside module_directory: %s" % sorted(now)[:3]
                    ctx.violation("module-file-outside-module-directory",
                                  {"input": uri, "dirs": [os.path.relpath(d, base) for d in dirs],
                                   "module_directory": True, "how": how, "files": sorted(now)[:3]}, bad, "oracle.tree")
                    continue
            if bad:
                small = shrink_str(uri, lambda u: check_case(dirs, md, how, u) is not None, 300)
                ctx.violation("lookup-escape", {"input": small, "dirs": [os.path.relpath(d, base) for d in dirs],
                                                "module_directory": bool(md), "how": how,
                                                "modulename_callable": isinstance(md, tuple)}, bad, "oracle.tree")
                if len(ctx.violations) > 5:
                    break
        # a module directory shared with a lookup over ANOTHER root (outside this lookup's directories): a module
        # file generated there for the same URI, not older than this lookup's own source, must not be served
        st2 = ctx.stream("oracle.shared_module_directory", "oracle")
        for uri, how in (("index.html", "get"), ("/index.html", "/call.html"), ("index.html", "/sub/deep/call.html")):
            st2["cases"] += 1
            shared = os.path.join(base, "mods_shared_%d" % st2["cases"])
            os.makedirs(shared, exist_ok=True)
            try:
                old = 1_000_000_000
                os.utime(os.path.join(base, "root", "index.html"), (old, old))
                other = TemplateLookup(directories=[os.path.join(base, "rootx")], module_directory=shared)
                other.get_template("index.html").render()
                lk = TemplateLookup(directories=[roots[0]], module_directory=shared)
                if how == "get":
                    t = lk.get_template(uri)
                    out = t.render()
                    fn = t.filename
                else:
                    out = lk.get_template(how).render(target=uri)
                    fn = None
                if SECRET in out or (fn is not None and not inside(fn, roots)):
                    ctx.violation("lookup-escape", {"input": uri, "dirs": ["root"], "module_directory": True, "how": how,
                                                    "shared_module_directory_with": "rootx"},
                                  "content of a file outside the lookup's directories reached the output through a "
                                  "module file generated by another lookup sharing module_directory: %r" % out[:80],
                                  "oracle.shared_module_directory")
            except (X.TemplateLookupException,):
                pass
            finally:
                shutil.rmtree(shared, ignore_errors=True)
        after = snapshot(base)
        created = {f for f in after - before}
        stray = [f for f in created if not f.startswith("mods" + os.sep) and f not in seen_stray]
        ctx.stream("oracle.created_files", "oracle")["cases"] += len(created) + 1
        if stray:
            ctx.violation("module-file-outside-module-directory", {"files": sorted(stray)[:10]},
                          "files created outside module_directory", "oracle.created_files")
        ctx.branch("oracle:module_files_created", len(created))
        ctx.sample({"stream": "oracle.tree", "uri": uris[0], "config": [os.path.relpath(d, base) for d in configs[0][0]]})
    finally:
        _hook_on[0] = False
        shutil.rmtree(base, ignore_errors=True)


def run(ctx):
    try:
        corr(ctx)
    finally:
        oracle(ctx)


def replay(ctx, data):
    """re-run the recorded case on the implementation (oracle) and on the model"""
    case = data.get("case") or (data.get("first_disagreements") or [{}])[0].get("case")
    print("replaying", case)
    if isinstance(case, dict) and "how" in case:
        c = type(ctx)(ctx.pid, "quick", data.get("seed", 0))
        # rebuild the tree and run exactly this case
        from mako.lookup import TemplateLookup
        base = os.path.realpath(tempfile.mkdtemp(prefix="c09r_"))
        try:
            build_tree(base)
            dirs = [os.path.join(base, d) for d in case["dirs"]]
            mods = os.path.join(base, "mods")
            md = ("callable", mods) if case.get("modulename_callable") else (mods if case["module_directory"] else None)
            if case.get("shared_module_directory_with") or case.get("files"):
                print("(scenario case: re-run the check to reproduce)")
                return False
            bad = _check_case(base, dirs, md, case["how"], case["input"])
            print("implementation:", bad or "contained")
            return bad is None
        finally:
            shutil.rmtree(base, ignore_errors=True)
    if isinstance(case, (str, dict)):
        u = case if isinstance(case, str) else case.get("input")
        d = case.get("dir", "/srv/t") if isinstance(case, dict) else "/srv/t"
        print("impl probe:", Probe().src(d, u))
        print("model     :", dec(ctx.driver().ask("path src %s %s" % (enc(posixpath.normpath(d)), enc(u)))))
        return False
    return False


DRIVER_OPS = ["path"]   # per-area driver executable(s) this check talks to (built before any worker is forked)
