"""C04 - names resolve through scopes, module, imports, context, builtins, UNDEFINED; context isolation;
reserved names.

corr  : the Lean model of `_Identifiers` + `write_variable_declares` + `__M_locals` (driver op `names`) against the
        real code generator: for every generated function of a template the SET of declaration statements read out
        of `Template.code` with `ast` (context fetches in their four shapes, namespace fetches, def stubs with /
        without `context._locals(__M_locals)`, inline defs, `loop`, `__M_locals` keys), separately their ORDER and the
        key lists of every `__M_locals.update(...)`, the reserved-name verdict, and the value every read site observes
        at render time against the model's resolution.  `Context` operations (`_locals/_copy/
        _clean_inheritance_tokens/kwargs`) against the heap model; the render entry forms against `renderEntry`.
oracle: no Lean: a reference interpreter of the generator's tree (harness/c04_gen.py `Reference`, the resolution
        order of the property text) predicts the marker every read site must observe; the caller's dict and
        `context.kwargs` are deep-compared around every render; context entries of every falsy / None value must stay
        bound; reserved names at every render entry form (fresh / reused / running context, include args) and in every
        binding form; Python statement forms in a `<% %>` block against native execution.
"""
from __future__ import annotations

import copy
import io
import re
import traceback

from harness.common import enc, dec
from harness import c04_gen as G, c04_model as Mo, c04_cases as Cs

REGEN = ["Names"]
RULE = ("templates are generated from a tree with ground truth: probe names bound at one of 13 sites {context, page arg, "
        "page arg reassigned by a body <% %> block (once / twice / inside a control block), body <% %> assignment, def "
        "argument, enclosing-def local, loop target (body / def), module-level <%! %>, imported def, builtin, nowhere} "
        "(x the name is also in the context or not) and read at one of 16 placements of the 9 read sites {body, "
        "top-level def, nested def, anonymous block, named block, call body, control line, tag attribute, filter} "
        "hosted in the body or in a top-level def, x strict_undefined x an unrelated <%namespace import> present: "
        "exhaustive (1664 templates); the same product with the probe NAMED `loop`, read inside a `% for` over another target: "
        "loop context off (every binding site but builtin), on and re-enabled by <%page enable_loop> (bound nowhere) - 832 "
        "templates; random combinations of 2-4 probes with 1-3 placements each (shrunk by ddmin over "
        "the probes); 30 extended cases (+3 strict-only; bindings inside blocks / call bodies, defs of a <%call>, reassignment between "
        "calls, comprehension variables, def parameters) x strict x ns-import; context entries bound to None / 0 / '' / "
        "[] / False / UNDEFINED / 's' under the keys x, id, len, read implicitly in five kinds of scope and through "
        "context['k'] / context.get / keys / kwargs; reserved names in 40 binding forms x 4 names x 3 loop "
        "configurations and at 14 render entry forms; 45 Python statement forms in a <% %> block vs native execution; "
        "Context operation sequences (_locals/_copy/_clean_inheritance_tokens/kwargs); 8 context.kwargs templates; "
        "random scope trees over a 6-name pool for the declaration sets (structure only). Every binding site writes a "
        "distinct marker; a case is non-trivial when at least one read site observes something else than UNDEFINED; "
        "distinct = distinct (template source, data keys, strict)")
ASSUMPTIONS = [
    "Python's own scoping of the emitted code (closures, locals()) is assumed, validated by running the generated module",
    "per-construct (declared, undeclared) identifier sets come from mako's own parse nodes (pyparser.FindIdentifiers is C19's subject); so does the set of `% for` lines whose suite mentions `loop` (codegen.LoopVariable)",
    "templates do not use names starting with __M_ / _mako_ / _import_ns nor the generated module's own globals (runtime, filters, cache, render_*)",
    "<%namespace> tags with inline defs, <%page args=\"**kw\">, cached defs (the `limit` argument) and defs inside control blocks of a <%call> are outside the modelled fragment",
    "a <%call> body executes once, in place (the callee calls caller.body() exactly once)",
    "two <%def>s of the same name in one template (the later silently replaces the earlier in topleveldefs / closuredefs) are not modelled",
]
TRUSTED_EXTRA = ["C04: the reference interpreter harness/c04_gen.py (Reference) is the executable reading of the property text"]


def ask_many(ctx, lines):
    return ctx.driver().ask_many(lines)


PER_SITE = 3
_site_count = {}


def violation(ctx, site, case, detail, stream):
    """at most PER_SITE reports per site, so that a recorded finding cannot crowd out a new one"""
    _site_count[site] = _site_count.get(site, 0) + 1
    ctx.branch("violation-site:" + site)
    if _site_count[site] <= PER_SITE:
        ctx.violation(site, case, detail, stream)


# --------------------------------------------------------------------------- one template through mako and the model

class Case:
    def __init__(self, desc, t, data, strict, enable_loop=True, kind="product", site=None):
        self.desc, self.t, self.data, self.strict, self.enable_loop, self.kind = desc, t, data, strict, enable_loop, kind
        self.site = site
        self.src = t.src() if hasattr(t, "src") else t
        self.lib = t.lib_src() if hasattr(t, "lib_src") else "<%def name=\"libdef()\"></%def>"

    def key(self):
        return {"input": self.src, "data": sorted(self.data), "strict": self.strict, "enable_loop": self.enable_loop,
                "loop_context": "enabled" if (self.enable_loop or getattr(self.t, "page_enable_loop", False)) else "disabled",
                "desc": self.desc}


_uri = [0]


def make_lookup(case):
    """every template gets its own URI: `Template.code` is looked up through a registry keyed by the module name"""
    from mako.lookup import TemplateLookup
    _uri[0] += 1
    case.uri = "/t%d.html" % _uri[0]
    lk = TemplateLookup(imports=G.IMPORTS, strict_undefined=case.strict, enable_loop=case.enable_loop)
    lk.put_string("/lib.html", case.lib)
    lk.put_string("/inc.html", "")
    lk.put_string(case.uri, case.src)
    return lk


def compile_case(case):
    """-> (template or None, compile exception or None)"""
    try:
        lk = make_lookup(case)
        return lk.get_template(case.uri), None
    except Exception as e:     # noqa: BLE001 - the class is what is compared
        return None, e


def render_case(tmpl, case):
    """-> (records, exception or None, data unchanged?, kwargs seen == given?)"""
    del G.RECORDS[:]
    data = dict(case.data)
    before = dict(data)
    seen = {}

    def probe_kwargs(context):
        seen["kw"] = context.kwargs
        seen["kw2"] = context.kwargs
        return ""
    exc = None
    try:
        tmpl.render(**data)
    except Exception as e:     # noqa: BLE001
        exc = e
    return list(G.RECORDS), exc, (data == before and list(data) == list(before)), seen


def exc_class(e):
    if e is None:
        return None
    return type(e).__name__


STRICT_MSG = re.compile(r"^'([^']+)' is not defined$")
PY_NAME = re.compile(r"^name '([^']+)' is not defined$")
PY_UNBOUND = re.compile(r"^cannot access (?:local|free) variable '([^']+)'")


def builtin_names():
    import builtins
    return [n for n in dir(builtins)]


def lib_exports(case):
    return re.findall(r'<%def name="(\w+)\(', case.lib)


# --------------------------------------------------------------------------- corr: structure

def compare_structure(ctx, stream, case, tmpl, full):
    """declaration sets per generated function: model vs Template.code"""
    ms = Mo.align_ccalls(full["scopes"])
    cs = Mo.analyse_code(tmpl.code)
    ok = True
    if set(ms) != set(cs):
        ctx.disagree(stream, case.key(), {"functions": sorted(map(str, ms))}, {"functions": sorted(map(str, cs))})
        return False
    want_shape = {(False, False): "plain", (True, False): "import", (False, True): "strict", (True, True): "import-strict"}
    for p, c in cs.items():
        m = ms[p]
        ctx.branch("scope:" + m["kind"])
        for k in set(c.decls.values()):
            ctx.branch("decl:" + k)
        impl = {"decls": c.decls, "loop": c.loop, "mlocals": c.mlocals}
        model = {"decls": m["decls"], "loop": m["loop"], "mlocals": m["mlocals"]}
        if impl != model:          # the SETS of declarations (order-insensitive)
            ctx.disagree(stream, dict(case.key(), function=str(p)), model, impl)
            ok = False
        elif list(c.decls) != m["order"] or (c.mlocals_order or None) != m["mlocals_order"]:
            # the ORDER (sorted since the hash-seed repair): reported separately from the sets
            ctx.branch("decl-order:differs")
            ctx.disagree(stream, dict(case.key(), function=str(p), what="declaration order"),
                         {"order": m["order"], "mlocals": m["mlocals_order"]}, {"order": list(c.decls), "mlocals": c.mlocals_order})
            ok = False
        else:
            ctx.branch("decl-order:same")
        # the key lists copied into __M_locals after each <% %> block of the function
        if (m["updates"] or []) != c.updates:
            ctx.disagree(stream, dict(case.key(), function=str(p), what="__M_locals.update key lists"), m["updates"], c.updates)
            ok = False
        elif c.updates:
            ctx.branch("mlocals-update-lists:same", len(c.updates))
        if c.odd or c.dups or c.after_writer:
            ctx.disagree(stream, dict(case.key(), function=str(p)), "prelude of fetches / stubs / inline defs, each name once, "
                         "before __M_writer", {"not understood": c.odd, "twice": c.dups, "after writer": c.after_writer})
            ok = False
        has_imp = "_import_ns = {}" in tmpl.code
        if c.shapes and c.shapes != {want_shape[(has_imp, case.strict)]}:
            ctx.disagree(stream, dict(case.key(), function=str(p)), want_shape[(has_imp, case.strict)], sorted(c.shapes))
            ok = False
        if m["toplevel"] and has_imp != c.importns:
            ctx.disagree(stream, dict(case.key(), function=str(p)), {"_import_ns": has_imp}, {"_import_ns": c.importns})
            ok = False
    return ok


# --------------------------------------------------------------------------- corr: behaviour

PARAM_PREFIX = ("PAGE", "ARG", "CARG", "CTX", "DFLT")


def marker_id(obs):
    m = re.match(r"^([A-Z]+\d+):", obs)
    return m.group(1) if m else None


def check_value(pred, obs, x, e, ml_vals):
    """is the observation compatible with the model's resolution `pred` (encSVal of the generated code's resolution)"""
    if pred == "ctx":
        return obs == "CONTEXT"
    m = re.match(r"^c(\d+)\.(p|i|a)(.*)$", pred)
    if m:
        k, rest = m.group(2), m.group(3)
        if k == "p":
            # a parameter cell; it may have been assigned again by the function's own code (ASG…/LOOP… markers) - which
            # value it holds at the read is the reference interpreter's business (oracle)
            return obs.startswith(PARAM_PREFIX + ("ASG", "LOOP")) or obs in ("DICT", "NS", "UNDEF")
        if k == "i":
            return obs == "DEF:" + x
        tags = {int(t) for t in rest.split("_") if t}
        mid = marker_id(obs)
        if mid is None:      # a value computed by raw Python code, not a marker
            return obs.startswith(("OTHER:", "DEF:"))
        return e.mark_tag.get(mid) in tags
    if pred == "g":
        return obs.startswith("MOD") or (x == "UNDEFINED" and obs == "UNDEF") or obs.startswith("OTHER")
    if pred == "l":
        return obs == "LOOPCTX"
    if pred == "s":
        return obs == "DEF:" + x
    if pred == "n":
        return obs == "NS"
    if pred == "vo1":
        return obs.startswith("IMPORT:")
    if pred == "vo2":
        if not ml_vals:
            return obs == "CTX:" + x
        # the overlay of __M_locals: the value of a <% %> assignment / page argument of the body
        mid = marker_id(obs)
        for v in ml_vals:
            if v == "a" and (obs.startswith(PARAM_PREFIX) or obs == "DICT"):
                return True
            if v.startswith("t") and mid is not None and e.mark_tag.get(mid) == int(v[1:]):
                return True
        return False
    if pred == "vo3":
        return obs == "BUILTIN"
    if pred == "vU":
        return obs == "UNDEF"
    return False


def compare_behaviour(ctx, stream, case, e, full, records, exc):
    ms = full["scopes"]
    ok = True
    cur_stop = None
    for sid, obs in records:
        tag = e.sid_tag.get(sid)
        path = e.scope_of.get(tag)
        sc = ms.get(path)
        if obs == "CALL":
            # a call by name: from the body function nest the callee's context is context._locals(__M_locals)
            # (only where the stub the callee name resolves to passes it: `def f(): return render_f(context._locals(__M_locals))`)
            if path is not None and path[0] == "render_body":
                m = re.search(r"S__\(%d, None, (\w+)\)" % sid, getattr(e.tags.get(tag), "text", "") or "")
                r = sc["res"].get(m.group(1)) if (m and sc) else None
                if r is not None and r[0].endswith(".s1"):
                    cur_stop = tag
                elif r is not None and r[0].endswith(".s0"):
                    cur_stop = None
            continue
        name = case.sites[sid][0] if getattr(case, "sites", None) and sid in case.sites else None
        if sc is None or name is None or name not in sc["res"]:
            ctx.disagree(stream, dict(case.key(), sid=sid), "a scope with a resolution for the read", {"path": str(path), "name": name})
            ok = False
            continue
        impl, val, spec = sc["res"][name]
        ctx.branch("res:" + re.sub(r"\d+", "", val))
        # a name fetched from the context inside a def called by name from the body: __M_locals is overlaid
        ml_vals = set()
        top_kind = ms.get((path[0],), {}).get("kind")
        if top_kind == "topDef" and cur_stop in full["ml"] and re.match(r"^c\d+\.f$", impl) and val != "vo1":
            found, vals, _sf, _sv = full["ml"][cur_stop]
            if name in vals:
                ml_vals = {vals[name]}
                val = "vo2"
        if not check_value(val, obs, name, e, ml_vals):
            ctx.disagree(stream, dict(case.key(), sid=sid, name=name, function=str(path)), {"resolution": impl, "value": val}, obs)
            ok = False
    if exc is not None:
        msg = str(exc)
        preds = {(n, r[1]) for sc in ms.values() for n, r in sc["res"].items()}
        m1, m2, m3 = STRICT_MSG.match(msg), PY_NAME.match(msg), PY_UNBOUND.match(msg)
        if isinstance(exc, NameError) and m2 and m2.group(1) == "__M_loop":
            # a `% for` rewritten to use __M_loop in a function that never creates it
            good = any(sc["for_errors"] for sc in ms.values())
        elif isinstance(exc, NameError) and m1:
            good = (m1.group(1), "E") in preds
        elif isinstance(exc, NameError) and m2:
            good = any(n == m2.group(1) and (v == "Y" or re.match(r"^c\d+\.a", v)) for n, v in preds) \
                or any(m2.group(1) in sc["entry_errors"] for sc in ms.values())
        elif isinstance(exc, NameError) and m3:
            good = any(n == m3.group(1) and re.match(r"^c\d+\.a", v) for n, v in preds)
        else:
            good = False
        ctx.branch("render-exc:" + type(exc).__name__)
        if not good:
            ctx.disagree(stream, case.key(), "no exception / a NameError the model accounts for", "%s: %s" % (type(exc).__name__, msg[:120]))
            ok = False
    elif any(sc["for_errors"] for sc in ms.values()):
        ctx.disagree(stream, case.key(), {"NameError __M_loop at the % for lines": [sc["for_errors"] for sc in ms.values() if sc["for_errors"]]},
                     "rendered without exception")
        ok = False
    return ok


# --------------------------------------------------------------------------- oracle: reference interpreter

def reference_run(case):
    ref = G.Reference(case.t, case.data_tags, case.strict)
    exc = None
    try:
        ref.run()
    except G.StrictNameError as ex:
        exc = ("NameError", str(ex))
    except G.Unbound as ex:
        exc = ("Unbound", str(ex))
    return ref.records, exc


def classify_violation(case, sid, want, got):
    """a stable site name for a value mismatch, from the ground truth of the generator"""
    if case.site:
        return case.site
    if sid is not None and sid in case.sites:
        name, site, host, binding = case.sites[sid]
        return "resolve:%s>%s@%s" % (binding, site, host)
    return "resolve:" + case.kind


def shrink_random(case):
    """smallest sub-combination of probes (ddmin) on which the reference and mako still differ"""
    from harness.common import ddmin
    probes = case.desc["probes"]

    def differs(sub):
        if not sub:
            return False
        c = mk_case(dict(case.desc, probes=sub), Cs.build_from_desc({"probes": sub}), case.strict, case.desc.get("ns_import", False), "random")
        tmpl, cexc = compile_case(c)
        if tmpl is None:
            return False
        records, exc, _u, _s = render_case(tmpl, c)
        want, wexc = reference_run(c)
        if wexc is None and exc is None:
            return records != want
        if wexc is not None and wexc[0] == "NameError":
            return not (isinstance(exc, NameError) and STRICT_MSG.match(str(exc)) and records == want[:len(records)])
        if wexc is not None:
            return not isinstance(exc, NameError)
        return True
    small = ddmin(probes, differs, 200)
    if small and small != probes and differs(small):
        return mk_case(dict(case.desc, probes=small), Cs.build_from_desc({"probes": small}), case.strict, case.desc.get("ns_import", False), "random")
    return case


def oracle_compare(ctx, stream, case, records, exc, shrunk=False):
    if case.kind == "random" and not shrunk:
        want0, wexc0 = reference_run(case)
        bad = (wexc0 is None and exc is None and records != want0) or (wexc0 is None) != (exc is None)
        if bad:
            small = shrink_random(case)
            if small is not case:
                tmpl, _ = compile_case(small)
                r2, e2, _u, _s = render_case(tmpl, small)
                return oracle_compare(ctx, stream, small, r2, e2, True)
    want, wexc = reference_run(case)
    got = [(s, o) for s, o in records]
    if wexc is None and exc is None:
        if got != want:
            d = next((i for i in range(min(len(got), len(want))) if got[i] != want[i]), min(len(got), len(want)))
            sid = (got[d][0] if d < len(got) else want[d][0])
            violation(ctx, classify_violation(case, sid, want, got), case.key(),
                          {"expected": want[d:d + 3], "observed": got[d:d + 3]}, stream)
            return False
        return True
    if wexc is not None and wexc[0] == "NameError":
        # strict: an immediate NameError naming a missing variable; mako raises at the entry of the function that
        # fetches the name, the reference at the read - so the observed records must be a prefix of the expected ones
        missing = wexc[1]
        if not (isinstance(exc, NameError) and STRICT_MSG.match(str(exc))):
            violation(ctx, classify_violation(case, None, want, got) if case.site else "strict-missing-not-raised", case.key(),
                          {"expected": "NameError(%s)" % missing, "observed": "%s: %s" % (exc_class(exc), str(exc)[:100]), "records": got[-3:]}, stream)
            return False
        if got != want[:len(got)]:
            violation(ctx, classify_violation(case, None, want, got), case.key(), {"expected-prefix": want[:len(got)], "observed": got}, stream)
            return False
        return True
    if wexc is not None and wexc[0] == "Unbound":
        if isinstance(exc, NameError) and got == want[:len(got)]:
            return True
        violation(ctx, classify_violation(case, None, want, got), case.key(),
                      {"expected": "unbound local %s" % wexc[1], "observed": "%s: %s" % (exc_class(exc), str(exc)[:100])}, stream)
        return False
    # the reference completes but mako raised
    sid = want[len(got)][0] if len(got) < len(want) else None
    site = classify_violation(case, sid, want, got)
    if isinstance(exc, NameError) and STRICT_MSG.match(str(exc)) and not case.site:
        site = "strict-raised-for-bound-name"
    if isinstance(exc, NameError) and str(exc) == "name '__M_loop' is not defined":
        site = "for-rewritten-without-__M_loop"
    violation(ctx, site, case.key(), {"expected": want[len(got):len(got) + 3], "observed": "%s: %s" % (exc_class(exc), str(exc)[:120])}, stream)
    return False


# --------------------------------------------------------------------------- running a list of cases

def run_cases(ctx, cases, cstream, ostream):
    drv = ctx.driver()
    bi = builtin_names()
    st_c = ctx.stream(cstream)
    st_o = None      # the oracle stream is registered only when a case of this list is rendered
    prepared = []
    reqs = []
    for case in cases:
        tmpl, cexc = compile_case(case)
        try:
            e = Mo.encode_template(case.src, G.IMPORTS, loop_enabled=case.enable_loop)
        except Exception as ex:      # noqa: BLE001 - lexer-level failure: nothing to model
            prepared.append((case, tmpl, cexc, None))
            ctx.branch("lex-exc:" + type(ex).__name__)
            continue
        stops = sorted({e.sid_tag[s] for s in e.sid_tag})
        # call sites of top-level defs: every expression node of the body function nest
        stops = sorted({t for t, p in e.scope_of.items() if p[0] == "render_body"})
        imps = lib_exports(case) if getattr(case.t, "import_star", False) else list(getattr(case.t, "imports", []))
        reqs.append(Mo.request(e, case.strict, case.enable_loop, imp=imps, ctx=sorted(case.data), bi=bi, stops=stops))
        prepared.append((case, tmpl, cexc, e))
    outs = iter(ask_many(ctx, reqs))
    for case, tmpl, cexc, e in prepared:
        if e is None:
            continue
        st_c["cases"] += 1
        full = Mo.parse_full(next(outs))
        if e.unsupported:
            ctx.branch("unsupported:" + ",".join(sorted(set(e.unsupported))))
            continue
        # compile verdict: NameConflictError iff the model finds a reserved name in some locally_declared
        from mako import exceptions as X
        model_conflict = bool(full["conflicts"])
        impl_conflict = isinstance(cexc, X.NameConflictError)
        if cexc is not None and not impl_conflict:
            ctx.branch("compile-exc:" + type(cexc).__name__)
            continue
        if model_conflict != impl_conflict:
            ctx.disagree(cstream, case.key(), {"NameConflictError": model_conflict, "names": full["conflicts"]},
                         {"NameConflictError": impl_conflict, "exc": str(cexc)[:100]})
            continue
        if impl_conflict:
            ctx.branch("compile:NameConflictError")
            got = set(re.sub(r"^.*: ", "", str(cexc).split(" at line")[0]).split(", "))
            if got != set(full["conflicts"]) and not got <= set(full["conflicts"]):
                ctx.disagree(cstream, case.key(), sorted(full["conflicts"]), sorted(got))
            continue
        ctx.branch("compile:ok")
        compare_structure(ctx, cstream, case, tmpl, full)
        if not hasattr(case, "sites"):
            continue
        records, exc, unchanged, _seen = render_case(tmpl, case)
        compare_behaviour(ctx, cstream, case, e, full, records, exc)
        # Lean's Spec.resolve against its own Impl on the guarded fragment is a theorem; here only counted
        for sc in full["scopes"].values():
            for n, (impl, val, spec) in sc["res"].items():
                ctx.branch("lean-spec-vs-impl:" + ("same" if val == spec else "differ"))
        if st_o is None:
            st_o = ctx.stream(ostream, "oracle")
        st_o["cases"] += 1
        if any(o != "UNDEF" for _s, o in records):
            ctx.nontriv((case.src, tuple(sorted(case.data)), case.strict))
        if not unchanged:
            violation(ctx, "render-mutates-caller-dict", case.key(), "the dict passed as **data changed", ostream)
        oracle_compare(ctx, ostream, case, records, exc)


def mk_case(desc, bd, strict, with_import, kind):
    t = bd.finish()
    if with_import and not t.imports:
        t.imports.append("libdef")
    # Template(enable_loop=…): False both for "off" and for "re-enabled by <%page enable_loop>"
    c = Case(desc, t, dict(bd.data), strict, desc.get("loopcfg", "on") == "on", kind)
    c.sites = bd.sites
    c.data_tags = {k: v.tag for k, v in bd.data.items()}
    return c


def product_cases():
    for strict in (False, True):
        for with_import in (False, True):
            for desc, bd in Cs.product():
                d = dict(desc, strict=strict, ns_import=with_import)
                yield mk_case(d, bd, strict, with_import, "product")


def extended(ctx):
    from harness import c04_extra as Ex
    cases = []
    for strict in (False, True):
        for with_import in (False, True):
            for label, site, t, data, sites in Ex.extended_cases() + (Ex.strict_extended_cases() if strict else []):
                t = copy.deepcopy(t)
                if with_import and not t.imports and not t.import_star:
                    t.imports.append("libdef")
                c = Case({"label": label, "strict": strict, "ns_import": with_import}, t,
                         {k: G.Mark(v) for k, v in data.items()}, strict, True, "extended", site)
                c.sites = {sid: (n, "ext", label, None) for sid, n in sites.items()}
                c.data_tags = dict(data)
                cases.append(c)
    ctx.stream("corr.extended", exhaustive=True)
    run_cases(ctx, cases, "corr.extended", "oracle.extended")


# --------------------------------------------------------------------------- statement forms vs native execution

class _Base:
    tag = G.Mark("BASE")


def _ctx_values(names):
    import contextlib
    vals = {}
    for n in names:
        if n == "cm":
            vals[n] = contextlib.nullcontext(G.Mark("CM"))
        elif n == "base":
            vals[n] = _Base
        else:
            vals[n] = G.Mark("CTX:" + n)
    return vals


def native_run(stmts, names, vals):
    import builtins
    src = "def __f(S__):\n" + "".join("    " + l + "\n" for l in stmts.split("\n")) + \
          "".join("    S__(%d, %s)\n" % (i + 1, n) for i, n in enumerate(names))
    g = dict(vals)
    g["__builtins__"] = builtins
    del G.RECORDS[:]
    exc = None
    try:
        exec(compile(src, "<native>", "exec"), g)
        g["__f"](G.S__)
    except Exception as e:      # noqa: BLE001
        exc = e
    return list(G.RECORDS), exc


def exc_family(e):
    if e is None:
        return None
    if isinstance(e, NameError):
        return "NameError"
    return type(e).__name__


def statement_forms(ctx):
    from harness import c04_extra as Ex
    from mako.template import Template
    st = ctx.stream("oracle.statement_forms", "oracle", exhaustive=True)
    for label, stmts, names, provided in Ex.STATEMENT_FORMS:
        vals = _ctx_values(provided)
        want, wexc = native_run(stmts, names, vals)
        for strict in (False, True):
            st["cases"] += 1
            src = "<%\n" + stmts + "\n%>\n" + "".join("${S__(%d, %s)}\n" % (i + 1, n) for i, n in enumerate(names))
            del G.RECORDS[:]
            exc = None
            try:
                Template(src, imports=G.IMPORTS, strict_undefined=strict).render(**vals)
            except Exception as e:      # noqa: BLE001
                exc = e
            got = list(G.RECORDS)
            ctx.branch("stmt-form:" + ("same" if (got, exc_family(exc)) == (want, exc_family(wexc)) else "differs"))
            if (got, exc_family(exc)) != (want, exc_family(wexc)):
                violation(ctx, "stmt-form:" + label, {"input": src, "strict": strict, "form": label},
                              {"native": [want, repr(wexc)[:80]], "template": [got, repr(exc)[:80]]}, "oracle.statement_forms")


def entry_calls(t, name, loop_enabled):
    """every way of handing the name `name` to a render entry point of template `t` (a def `f` exists)"""
    from mako.template import Template
    from mako.lookup import TemplateLookup
    from mako.runtime import Context
    from mako import util
    nested_tmpl = Template("<% inner.render_context(context, **kw) %>")

    def reused(target):
        c = Context(util.FastEncodingBuffer())
        t.render_context(c)
        target.render_context(c, **{name: 1})

    def include_with(via_namespace):
        lk2 = TemplateLookup(enable_loop=loop_enabled)
        lk2.put_string("/inc.html", "inc")
        lk2.put_string("/m.html", ("<%% local.include_file('/inc.html', %s=1) %%>" if via_namespace
                                   else "<%%include file=\"/inc.html\" args=\"%s=1\"/>") % name)
        return lk2.get_template("/m.html").render()
    return {
        "render": lambda: t.render(**{name: 1}),
        "render_unicode": lambda: t.render_unicode(**{name: 1}),
        "render_context": lambda: t.render_context(Context(util.FastEncodingBuffer(), **{name: 1})),
        "def.render": lambda: t.get_def("f").render(**{name: 1}),
        "def.render_unicode": lambda: t.get_def("f").render_unicode(**{name: 1}),
        "def.render_context": lambda: t.get_def("f").render_context(Context(util.FastEncodingBuffer(), **{name: 1})),
        "render_context-kwargs": lambda: t.render_context(Context(util.FastEncodingBuffer()), **{name: 1}),
        "def.render_context-kwargs": lambda: t.get_def("f").render_context(Context(util.FastEncodingBuffer()), **{name: 1}),
        # a Context that has been rendered into before (its _with_template is set)
        "render_context-kwargs-reused": lambda: reused(t),
        "def.render_context-kwargs-reused": lambda: reused(t.get_def("f")),
        # render_context(context, …) called from inside a running template, on that template's own context
        "render_context-kwargs-nested": lambda: nested_tmpl.render(inner=t, kw={name: 1}),
        "def.render_context-kwargs-nested": lambda: nested_tmpl.render(inner=t.get_def("f"), kw={name: 1}),
        # <%include args="NAME=1"/> and Namespace.include_file(uri, NAME=1)
        "include-args": lambda: include_with(False),
        "include_file-kwargs": lambda: include_with(True),
    }


def entry_template(el):
    from mako.template import Template
    if el == "page":
        return Template("<%page enable_loop=\"True\"/>x<%def name=\"f()\">F</%def>", enable_loop=False)
    return Template("x<%def name=\"f()\">F</%def>", enable_loop=el)


# --------------------------------------------------------------------------- reserved names

def reserved_names(ctx):
    from harness import c04_extra as Ex
    from mako.template import Template
    from mako.lookup import TemplateLookup
    from mako.runtime import Context
    from mako import exceptions as X, util
    drv = ctx.driver()
    # the regenerated table against the running code
    from mako import codegen
    st = ctx.stream("corr.reserved_table", exhaustive=True)
    for rl in (True, False):
        st["cases"] += 1
        model = set(Mo.dec_names(ask_many(ctx, ["names reserved %d" % rl])[0]))
        impl = set(Template("x", enable_loop=rl).reserved_names)
        if model != impl or (rl and impl != set(codegen.RESERVED_NAMES)):
            ctx.disagree("corr.reserved_table", {"enable_loop": rl}, sorted(model), sorted(impl))
    # the oracle uses the names of the property text, not whatever the code under test lists
    names = ["STOP_RENDERING", "UNDEFINED", "context", "loop"]
    # (i) binding forms
    cases = []
    so = ctx.stream("oracle.reserved_forms", "oracle", exhaustive=True)
    for form, tsrc in Ex.RESERVED_FORMS:
        for name in names:
            for cfg in ("loop-on", "loop-off", "loop-by-page"):
                if cfg == "loop-by-page" and ("<%page" in tsrc or name != "loop"):
                    continue
                src = tsrc.replace("NAME", name)
                if cfg == "loop-by-page":
                    src = "<%page enable_loop=\"True\"/>\n" + src
                el = cfg == "loop-on"
                c = Case({"form": form, "name": name, "config": cfg}, src, {}, False, el, "reserved")
                cases.append(c)
                so["cases"] += 1
                tmpl, cexc = compile_case(c)
                reserved_now = name != "loop" or cfg != "loop-off"
                got = isinstance(cexc, X.NameConflictError)
                ctx.branch("reserved-form:%s:%s" % ("reserved" if reserved_now else "free", "conflict" if got else type(cexc).__name__ if cexc else "accepted"))
                if reserved_now and not got:
                    site = "loop-enabled-by-page-not-reserved" if cfg == "loop-by-page" else "reserved-name-accepted:" + form
                    violation(ctx, site, {"input": src, "form": form, "name": name, "config": cfg},
                                  "expected NameConflictError at compile, got %s" % (("%s: %s" % (type(cexc).__name__, str(cexc)[:80])) if cexc else "a compiled template"),
                                  "oracle.reserved_forms")
                if not reserved_now and got:
                    violation(ctx, "free-name-rejected", {"input": src, "form": form, "name": name, "config": cfg}, str(cexc)[:100], "oracle.reserved_forms")
    run_cases(ctx, cases, "corr.reserved_forms", None)
    # (ii) render entry points
    sc = ctx.stream("corr.render_entries", exhaustive=True)
    so = ctx.stream("oracle.render_entries", "oracle", exhaustive=True)
    lk = TemplateLookup()
    lk.put_string("/e.html", "x<%def name=\"f()\">F</%def>")
    reqs, metas = [], []
    for el in (True, False, "page"):
        t = entry_template(el)
        for name in names + ["plain"]:
            entries = entry_calls(t, name, el is not False)
            for ename, fn in entries.items():
                if ename.startswith("include") and el == "page":
                    continue
                if name == "context" and ("kwargs" in ename or ename.startswith("include")):
                    # `render_context(self, context, *args, **kwargs)`: Python itself refuses a second `context`
                    # (TypeError) - the name cannot reach the keyword arguments at all
                    ctx.branch("entry:render_context-kwargs:context-is-a-parameter")
                    continue
                exc = None
                try:
                    fn()
                except Exception as e:      # noqa: BLE001
                    exc = e
                got = isinstance(exc, X.NameConflictError)
                enabled = el is not False
                reserved_now = name in names and (name != "loop" or enabled)
                so["cases"] += 1
                ctx.branch("entry:%s:%s" % (ename, "conflict" if got else "other"))
                if reserved_now and not got:
                    site = ("loop-enabled-by-page-not-reserved" if el == "page" else
                            "include-args-reserved-not-checked" if ename.startswith("include") else
                            "render_context-kwargs-not-checked:" + ename if "kwargs" in ename else "reserved-name-accepted-at:" + ename)
                    violation(ctx, site, {"input": name, "entry": ename, "enable_loop": str(el)},
                                  "expected NameConflictError, got %s" % (type(exc).__name__ if exc else "a rendering"), "oracle.render_entries")
                if not reserved_now and got:
                    violation(ctx, "free-name-rejected-at:" + ename, {"input": name, "entry": ename, "enable_loop": str(el)}, str(exc)[:100],
                                  "oracle.render_entries")
                # model
                if ename.startswith("include"):
                    # runtime._include_file: the model follows the regenerated fact whether its kwargs are checked
                    reqs.append("names entry include %d 0 _ %s" % (0 if el is False or el == "page" else 1, Mo.enc_names([name])))
                    metas.append((ename, name, str(el), got, str(exc)))
                    continue
                kw = "kwargs" in ename
                fresh = not (ename.endswith("-reused") or ename.endswith("-nested"))
                mentry = ("def.render_context" if ename.startswith("def.") else "render_context") if kw else ename
                reqs.append("names entry %s %d %d %s %s" % (mentry, 0 if el is False or el == "page" else 1, 1 if fresh else 0,
                                                             "_" if kw else Mo.enc_names([name]), Mo.enc_names([name]) if kw else "_"))
                metas.append((ename, name, str(el), got, str(exc)))
    for (ename, name, el, got, msg), o in zip(metas, ask_many(ctx, reqs)):
        sc["cases"] += 1
        if o.startswith("conflict") != got:
            ctx.disagree("corr.render_entries", {"entry": ename, "input": name, "enable_loop": el}, o, msg[:100])
        elif got:
            want = set(Mo.dec_names(o.split(":", 1)[1]))
            have = set(msg.split(": ", 1)[1].split(", "))
            if want != have:
                ctx.disagree("corr.render_entries", {"entry": ename, "input": name}, sorted(want), sorted(have))


# --------------------------------------------------------------------------- Context operations

def context_ops(ctx):
    from mako.runtime import Context
    from mako import util
    drv = ctx.driver()
    keys = ["a", "b", "self", "parent", "next", "local", "caller", "capture", "k"]
    n = 300 if ctx.quick else 5000
    reqs, impls = [], []
    sc = ctx.stream("corr.context_ops")
    so = ctx.stream("oracle.context_ops", "oracle")

    def rdict():
        return {k: ctx.rng.randint(3, 9) for k in ctx.rng.sample(keys, ctx.rng.randint(0, 4))}

    def encd(d):
        return "+".join("%s=%d" % (enc(k), v) for k, v in d.items()) if d else "_"

    def canon(d):
        out = {}
        for k, v in d.items():
            out[k] = v if isinstance(v, int) else 1 if k == "capture" else 2
        return out
    for _ in range(n):
        init = rdict()
        for k in ("caller", "capture", "self"):      # `self` cannot be passed to Context(buffer, **data)
            init.pop(k, None)
        given = dict(init)
        c0 = Context(util.FastEncodingBuffer(), **given)
        ctxs = [c0]
        ops = []
        results = []
        snaps = [(c0, dict(c0._data))]
        bad = None
        for _i in range(ctx.rng.randint(0, 6)):
            ti = ctx.rng.randrange(len(ctxs))
            tgt = ctxs[ti]
            before = dict(tgt._data)
            kind = ctx.rng.choice("LLCNK")
            if kind == "L":
                d = rdict() if ctx.rng.random() < 0.8 else {}
                new = tgt._locals(d)
                ctxs.append(new)
                ops.append("L:%d:%s" % (ti, encd(d)))
            elif kind == "C":
                ctxs.append(tgt._copy())
                ops.append("C:%d" % ti)
            elif kind == "N":
                ctxs.append(tgt._clean_inheritance_tokens())
                ops.append("N:%d" % ti)
            else:
                kw = tgt.kwargs
                results.append(dict(kw))
                kw["mutated"] = 1          # what template code may do with the returned dict
                ops.append("K:%d" % ti)
            if dict(tgt._data) != before:
                bad = (ops[-1], before, dict(tgt._data))
        so["cases"] += 1
        if bad:
            violation(ctx, "context-op-mutates-its-context", {"input": " ".join(ops), "init": init}, str(bad), "oracle.context_ops")
        if given != init:
            violation(ctx, "context-mutates-caller-dict", {"input": " ".join(ops), "init": init}, str(given), "oracle.context_ops")
        for c in ctxs:
            if c.kwargs != init:
                violation(ctx, "context-kwargs-differ-from-arguments", {"input": " ".join(ops), "init": init}, str(c.kwargs), "oracle.context_ops")
                break
        reqs.append("names ctxops %s %s" % (encd(init), " ".join(ops)))
        impls.append(([canon(c._data) for c in ctxs], [dict(c._kwargs) for c in ctxs], results, given))
        ctx.branch("ctxops:len%d" % len(ops))
    for r, (datas, kws, results, given), o in zip(reqs, impls, ask_many(ctx, [r.rstrip() for r in reqs])):
        sc["cases"] += 1

        def dd(x):
            return {} if x == "_" else {dec(kv.split("=")[0]): int(kv.split("=")[1]) for kv in x.split("+")}
        try:
            a, b, c, d = o.split(" # ")
            model = ([dd(x) for x in a.split(";")], [dd(x) for x in b.split(";")], [] if c == "none" else [dd(x) for x in c.split(";")], dd(d))
        except ValueError:
            ctx.disagree("corr.context_ops", r, o, "unparsable")
            continue
        if model != (datas, kws, results, given):
            ctx.disagree("corr.context_ops", r, model, (datas, kws, results, given))


def context_kwargs_in_templates(ctx):
    """context.kwargs seen from every kind of scope equals the arguments given; the caller's dict is untouched"""
    from mako.lookup import TemplateLookup
    so = ctx.stream("oracle.kwargs_in_templates", "oracle", exhaustive=True)
    seen = []

    def rec(context, where):
        kw = context.kwargs
        seen.append((where, dict(kw)))
        kw["x"] = "mutated-copy"
        return ""
    src = """<%page args="pa=1"/>
<% x = 5 %>
${rec(context, 'body')}
<%def name="f(a)"><% x = 6 %>${rec(context, 'f')}<%def name="g()">${rec(context, 'g')}</%def>${g()}</%def>
${f(1)}
<%block>${rec(context, 'anon')}</%block>
<%block name="nb">${rec(context, 'named')}</%block>
<%call expr="w()">${rec(context, 'callbody')}</%call>
<%def name="w()">${caller.body()}</%def>
<%include file="/inc2.html" args="z=3"/>
${rec(context, 'end')}
"""
    for data in ({}, {"x": 1}, {"pa": 2, "y": [1, {"k": 2}]}, {"rec2": 1, "self2": 2}):
        for strict in (False, True):
            so["cases"] += 1
            lk = TemplateLookup(strict_undefined=strict)
            lk.put_string("/inc2.html", "${rec(context, 'included')}")
            lk.put_string("/k.html", src)
            given = dict(data, rec=rec)
            snapshot = copy.deepcopy({k: v for k, v in given.items() if k != "rec"})
            del seen[:]
            try:
                lk.get_template("/k.html").render(**given)
            except Exception as e:      # noqa: BLE001
                violation(ctx, "kwargs-template-raised", {"input": sorted(data), "strict": strict}, repr(e)[:200], "oracle.kwargs_in_templates")
                continue
            after = {k: v for k, v in given.items() if k != "rec"}
            if after != snapshot or list(given) != list(dict(data, rec=rec)):
                violation(ctx, "render-mutates-caller-dict", {"input": sorted(data), "strict": strict}, str(after), "oracle.kwargs_in_templates")
            wheres = [w for w, _ in seen]
            if wheres != ["body", "f", "g", "anon", "named", "callbody", "included", "end"]:
                violation(ctx, "kwargs-template-scopes", {"input": sorted(data)}, str(wheres), "oracle.kwargs_in_templates")
            for w, kw in seen:
                kw = {k: v for k, v in kw.items() if k != "rec"}
                if kw != snapshot:
                    violation(ctx, "context-kwargs-differ-from-arguments", {"input": sorted(data), "where": w, "strict": strict},
                                  {"kwargs": str(kw), "given": str(snapshot)}, "oracle.kwargs_in_templates")


# --------------------------------------------------------------------------- the `% for` rewrite and enable_loop

def for_rewrite(ctx):
    """`% for` lines are rewritten to `loop = __M_loop._enter(…)` only while the loop context is enabled and the line or
    its suite mentions `loop`; model (`forRewritten`, regenerated condition of visitControlLine) vs Template.code"""
    from mako.template import Template
    st = ctx.stream("corr.for_rewrite", exhaustive=True)
    so = ctx.stream("oracle.for_rewrite", "oracle", exhaustive=True)
    suites = {"mentions-in-suite": "% for i in [1]:\n${loop}\n% endfor\n", "mentions-in-line": "% for i in loop:\n${i}\n% endfor\n",
              "no-mention": "% for i in [1]:\n${i}\n% endfor\n", "target": "% for loop in [1]:\n${loop}\n% endfor\n"}
    for cfg in ("on", "off", "page"):
        for label, body in suites.items():
            src = ("<%page enable_loop=\"True\"/>\n" if cfg == "page" else "") + body
            enabled = cfg != "off"
            mentions = label != "no-mention"
            try:
                t = Template(src, enable_loop=(cfg == "on"))
            except Exception as e:      # noqa: BLE001 - `% for loop in` while enabled: NameConflictError
                ctx.branch("for-rewrite:compile-" + type(e).__name__)
                continue
            st["cases"] += 1
            impl = "__M_loop._enter" in t.code
            model = ask_many(ctx, ["names forrewrite %d %d" % (enabled, mentions)])[0] == "1"
            if impl != model:
                ctx.disagree("corr.for_rewrite", {"input": src, "config": cfg}, model, impl)
            # oracle: with the loop context disabled `loop` is an ordinary name
            if cfg == "off":
                so["cases"] += 1
                for data, want in (({"loop": "CTXVAL"} if label != "target" else {}, None),):
                    try:
                        out = t.render(**data)
                        okv = ("CTXVAL" in out) if label == "mentions-in-suite" else True
                        if not okv:
                            violation(ctx, "loop-not-ordinary-while-disabled", {"input": src, "config": cfg}, out[:80], "oracle.for_rewrite")
                    except Exception as e:      # noqa: BLE001
                        if not (label == "mentions-in-line" and isinstance(e, TypeError)):
                            violation(ctx, "loop-not-ordinary-while-disabled", {"input": src, "config": cfg},
                                      "%s: %s" % (type(e).__name__, str(e)[:80]), "oracle.for_rewrite")


# --------------------------------------------------------------------------- values of context entries

def context_values(ctx):
    """a key bound in the context is bound whatever its value (None, 0, '', [], False, UNDEFINED): implicit reads in
    every kind of scope, explicit context['k'] / context.get('k'), strict on/off; keys that also name a builtin"""
    from mako.lookup import TemplateLookup
    from mako import runtime
    so = ctx.stream("oracle.context_values", "oracle", exhaustive=True)
    sc = ctx.stream("corr.context_values", exhaustive=True)
    bi = builtin_names()
    values = [("None", None), ("0", 0), ("''", ""), ("[]", []), ("False", False), ("UNDEFINED", runtime.UNDEFINED), ("'s'", "s")]
    reqs, metas = [], []
    for key in ("x", "id", "len"):
        src = ("${S__(1, %(k)s)}\n<%%def name=\"td()\">${S__(2, %(k)s)}<%%def name=\"inner()\">${S__(3, %(k)s)}</%%def>${inner()}</%%def>\n"
               "${td()}\n<%%block>${S__(4, %(k)s)}</%%block>\n%% if S__(5, %(k)s):\n%% endif\n"
               "${S__(6, context['%(k)s'])}\n${S__(7, context.get('%(k)s'))}\n${S__(8, context.get('%(k)s', 'DFLT'))}\n"
               "${S__(9, '%(k)s' in context.keys())}\n${S__(10, context.kwargs.get('%(k)s', 'MISSING'))}\n") % {"k": key}
        for vname, val in values:
            for strict in (False, True):
                for imp in (False, True):
                    so["cases"] += 1
                    full_src = ("<%namespace file=\"/lib.html\" import=\"libdef\"/>\n" if imp else "") + src
                    case = Case({"key": key, "value": vname, "ns_import": imp}, full_src, {key: val}, strict, True, "ctxvalue")
                    tmpl, cexc = compile_case(case)
                    del G.RECORDS[:]
                    exc = None
                    try:
                        tmpl.render(**{key: val})
                    except Exception as e:      # noqa: BLE001
                        exc = e
                    got = list(G.RECORDS)
                    ov = G.observe(val)
                    want = [(i, ov) for i in range(1, 9)] + [(9, "VAL:True"), (10, ov)]
                    ctx.branch("ctxvalue:%s:%s" % (vname, "ok" if (got == want and exc is None) else "differs"))
                    if got != want or exc is not None:
                        violation(ctx, "context-entry-not-bound-for-its-value",
                                  {"input": full_src, "key": key, "value": vname, "strict": strict},
                                  {"expected": want[len([1 for a, b in zip(got, want) if a == b]):][:2],
                                   "observed": (got[-1:] if got else []), "exception": "%s: %s" % (exc_class(exc), str(exc)[:80]) if exc else None},
                                  "oracle.context_values")
                    e = Mo.encode_template(full_src, G.IMPORTS)
                    reqs.append(Mo.request(e, strict, True, imp=["libdef"] if imp else [], ctx=[key] if val is not None else [],
                                           ctx_none=[key] if val is None else [], bi=bi))
                    metas.append((case, got, exc, val))
    for (case, got, exc, val), o in zip(metas, ask_many(ctx, reqs)):
        sc["cases"] += 1
        full = Mo.parse_full(o)
        key = case.desc["key"]
        pred = full["scopes"][("render_body",)]["res"][key][1]
        obs = dict(got).get(1)
        ok = (pred == "vN" and obs == "VAL:None") or (pred == "vo2" and obs is not None and obs == G.observe(val)) \
            or (pred == "vo3" and obs == "BUILTIN") or (pred == "vU" and obs == "UNDEF") \
            or (pred == "E" and isinstance(exc, NameError) and STRICT_MSG.match(str(exc)))
        if not ok:
            ctx.disagree("corr.context_values", dict(case.key(), key=key, value=case.desc["value"]), pred, [obs, repr(exc)[:80]])


# --------------------------------------------------------------------------- random scope trees

def random_trees(ctx):
    from harness import c04_extra as Ex
    n = 400 if ctx.quick else 8000
    cases = []
    for i in range(n):
        g = Ex.TreeGen(ctx.rng)
        src = g.template()
        cases.append(Case({"tree": i}, src, {}, ctx.rng.random() < 0.3, ctx.rng.random() < 0.85, "tree"))
    run_cases(ctx, cases, "corr.random_trees", None)


def loop_name_cases():
    for strict in (False, True):
        for desc, bd in Cs.loop_name_product():
            yield mk_case(dict(desc, strict=strict, ns_import=False), bd, strict, False, "product")


def corr_and_oracle(ctx):
    G.install_rt()
    cases = list(product_cases()) + list(loop_name_cases())
    ctx.log("product: %d templates" % len(cases))
    ctx.stream("corr.product", exhaustive=True)
    ctx.stream("oracle.product", "oracle", exhaustive=True)
    run_cases(ctx, cases, "corr.product", "oracle.product")
    n = 300 if ctx.quick else 4000
    rnd = []
    for i in range(n):
        desc, bd = Cs.random_combo(ctx.rng)
        strict = ctx.rng.random() < 0.4
        imp = ctx.rng.random() < 0.4
        rnd.append(mk_case(dict(desc, strict=strict, ns_import=imp), bd, strict, imp, "random"))
    run_cases(ctx, rnd, "corr.random", "oracle.random")
    ctx.sample({"stream": "corr.product", "template": cases[37].src, "data": sorted(cases[37].data)})
    ctx.sample({"stream": "corr.random", "template": rnd[0].src, "data": sorted(rnd[0].data), "strict": rnd[0].strict})


STEPS = [("product+random", corr_and_oracle), ("extended", extended), ("random_trees", random_trees),
         ("context_ops", context_ops), ("context_values", context_values), ("for_rewrite", for_rewrite), ("reserved", reserved_names), ("statement_forms", statement_forms),
         ("kwargs", context_kwargs_in_templates)]


def run(ctx):
    G.install_rt()
    _site_count.clear()
    first = None
    for name, fn in STEPS:      # the oracle streams run even when a correspondence step raises
        try:
            fn(ctx)
            ctx.log("step %s done" % name)
        except Exception as e:      # noqa: BLE001
            ctx.log("step %s raised %r" % (name, e))
            if first is None:
                first = (e, traceback.format_exc())
    ctx.log("branches: " + ", ".join("%s=%d" % kv for kv in sorted(ctx.branches.items())))
    if first is not None:
        ctx.broke("correspondence:harness-exception", first[1])


def _rebuild(case):
    """Case object from the recorded (minimised) case of a replay file"""
    from harness import c04_extra as Ex
    desc = case.get("desc") or {}
    if "label" in desc:
        for strict_only, lst in ((False, Ex.extended_cases()), (True, Ex.strict_extended_cases())):
            for label, site, t, data, sites in lst:
                if label == desc["label"]:
                    t = copy.deepcopy(t)
                    if desc.get("ns_import") and not t.imports and not t.import_star:
                        t.imports.append("libdef")
                    c = Case(desc, t, {k: G.Mark(v) for k, v in data.items()}, desc["strict"], True, "extended", site)
                    c.sites = {sid: (n, "ext", label, None) for sid, n in sites.items()}
                    c.data_tags = dict(data)
                    return c
    if "probes" in desc:
        return mk_case(desc, Cs.build_from_desc(desc), desc.get("strict", False), desc.get("ns_import", False), "random")
    if "binding" in desc:
        return mk_case(desc, Cs.build_product(desc), desc.get("strict", False), desc.get("ns_import", False), "product")
    if "input" in case and "data" in case:       # raw source: structure only
        return Case(desc, case["input"], {}, case.get("strict", False), case.get("enable_loop", True), "tree")
    return None


def replay(ctx, data):
    """re-run the recorded case on the implementation (oracle) and on the model (correspondence); True iff both agree
    with the property / the model"""
    G.install_rt()
    _site_count.clear()
    case = data.get("case") or (data.get("first_disagreements") or [{}])[0].get("case")
    print("replaying", json_short(case))
    sub = type(ctx)(ctx.pid, "quick", data.get("seed", 0))
    if isinstance(case, dict) and "entry" in case:
        # a reserved name at a render entry point
        from mako import exceptions as X
        el = case.get("enable_loop", "True")
        elv = "page" if el == "page" else (el == "True")
        fn = entry_calls(entry_template(elv), case["input"], elv is not False)[case["entry"]]
        try:
            fn()
            print("rendered without NameConflictError")
            return False
        except X.NameConflictError as ex:
            print("raised", ex)
            return True
        except Exception as ex:      # noqa: BLE001
            print("raised", type(ex).__name__, ex)
            return False
    if isinstance(case, dict) and "key" in case and "value" in case:
        # a context entry bound to a particular value
        from mako.lookup import TemplateLookup
        from mako import runtime
        val = {"None": None, "0": 0, "''": "", "[]": [], "False": False, "UNDEFINED": runtime.UNDEFINED, "'s'": "s"}[case["value"]]
        lk = TemplateLookup(imports=G.IMPORTS, strict_undefined=case.get("strict", False))
        lk.put_string("/lib.html", "<%def name=\"libdef()\"></%def>")
        lk.put_string("/v.html", case["input"])
        del G.RECORDS[:]
        try:
            lk.get_template("/v.html").render(**{case["key"]: val})
        except Exception as ex:      # noqa: BLE001
            print("raised", type(ex).__name__, ex, "after", list(G.RECORDS)[-2:])
            return False
        ov = G.observe(val)
        want = [(i, ov) for i in range(1, 9)] + [(9, "VAL:True"), (10, ov)]
        want = [(i, o) for i, o in want if ("S__(%d," % i) in case["input"]]
        print("records:", list(G.RECORDS))
        return list(G.RECORDS) == want
    if isinstance(case, dict) and "config" in case and "form" not in case and "input" in case:
        # the `% for` rewrite in one loop configuration (streams corr.for_rewrite / oracle.for_rewrite)
        from mako.template import Template
        cfg, src = case["config"], case["input"]
        try:
            t = Template(src, enable_loop=(cfg == "on"))
        except Exception as ex:      # noqa: BLE001
            print("compile raised", type(ex).__name__, ex)
            return False
        mentions = bool(re.search(r"\bloop\b", re.sub(r"<%page[^>]*>", "", src)))
        impl = "__M_loop._enter" in t.code
        model = ask_many(ctx, ["names forrewrite %d %d" % (cfg != "off", mentions)])[0] == "1"
        print("rewritten: code=%s model=%s" % (impl, model))
        ok = impl == model
        if cfg == "off":
            # with the loop context disabled `loop` is an ordinary name
            data = {} if re.search(r"% for loop in", src) else {"loop": "CTXVAL"}
            try:
                out = t.render(**data)
                print("rendered", repr(out[:80]))
                if "${loop}" in src and data:
                    ok = ok and "CTXVAL" in out
            except TypeError as ex:
                print("raised", type(ex).__name__, ex)
                ok = ok and "% for i in loop" in src      # iterating the context's string value is not the point
            except Exception as ex:      # noqa: BLE001
                print("raised", type(ex).__name__, ex)
                ok = False
        return ok
    if isinstance(case, dict) and "form" in case and "config" in case:
        from mako import exceptions as X
        c = Case(case, case["input"], {}, False, case["config"] == "loop-on", "reserved")
        tmpl, cexc = compile_case(c)
        print("compile:", type(cexc).__name__ if cexc else "accepted")
        return isinstance(cexc, X.NameConflictError)
    if isinstance(case, dict) and "form" in case:
        from harness import c04_extra as Ex
        for label, stmts, names, provided in Ex.STATEMENT_FORMS:
            if label == case["form"]:
                vals = _ctx_values(provided)
                want, wexc = native_run(stmts, names, vals)
                from mako.template import Template
                del G.RECORDS[:]
                exc = None
                try:
                    Template(case["input"], imports=G.IMPORTS, strict_undefined=case.get("strict", False)).render(**vals)
                except Exception as e:      # noqa: BLE001
                    exc = e
                print("native  :", want, repr(wexc))
                print("template:", list(G.RECORDS), repr(exc))
                return (list(G.RECORDS), exc_family(exc)) == (want, exc_family(wexc))
        return False
    if isinstance(case, str) and case.startswith("names ctxops"):
        print("model:", ask_many(ctx, [case])[0])
        return False
    c = _rebuild(case) if isinstance(case, dict) else None
    if c is None:
        print("cannot rebuild the case")
        return False
    run_cases(sub, [c], "corr.replay", "oracle.replay")
    for d in sub.disagreements:
        print("model/impl disagree:", json_short(d))
    for v in sub.violations:
        print("violation:", v["site"], json_short(v["detail"]))
    return not sub.disagreements and not sub.violations


def json_short(x):
    import json
    from harness.common import jsonable
    return json.dumps(jsonable(x))[:600]


DRIVER_OPS = ["names"]   # per-area driver executable(s) this check talks to (built before any worker is forked)
