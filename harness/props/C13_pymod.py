"""a python-module namespace for the hand-written C13 family: a `supports_caller` def"""
from mako.runtime import supports_caller


@supports_caller
def pydef(context, x):
    context.write("<%s:" % x)
    context["caller"].body()
    context.write(">")
    return ""
