"""C06 - inheritance chains dispatch self/next/parent correctly; blocks render once.

corr  : the Lean model of the runtime (`_populate_self_namespace`/`_inherit_from` heap construction, templates
        compiled when first looked up, `TemplateNamespace.__getattr__` with its setattr memo, `_NSAttr` walking the
        chain at read time, `visitBlockTag`'s guard and its `__M_writer(<call> or '')` for buffered blocks, calls
        with content run in place, Python argument binding of bodies, defs and blocks, the `_Identifiers` block
        checks incl. `_reject_named_blocks`, `<%include>` of further chains of the lookup rendered from a clean
        context) against the real mako:
          corr.nsattrs - the regenerated table of Namespace attribute names against dir() of a live namespace
          corr.render  - whole chains (a third of them including further chains) rendered through a real
                         TemplateLookup, output tag sequence / exception kind
          corr.build   - the object graph left by the inherit phase (inherits links, self/local/next/parent per context)
          corr.attrs   - `getattr(ns_j, name)` / `ns_j.attr.name` sequences on the real namespace objects
                         (memo threaded through, and memo-free)
          corr.check   - compile outcome (and kind of the first CompileException) of random def/block/call trees
oracle: oracle.render - expected tag sequence computed from the generator's ground truth by the rules of the
        property text (most-derived definition, base-most position, adjacent templates for next/parent, a block's
        content once at its position whatever its buffered flag, an included template rendered as a chain of its
        own - parent/next absent at its ends whatever the includer inherits -, Python signature binding through
        inspect.Signature) - no Lean involved; oracle.check - CompileException expectations for duplicate and
        misplaced blocks; oracle.witnesses - a fixed corpus replayed on every run: the witnesses of the recorded
        findings and the regression cases of the repaired ones (F-C06-3, F-C06-4) and of two rule points
        (`local` in an intermediate template, None/falsy module attributes).
Always-run witnesses (`oracle_fixed_witnesses`, `oracle_witnesses`; streams oracle.witnesses / corr.witnesses) - every
assertion kind of the oracle has a fixed input, so the catch of a change never depends on the seed:
  compile-time rules (`_check_witnesses`, 46 trees): a named block directly in a def / <%call> / <%ns:def>, and there
    inside 1 and 2 anonymous blocks (same line and other lines), under a control line (with and without an anonymous
    block), in a nested def, in a nested call; only anonymous blocks in a def/call (accepted); named block in a def
    replaced by a later def (directly, under an anonymous block, in a nested def); duplicate block names at body
    level, nested in its namesake, in an anonymous block, in two different blocks, under a control line, 3 levels
    deep; def and block of one name (both orders); two anonymous blocks on one line (side by side, nested: F-C06-2);
    accepted controls (distinct nested blocks, block under a control line, two defs of one name);
  run-time rules (`_render_witnesses`, 22 cases + `WITNESSES`, 8 cases): self/parent/next/local dispatch from an
    intermediate template; nearest definition toward the base; missing member; next at T0; parent at the base;
    base-most position / most-derived content / skipped level; nested blocks with an overridden container;
    anonymous blocks in place; buffered blocks and overrides; most-derived module attribute incl. None/falsy values
    and missing ones; self.attr read by the inherit expression of a middle template; inherit evaluating to None
    in an inherited-from template; missing inherit target; body() arguments and their errors; def parameters and
    their errors; call with content in place; included templates (own blocks, parent absent, chain order, include
    from def and block, missing target); compile error inside a chain; members named like Namespace attributes
    (F-C06-1); `local` in an intermediate template;
  a def / block rendered on its own (`_entry_witnesses`, 17 cases; round 6, C06k): `get_template(T_j).get_def(x)
    .render(**data)` for T_j the most derived, an intermediate and the base-most template of a chain - parent is the
    adjacent template toward the base (each answering in turn), self and local are T_j, next is absent, module
    attributes through local/parent/self, a block of an inheriting template with the data as pageargs, def
    parameters picked from the data (and a missing one), call with content, get_def of a member only inherited,
    chain ending in an inherit evaluating to None, controls without inherit. Verdict by `entry_render` (the rules of
    the property text on the chain T_j..base); the same dimension at random in oracle.entry (`Gen.entry_case`,
    250 draws in the quick tier, 85% from an inheriting template). The model has no such entry point: rules only.
A violating case is shrunk and attributed to a recorded finding only by a causal test (`classify`): removing exactly
that feature must make the implementation follow the rules again; anything else is reported under the sites
`inheritance-dispatch` / `block-checks`, which no recorded finding matches.
"""
from __future__ import annotations

import ast as pyast
import copy
import inspect
import json
import os
import re
import shutil
import sys
import tempfile

from harness.common import enc, dec

RULE = ("chains of 1..5 templates; every level draws, per member name of a shared pool (ma..me plus, rarely, names "
        "that are also attributes of mako's Namespace objects), one of {def, named block, nothing}, named and anonymous blocks with buffered=\"True\" at 25-30%, named blocks "
        "nested in named/anonymous blocks or at body level, module attributes from {ax,ay,az}, a <%page args> "
        "signature over {pa,pb}, defs with 0-2 parameters (one signature per name along the chain, rarely deviating), module "
        "attribute values that are numbers or None/''/False/0, bodies and member contents made of literal tags [tN] (N unique per chain), "
        "calls with content (<%call>/<%self:..> to a def writing caller.body() once) holding tags, member calls and anonymous blocks, in a third of the cases "
        "1-2 further chains over the same member names that templates of the main chain (bodies, blocks, defs) and of each other <%include>, calls "
        "self/next/parent/local.X(), X.body(pos, kw), ${X.attr.a}, anonymous blocks; inherit written as a literal, "
        "as one of five expression forms (two read the target from self.attr while the chain is being built, one after a hasattr member probe on the partial chain), or as an expression evaluating to None; 5% of the references are "
        "deliberately invalid (next at T0, parent at the base, missing member, recursion); put_string lookups, "
        "and file-backed lookups (with and without module_directory) in the thorough tier. A case is non-trivial "
        "when the chain has >= 2 levels and some member is declared at >= 2 levels or a named block is nested; "
        "distinct = distinct (sources, render data). Compile stream: random def/block/call trees with planted "
        "duplicate names, def/block clashes, named blocks under defs/calls (directly, under anonymous blocks, "
        "under nested or shadowed defs), anonymous blocks sharing a line. Entry stream: the same chains (blocks on lines of their own, no planted faults), "
        "a def or named block that template j declares itself (j an inheriting template in 85% of the draws; not a buffered block) rendered through "
        "get_template(T_j).get_def(x).render(**data), data covering the def's required parameters except in 5% of the draws.")
ASSUMPTIONS = [
    "member names are not 'body', not reserved names, do not start with '__M_' and are not '_get_star' (callable without arguments)",
    "module attribute names do not collide with names every generated module defines (runtime, filters, cache, UNDEFINED, render_*, _exports ...)",
    "def parameters are plain names with optional integer defaults (no *args/**kw/keyword-only); blocks take no declared arguments",
    "render() data does not use the names self/next/parent/local",
    "RecursionError of CPython is compared with fuel exhaustion of the model (both only on non-terminating call patterns)",
    "included chains have no <%page args> and <%include> passes no args= (argument passing of includes is C07's)",
    "a <%call> is always a call to a def consisting of ${caller.body()} (content written exactly once, in place); other callees are C05's",
]
TRUSTED_EXTRA = [
    "C06: the template writer/line tracker and output tokeniser of harness/props/C06.py (block line numbers come from the harness' own line tracker; a wrong line shows as a disagreement in the anonymous-block cases of corr.render / corr.check)",
    "C06: Python's argument binding is modelled (Inherit.bind) and compared with the interpreter on every member call with arguments (bodies, defs, blocks); the oracle uses inspect.Signature",
]
REGEN = ["NsAttrs"]

REFNAME = {"s": "self", "n": "next", "p": "parent", "l": "local"}
POOL = ["ma", "mb", "mc", "md", "me"]
HAZARD = ["name", "uri", "module", "template", "cache", "filename", "attr", "inherits", "callables"]
ATTRS = ["ax", "ay", "az"]
PARAMS = ["pa", "pb"]
KWNAMES = ["pa", "pb", "pc", "pd"]
FUEL = 3000
ZCALL = '<%def name="zcall()">${caller.body()}</%def>'
# module attribute values that are not numbers travel as reserved codes (the model's values are opaque numbers)
VALCODE = {900001: "None", 900002: "''", 900003: "False"}
PRINTED = {"None": 900001, "": 900002, "False": 900003}


def val_literal(v):
    return VALCODE.get(v, str(v))


def val_code(v):
    """code of a live Python value of a module attribute"""
    if v is None:
        return 900001
    if v is False:
        return 900003
    if v == "" and isinstance(v, str):
        return 900002
    return int(v)



# =========================================================================== case -> template sources

class Writer:
    def __init__(self):
        self.parts = []
        self.line = 1

    def w(self, s):
        self.parts.append(s)
        self.line += s.count("\n")

    def text(self):
        return "".join(self.parts)


def uri_of(i, fb, pre=""):
    return ("/%st%d.html" % (pre, i)) if fb else ("%st%d" % (pre, i))


def target_of(i, fb, pre=""):
    return ("%st%d.html" % (pre, i)) if fb else ("%st%d" % (pre, i))


def subcases(case):
    """the chains of the library other than the main one, as cases of their own (entry k is named k<k>t<i>)"""
    return [{"levels": c["levels"], "fb": case.get("fb", False), "pre": "k%d" % k, "data": []}
            for k, c in enumerate(case.get("lib", []), 1)]


def call_src(n):
    args = [str(v) for v in n.get("pos", [])] + ["%s=%d" % (k, v) for k, v in n.get("kw", [])]
    return "${%s.%s(%s)}" % (REFNAME[n["r"]], n["x"], ", ".join(args))


def emit_nodes(nodes, w, sig, where):
    """writes the nodes; records the line of every block tag in node['line']"""
    for n in nodes:
        if n.get("nl"):
            w.w("\n")
        k = n["k"]
        if k == "t":
            w.w("[t%d]" % n["v"])
        elif k == "c":
            w.w(call_src(n))
        elif k == "a":
            w.w("{v${%s.attr.%s}}" % (REFNAME[n["r"]], n["x"]))
        elif k == "ctl":        # `% if True:` ... `% endif`: control lines are flat nodes, the kids are siblings
            w.w("\n% if True:\n")
            emit_nodes(n["kids"], w, sig, where)
            w.w("\n% endif\n")
        elif k == "i":
            w.w('<%%include file="%s"/>' % target_of(0, getattr(w, "fb", False), "k%d" % n["t"]))
        elif k == "g":
            if where == "body":
                w.w("{g" + ",".join("%s=${%s}" % (p, p) for p, _ in sig) + ";${list(pageargs.items())}}")
            elif where == "deftop":      # directly in a def: its own parameters, no pageargs
                w.w("{g" + ",".join("%s=${%s}" % (p, p) for p, _ in sig) + ";[]}")
            else:
                w.w("{g;${list(pageargs.items())}}")
        elif k == "d":
            dsig = n.get("sig", [])
            w.w('<%%def name="%s(%s)">' % (n["n"], ", ".join(p if d is None else "%s=%d" % (p, d) for p, d in dsig)))
            emit_nodes(n["kids"], w, dsig, "deftop")
            w.w("</%def>")
        elif k == "b":
            n["line"] = w.line
            buf = ' buffered="True"' if n.get("buf") else ""
            if n["n"] is None:
                w.w("<%%block%s>" % buf)
                emit_nodes(n["kids"], w, sig, "def" if where == "deftop" else where)
            else:
                w.w('<%%block name="%s"%s>' % (n["n"], buf))
                emit_nodes(n["kids"], w, sig, "block" if where not in ("def", "deftop") else "def")
            w.w("</%block>")
        elif k == "x":
            if n.get("form"):
                w.w("<%self:zcall>")
                emit_nodes(n["kids"], w, sig, "def")
                w.w("</%self:zcall>")
            else:
                w.w('<%call expr="zcall()">')
                emit_nodes(n["kids"], w, sig, "def")
                w.w("</%call>")
        else:
            raise ValueError(k)


def has_calltag(nodes):
    return any(n["k"] == "x" or ("kids" in n and has_calltag(n["kids"])) for n in nodes)


def level_source(case, i):
    lv = case["levels"][i]
    fb = case.get("fb", False)
    pre = case.get("pre", "")
    w = Writer()
    w.fb = fb
    hnl = "\n" if lv.get("hnl") else ""
    inh = lv["inh"]
    if inh == "S":
        w.w('<%%inherit file="%s"/>%s' % (target_of(i + 1, fb, pre), hnl))
    elif inh == "D":
        form = lv.get("form", 0)
        tgt = target_of(i + 1, fb, pre)
        if form == 0:
            w.w('<%%inherit file="${\'%s\' + \'%s\'}"/>%s' % (tgt[:1], tgt[1:], hnl))
        elif form == 1:
            w.w("<%%! tv%d = '%s' %%>%s" % (i, tgt, hnl))
            w.w('<%%inherit file="${tv%d}"/>%s' % (i, hnl))
        elif form == 2:
            w.w('<%%inherit file="${context.get(\'nosuchkey\', \'%s\')}"/>%s' % (tgt, hnl))
        elif form == 3:
            # the target is a module attribute read through self.attr while the chain is still being built
            w.w("<%%! tv%d = '%s' %%>%s" % (i, tgt, hnl))
            w.w('<%%inherit file="${context[\'self\'].attr.tv%d}"/>%s' % (i, hnl))
        else:
            # ... built from a piece read through self.attr, after a member probe on the partially built chain
            # (hasattr runs TemplateNamespace.__getattr__, which memoises what it finds)
            w.w("<%%! tw%d = '%s' %%>%s" % (i, tgt[1:], hnl))
            w.w('<%%inherit file="${\'%s%%s\' %% context[\'self\'].attr.tw%d if hasattr(context[\'self\'], \'%s\') '
                'else \'%s\' + context[\'self\'].attr.tw%d}"/>%s' % (tgt[:1], i, lv.get("probe", "ma"), tgt[:1], i, hnl))
    elif inh == "Z":
        if lv.get("form", 0) == 0:
            w.w('<%%inherit file="${None}"/>%s' % hnl)
        elif lv.get("form", 0) == 1:
            w.w('<%%inherit file="${context.get(\'nosuchkey\')}"/>%s' % hnl)
        else:
            w.w("<%%! tz%d = None %%>%s" % (i, hnl))
            w.w('<%%inherit file="${context[\'self\'].attr.tz%d}"/>%s' % (i, hnl))
    if lv["sig"]:
        w.w('<%%page args="%s"/>%s' % (", ".join(p if d is None else "%s=%d" % (p, d) for p, d in lv["sig"]), hnl))
    for a, v in lv["attrs"]:
        w.w("<%%! %s = %s %%>%s" % (a, val_literal(v), hnl))
    emit_nodes(lv["nodes"], w, lv["sig"], "body")
    if has_calltag(lv["nodes"]):
        w.w(ZCALL)             # the callee of every <%call>: writes the content once
    return w.text()


def sources(case):
    return [level_source(case, i) for i in range(len(case["levels"]))]


# =========================================================================== case -> model request

def enc_vals(vs):
    return ",".join(str(v) for v in vs) if vs else "-"


def enc_kws(kws):
    return "/".join("%s:%d" % (enc(k), v) for k, v in kws) if kws else "-"


def enc_sig(sig):
    return "/".join("%s:%s" % (enc(p), "~" if d is None else str(d)) for p, d in sig) if sig else "-"


def enc_nodes(nodes, out):
    out.append("[")
    enc_node_seq(nodes, out)
    out.append("]")


def enc_node_seq(nodes, out):
    for n in nodes:
        k = n["k"]
        if k == "ctl":
            enc_node_seq(n["kids"], out)
        elif k == "t":
            out += ["t", str(n["v"])]
        elif k == "c":
            out += ["c", n["r"], enc(n["x"]), enc_vals(n.get("pos", [])), enc_kws(n.get("kw", []))]
        elif k == "a":
            out += ["a", n["r"], enc(n["x"])]
        elif k == "i":
            out += ["i", str(n["t"])]
        elif k == "g":
            out.append("g")
        elif k == "d":
            out += ["d", enc(n["n"]), enc_sig(n.get("sig", []))]
            enc_nodes(n["kids"], out)
        elif k == "b":
            out += ["b", "~" if n["n"] is None else enc(n["n"]), str(n["line"])]
            enc_nodes(n["kids"], out)
        elif k == "x":
            out.append("x")
            enc_nodes(n["kids"], out)


def buffered_blocks(nodes, names, lines):
    """names of the buffered named blocks, source lines of the buffered anonymous blocks (layout done before)"""
    for n in nodes:
        if n["k"] == "b" and n.get("buf"):
            if n["n"] is None:
                lines.append(n["line"])
            else:
                names.append(n["n"])
        if "kids" in n:
            buffered_blocks(n["kids"], names, lines)


def enc_levels(case):
    out = []
    for lv in case["levels"]:
        names, lines = [], []
        buffered_blocks(lv["nodes"], names, lines)
        out += ["L", lv["inh"], enc_sig(lv["sig"]), enc_kws(lv["attrs"]),
                "/".join(enc(x) for x in names) if names else "-", enc_vals(lines)]
        enc_nodes(lv["nodes"], out)
    return " ".join(out)


def render_req(case):
    sources(case)            # fills in the block lines
    if case.get("lib"):
        subs = subcases(case)
        for sc_ in subs:
            sources(sc_)
        return "inh renderlib 6 %d %s C %s" % (FUEL, enc_kws(case.get("data", [])),
                                                " C ".join([enc_levels(case)] + [enc_levels(sc_) for sc_ in subs]))
    return "inh render %d %s %s" % (FUEL, enc_kws(case.get("data", [])), enc_levels(case))


def parse_model_render(resp):
    f = resp.split(" ")
    if f[0] == "exc":
        return ("exc", f[1])
    if f[0] != "ok":
        return ("bad", resp)
    toks = []
    for t in f[1:]:
        if t[0] == "t":
            toks.append(("t", int(t[1:])))
        elif t[0] == "v":
            toks.append(("v", int(t[1:])))
        elif t[0] == "g":
            b, e = t[1:].split("|")
            toks.append(("g", dec_kws(b), dec_kws(e)))
    return ("ok", toks)


def dec_kws(s):
    if s == "-":
        return ()
    res = []
    for part in s.split("/"):
        k, v = part.split(":")
        res.append((dec(k), int(v)))
    return tuple(res)


# =========================================================================== implementation side

TOK = re.compile(r"\[t(\d+)\]|\{v(\d+|None|False|)\}|\{g([^}]*)\}")


def tokenize(out):
    s = re.sub(r"\s+", "", out)
    toks, pos = [], 0
    for m in TOK.finditer(s):
        if m.start() != pos:
            toks.append(("garbage", s[pos:m.start()][:60]))
        pos = m.end()
        if m.group(1) is not None:
            toks.append(("t", int(m.group(1))))
        elif m.group(2) is not None:
            toks.append(("v", PRINTED[m.group(2)] if m.group(2) in PRINTED else int(m.group(2))))
        else:
            b, e = m.group(3).split(";", 1)
            bound = tuple((kv.split("=")[0], int(kv.split("=")[1])) for kv in b.split(",") if kv)
            extra = tuple((k, v) for k, v in pyast.literal_eval(e))
            toks.append(("g", bound, extra))
    if pos != len(s):
        toks.append(("garbage", s[pos:][:60]))
    return toks


def exc_kind(e):
    from mako import exceptions as X
    if isinstance(e, (X.CompileException, X.SyntaxException)):
        return "compile"
    if isinstance(e, X.TemplateLookupException):
        return "lookup"
    if isinstance(e, AttributeError):
        return "attribute"
    if isinstance(e, TypeError):
        return "type"
    if isinstance(e, RecursionError):
        return "recursion"
    return "other:" + type(e).__name__


class Impl:
    """runs a case on the real mako"""

    def __init__(self):
        self.tmp = None

    def close(self):
        if self.tmp:
            shutil.rmtree(self.tmp, ignore_errors=True)
            self.tmp = None

    def lookup(self, case, srcs=None):
        from mako.lookup import TemplateLookup
        srcs = srcs or sources(case)
        subs = subcases(case)
        if case.get("fb"):
            if self.tmp is None:
                self.tmp = tempfile.mkdtemp(prefix="c06_")
            d = tempfile.mkdtemp(dir=self.tmp)
            for i, s in enumerate(srcs):
                with open(os.path.join(d, "t%d.html" % i), "w", encoding="utf-8") as f:
                    f.write(s)
            for sc_ in subs:
                for i, s in enumerate(sources(sc_)):
                    with open(os.path.join(d, "%st%d.html" % (sc_["pre"], i)), "w", encoding="utf-8") as f:
                        f.write(s)
            md = os.path.join(d, "mods") if case.get("fb") == 2 else None
            return TemplateLookup(directories=[d], module_directory=md), d
        lk = TemplateLookup()
        for sc_ in subs:
            ssrcs = sources(sc_)
            e_ = 1
            while e_ <= len(ssrcs) and sc_["levels"][e_ - 1]["inh"] in ("S", "D"):
                e_ += 1
            for i, s in enumerate(ssrcs[:e_]):
                lk.put_string(uri_of(i, False, sc_["pre"]), s)
        # put_string compiles at once; templates beyond the end of the chain (after an inherit evaluating to None)
        # are never looked up by a render, so they are not put (a file-backed lookup holds them all, uncompiled)
        eff = 1
        while eff <= len(srcs) and case["levels"][eff - 1]["inh"] in ("S", "D"):
            eff += 1
        for i, s in enumerate(srcs[:eff]):
            lk.put_string(uri_of(i, False), s)
        return lk, None

    def render(self, case):
        d = None
        old = sys.getrecursionlimit()
        try:
            try:
                lk, d = self.lookup(case)
                if case.get("entry"):
                    # a def / block of template j rendered on its own: Template.get_def(name).render(**data)
                    j, x = case["entry"]
                    t = lk.get_template(uri_of(j, case.get("fb")))
                    out = t.get_def(x).render(**dict(case.get("data", [])))
                else:
                    t = lk.get_template(uri_of(0, case.get("fb")))
                    out = t.render(**dict(case.get("data", [])))
            except Exception as e:      # noqa
                return ("exc", exc_kind(e))
            return ("ok", tokenize(out))
        finally:
            if d:
                shutil.rmtree(d, ignore_errors=True)

    def graph(self, case):
        """the object graph after the inherit phase, canonicalised: (callable tmpl, callable ctx, ns list, ctx list)"""
        from mako import runtime, util
        lk, d = self.lookup(case)
        try:
            t0 = lk.get_template(uri_of(0, case.get("fb")))
            ctx = runtime.Context(util.FastEncodingBuffer())
            ctx._set_with_template(t0)
            callable_, lclctx = runtime._populate_self_namespace(ctx, t0)
            nss = []
            ns = ctx._data["self"]
            while ns is not None and len(nss) < 50:
                nss.append(ns)
                ns = ns.inherits
            nsid = {id(n): i for i, n in enumerate(nss)}
            ctxs = []
            for n in nss:
                if not any(c is n.context for c in ctxs):
                    ctxs.append(n.context)
            cid = lambda c: next(i for i, x in enumerate(ctxs) if x is c)
            tid = {}
            for i in range(len(case["levels"])):
                try:
                    tid[id(lk.get_template(uri_of(i, case.get("fb"))).module.__dict__)] = i
                except Exception:
                    pass
            nsdump = [(tid.get(id(n.module.__dict__), -1), cid(n.context), nsid.get(id(n.inherits)) if n.inherits is not None else None)
                      for n in nss]
            cdump = [tuple(nsid.get(id(c._data[k]), -2) if k in c._data else None for k in ("self", "local", "next", "parent"))
                     for c in ctxs]
            return {"callable": (tid.get(id(callable_.__globals__), -1), cid(lclctx), callable_.__name__), "nss": nsdump, "ctxs": cdump,
                    "objs": (nss, ctxs, tid)}
        finally:
            if d:
                shutil.rmtree(d, ignore_errors=True)


def opt(x):
    return "~" if x is None else str(x)


# =========================================================================== the rules of the property text (oracle)

class OErr(Exception):
    def __init__(self, kind):
        self.kind = kind


class Discard(Exception):
    pass


def block_defs(nodes, acc):
    """named blocks reachable through blocks (the ones the compiler hoists), in document order"""
    for n in nodes:
        if n["k"] == "b":
            if n["n"] is not None:
                acc.append(n)
            block_defs(n["kids"], acc)
        elif n["k"] == "ctl":
            block_defs(n["kids"], acc)
    return acc


def all_named_blocks(nodes, under, acc):
    """(name, under a def or call?) for every named block anywhere"""
    for n in nodes:
        if n["k"] == "b":
            if n["n"] is not None:
                acc.append((n["n"], under))
            all_named_blocks(n["kids"], under, acc)
        elif n["k"] in ("d", "x"):
            all_named_blocks(n["kids"], True, acc)
        elif n["k"] == "ctl":
            all_named_blocks(n["kids"], under, acc)
    return acc


def rules_compile_fault(nodes):
    """by the property text: block names unique within a template; named blocks inside defs or calls rejected.
    (A def and a block of one name in one template is also a duplicate member name.)"""
    blocks = all_named_blocks(nodes, False, [])
    names = [b for b, _ in blocks]
    if len(set(names)) != len(names):
        return "dup"
    if any(u for _, u in blocks):
        return "misplaced"
    def top_defs(ns):
        return [n["n"] for n in ns if n["k"] == "d"] + [x for n in ns if n["k"] == "ctl" for x in top_defs(n["kids"])]
    tops = top_defs(nodes)
    if set(tops) & set(names):
        return "dup"
    return None


class Rules:
    def __init__(self, case, lib=None, shared=None):
        # an included template is rendered like a top-level one: by a Rules object of its own chain (nothing of the
        # includer's chain is visible through self/next/parent/local); only the work budget is shared
        self.lib = subcases(case) if lib is None else lib
        self.bud = shared.bud if shared is not None else [40000]
        lv = case["levels"]
        n = 1
        while n <= len(lv) and lv[n - 1]["inh"] in ("S", "D"):
            n += 1
        self.missing_target = n > len(lv)
        self.levels = lv[:min(n, len(lv))]
        self.m = len(self.levels) - 1
        self.case = case
        self.members = []
        for l in self.levels:
            d = {}
            for b in block_defs(l["nodes"], []):
                d.setdefault(b["n"], ("block", b["kids"], []))
            for n_ in l["nodes"]:
                if n_["k"] == "d":
                    d[n_["n"]] = ("def", n_["kids"], n_.get("sig", []))     # the last definition of a name is the module's
            d["body"] = ("body", l["nodes"], l["sig"])
            self.members.append(d)

    def from_(self, j, x):
        for k in range(j, self.m + 1):
            if x in self.members[k]:
                return k
        return None

    def ref(self, i, r):
        """index where the search of `r.X` starts in template i, by the property text"""
        if r == "s":
            return 0
        if r == "l":
            return i
        if r == "n":
            if i == 0:
                raise OErr("attribute")
            return i - 1
        if i == self.m:
            raise OErr("attribute")
        return i + 1

    def call(self, j, x, pos, kw, depth):
        k = self.from_(j, x)
        if k is None:
            raise OErr("attribute")
        kind, kids, msig = self.members[k][x]
        params = [inspect.Parameter(p, inspect.Parameter.POSITIONAL_OR_KEYWORD,
                                    default=inspect.Parameter.empty if d is None else d)
                  for p, d in msig]
        if kind != "def":
            params.append(inspect.Parameter("pageargs", inspect.Parameter.VAR_KEYWORD))
        try:
            ba = inspect.Signature(params).bind(*pos, **dict(kw))
        except TypeError:
            raise OErr("type")
        ba.apply_defaults()
        bound = tuple((p, ba.arguments[p]) for p, _ in msig)
        extra = tuple(ba.arguments.get("pageargs", {}).items()) if kind != "def" else None
        return self.run(k, kids, bound, extra, depth + 1)

    def run(self, i, nodes, bound, extra, depth):
        if depth > 120:
            raise OErr("recursion")
        out = []
        for n in nodes:
            self.bud[0] -= 1
            if self.bud[0] < 0:
                raise Discard()
            k = n["k"]
            if k == "t":
                out.append(("t", n["v"]))
            elif k == "g":
                out.append(("g", bound, tuple(extra or ())))
            elif k == "d":
                pass
            elif k == "ctl":
                out += self.run(i, n["kids"], bound, extra, depth + 1)
            elif k == "i":          # <%include>: the target's chain, base-most body first, no arguments, in place
                if not (1 <= n["t"] <= len(self.lib)):
                    raise OErr("lookup")
                out += Rules(self.lib[n["t"] - 1], lib=self.lib, shared=self).render_included(depth)
            elif k == "x":          # the callee writes caller.body() once: the content, in the caller's scope
                out += self.run(i, n["kids"], bound, extra, depth + 1)
            elif k == "a":
                j = self.ref(i, n["r"])
                for q in range(j, self.m + 1):
                    d = dict(self.levels[q]["attrs"])
                    if n["x"] in d:
                        out.append(("v", d[n["x"]]))
                        break
                else:
                    raise OErr("attribute")
            elif k == "c":
                out += self.call(self.ref(i, n["r"]), n["x"], n.get("pos", []), n.get("kw", []), depth)
            elif k == "b":
                if n["n"] is None:
                    out += self.run(i, n["kids"], bound, extra, depth + 1)
                elif self.from_(i + 1, n["n"]) is None:          # base-most template declaring it
                    out += self.call(0, n["n"], [], list(extra or ()), depth)
        return out

    def render_included(self, depth):
        for l in self.levels:
            if rules_compile_fault(l["nodes"]):
                raise OErr("compile")
        if self.missing_target:
            raise OErr("lookup")
        return self.call(self.m, "body", [], [], depth + 1)

    def render(self):
        for l in self.levels:
            if rules_compile_fault(l["nodes"]):
                return ("exc", "compile")
        if self.missing_target:
            return ("exc", "lookup")
        try:
            return ("ok", self.call(self.m, "body", [], self.case.get("data", []), 0))
        except OErr as e:
            return ("exc", e.kind)


def entry_render(case):
    """by the property text: `T_j.get_def(x).render(**data)` renders T_j's own definition of x with T_j as the most
    derived template of the chain T_j .. base: self and local are T_j, parent is the adjacent template toward the base
    (absent when T_j inherits nothing), next is absent; nothing of the templates that inherit from T_j is visible.
    A def receives the entries of the data that name its parameters, a block all of them (as pageargs)."""
    j, x = case["entry"]
    full = Rules(case)
    if not case.get("fb"):
        # a put_string lookup compiles every template when it is put, also those the entry template never reaches
        for l in full.levels[:j]:
            if rules_compile_fault(l["nodes"]):
                return ("exc", "compile")
    if j > full.m:
        return ("exc", "lookup")
    sub = dict(case, levels=case["levels"][j:])
    sub.pop("entry")
    r = Rules(sub)
    if rules_compile_fault(r.levels[0]["nodes"]):
        return ("exc", "compile")
    if x == "body" or x not in r.members[0]:
        return ("exc", "attribute")          # get_def: the template itself has to declare the member
    for l in r.levels[1:]:
        if rules_compile_fault(l["nodes"]):
            return ("exc", "compile")
    if r.missing_target:
        return ("exc", "lookup")
    kind, _, msig = r.members[0][x]
    data = [list(kv) for kv in case.get("data", [])]
    kw = data if kind != "def" else [kv for kv in data if kv[0] in {p for p, _ in msig}]
    try:
        return ("ok", r.call(0, x, [], kw, 0))
    except OErr as e:
        return ("exc", e.kind)


def oracle_render(case):
    old = sys.getrecursionlimit()
    sys.setrecursionlimit(max(old, 5000))
    try:
        if case.get("entry"):
            return entry_render(case)
        return Rules(case).render()
    finally:
        sys.setrecursionlimit(old)


# =========================================================================== generator

class Gen:
    def __init__(self, rng, quick):
        self.rng = rng
        self.quick = quick
        self.tag = 0

    def t(self):
        self.tag += 1
        return {"k": "t", "v": self.tag}

    def nl(self, n):
        if self.rng.random() < 0.3:
            n["nl"] = True
        return n

    def chain_with_lib(self, **kw):
        """a main chain plus 1-2 further chains (same member-name pool, no <%page args>) that templates of the main
        chain - and of earlier library chains - <%include>; include nodes are planted in bodies, blocks and defs"""
        rng = self.rng
        self.tag = 0
        lib = []
        for _ in range(rng.randint(1, 2)):
            c = self.chain(wild=kw.get("wild", 0.05), fb=kw.get("fb", 0), keep_tags=True, maxlev=3, nosig=True)
            c = spread_lines(c)
            lib.append({"levels": c["levels"]})
        main = self.chain(keep_tags=True, **kw)
        main["lib"] = lib

        def plant(levels, targets):
            for _ in range(rng.randint(1, 3)):
                lv = rng.choice(levels)
                holders = [lv["nodes"]] + [n["kids"] for n in lv["nodes"] if "kids" in n]
                h = rng.choice(holders)
                h.insert(rng.randint(0, len(h)), {"k": "i", "t": rng.choice(targets)})
        eff = 1
        while eff <= len(main["levels"]) and main["levels"][eff - 1]["inh"] in ("S", "D"):
            eff += 1
        plant(main["levels"][:eff], list(range(1, len(lib) + 1)))
        if len(lib) == 2 and rng.random() < 0.5:
            plant(lib[0]["levels"], [2])
        if rng.random() < kw.get("wild", 0.05):
            main["levels"][0]["nodes"].append({"k": "i", "t": len(lib) + 1})     # a template that does not exist
        return main

    def chain(self, hazards=False, faults=False, wild=0.05, fb=0, keep_tags=False, maxlev=5, nosig=False):
        rng = self.rng
        if not keep_tags:
            self.tag = 0
        nlev = min(maxlev, rng.choice([1, 2, 2, 3, 3, 3, 4, 4, 5]))
        pool = list(POOL[:rng.randint(2, 5)])
        if hazards:
            pool += rng.sample(HAZARD, rng.randint(1, 2))
        # declaration pattern: per level and name: def / block / nothing
        decl = []
        usual = {x: rng.choice("dbb") for x in pool}      # a name is mostly a def or mostly a block along the chain
        for i in range(nlev):
            d = {}
            for x in pool:
                if rng.random() < 0.6:
                    d[x] = usual[x] if rng.random() < 0.9 else ("d" if usual[x] == "b" else "b")
            decl.append(d)
        self.pool, self.decl, self.nlev, self.wild = pool, decl, nlev, wild
        # a def name has one signature along the chain (rarely a level deviates): none, or 1-2 parameters
        self.defsig = {}
        for x in pool:
            sg = []
            if usual[x] == "d" and rng.random() < 0.5:
                for p_ in PARAMS[:rng.randint(1, 2)]:
                    sg.append([p_, None if rng.random() < 0.4 else rng.randint(1, 9)])
                if len(sg) == 2 and sg[0][1] is not None and sg[1][1] is None:
                    sg[1][1] = rng.randint(1, 9)
            self.defsig[x] = sg
        rank = {x: j + 1 for j, x in enumerate(pool)}
        levels = []
        for i in range(nlev):
            last = i == nlev - 1
            lv = {"inh": ("N" if rng.random() < 0.8 else "Z") if last else rng.choice(["S", "S", "D"]),
                  "form": rng.randint(0, 4), "probe": rng.choice(pool), "hnl": rng.random() < 0.5,
                  "sig": [], "attrs": [], "nodes": []}
            if lv["inh"] == "Z":
                lv["form"] = rng.randint(0, 2)
            if rng.random() < 0.35 and not nosig:
                for p in PARAMS[:rng.randint(1, 2)]:
                    lv["sig"].append([p, None if rng.random() < 0.25 else rng.randint(1, 9)])
                if len(lv["sig"]) == 2 and lv["sig"][0][1] is not None and lv["sig"][1][1] is None:
                    lv["sig"][1][1] = rng.randint(1, 9)      # no non-default after default
            for a in ATTRS:
                if rng.random() < 0.4:
                    # mostly a number telling level and name apart; sometimes a falsy / None value
                    lv["attrs"].append([a, 1000 * (i + 1) + ATTRS.index(a) if rng.random() < 0.75
                                        else rng.choice([900001, 900001, 900002, 900003, 0])])
            levels.append(lv)
        self.levels = levels
        for i in range(nlev):
            lv = levels[i]
            self.level = i
            blocks = [x for x in pool if decl[i].get(x) == "b"]
            defs = [x for x in pool if decl[i].get(x) == "d"]
            rng.shuffle(blocks)
            # body
            body = [self.t()]
            if rng.random() < 0.5:
                body.append({"k": "g"})
            items = []
            for x in defs:
                dsig = copy.deepcopy(self.defsig[x]) if rng.random() < 0.92 else []
                kids = self.content(i, rank[x], 2, in_def=True)
                if dsig and rng.random() < 0.7:
                    kids.insert(1, {"k": "g"})
                items.append(self.nl({"k": "d", "n": x, "sig": dsig, "kids": kids}))
                if rng.random() < 0.07:      # an earlier def of the same name (replaced by the later one)
                    items.insert(0, {"k": "d", "n": x, "kids": [self.t()]})
            # place blocks: at body level, or nested into an earlier placed block of lower rank / an anonymous block
            placed = []
            for x in blocks:
                b = self.nl({"k": "b", "n": x, "kids": self.content(i, rank[x], 2, in_def=False)})
                if rng.random() < 0.3:
                    b["buf"] = True
                r = rng.random()
                hosts = [h for h in placed if rank[h["n"]] < rank[x]]
                if hosts and r < 0.4:
                    host = rng.choice(hosts)
                    host["kids"].insert(rng.randint(0, len(host["kids"])), b)
                elif r < 0.55:
                    items.append(self.anon([self.t(), b]))
                else:
                    items.append(b)
                placed.append(b)
            for _ in range(rng.randint(0, 3)):
                items += self.content(i, 0, 1, in_def=False)
            if i > 0 and rng.random() < 0.9:
                items.append(self.body_call("n", i))
            if i > 0 and rng.random() < 0.1:
                items.append(self.body_call("s", i))
            rng.shuffle(items)
            body += items
            body.append(self.t())
            lv["nodes"] = body
        case = {"levels": levels, "data": [], "fb": fb}
        if rng.random() < 0.03 and nlev >= 3:
            levels[rng.randint(0, nlev - 2)]["inh"] = "Z"      # a cut: the rest of the chain is never linked
        elif wild > 0.2 and rng.random() < 0.08:
            levels[-1]["inh"] = "S"                             # inherits from a template that does not exist
        eff = 1
        while eff <= nlev and levels[eff - 1]["inh"] in ("S", "D"):
            eff += 1
        eff = min(eff, nlev)
        base = levels[eff - 1]
        if rng.random() < 0.4:
            for k in rng.sample(["pa", "pb", "pz"], rng.randint(1, 2)):
                case["data"].append([k, rng.randint(10, 19)])
        if rng.random() > wild:
            have = {k for k, _ in case["data"]}
            for p, d in base["sig"]:
                if d is None and p not in have:
                    case["data"].append([p, rng.randint(10, 19)])
        if faults:
            self.plant(case, eff)
        return case

    def entry_case(self):
        """a chain (a fifth of them with included chains) plus an entry point: a def or named block that template j of
        the linked chain declares itself, rendered through get_def(name).render(**data); j is mostly an inheriting
        template. None when the draw has nothing to render that way."""
        rng = self.rng
        c = self.chain_with_lib() if rng.random() < 0.2 else self.chain()
        lib = c.get("lib")
        c = spread_lines(c)          # every block on a line of its own (two anonymous blocks on one line: F-C06-2)
        if lib is not None:
            c["lib"] = lib           # (the included chains are spread already)
        if rules_compile_fault_any(c) or any(rules_compile_fault_any(sc_) for sc_ in subcases(c)):
            return None
        r = Rules(c)
        if r.missing_target:
            return None
        j = rng.randint(0, max(r.m - 1, 0)) if rng.random() < 0.85 else r.m
        names = sorted(k for k in r.members[j] if k != "body")

        def own_buffered(nodes):
            acc = []
            for b in block_defs(nodes, []):
                if b.get("buf"):
                    acc.append(b["n"])
            return acc
        # excluded, exactly: the entry member itself is a buffered="True" block - its render function returns the
        # content instead of writing it and get_def().render() drops the return value (empty output); what a buffered
        # member delivers to its caller is C05's subject, not the dispatch rules of C06
        buf = set(own_buffered(c["levels"][j]["nodes"]))
        names = [x for x in names if not (x in buf and r.members[j][x][0] == "block")]
        if not names:
            return None
        x = rng.choice(names)
        kind, _, msig = r.members[j][x]
        data = []
        if rng.random() < 0.4:
            for k in rng.sample(["pa", "pb", "pz"], rng.randint(1, 2)):
                data.append([k, rng.randint(10, 19)])
        if rng.random() > self.wild:
            have = {k for k, _ in data}
            for p_, d_ in msig:
                if d_ is None and p_ not in have:
                    data.append([p_, rng.randint(10, 19)])
        c["data"] = data
        c["entry"] = [j, x]
        return c

    def anon(self, kids):
        n = {"k": "b", "n": None, "kids": kids}
        if self.rng.random() < 0.25:
            n["buf"] = True
        if self.rng.random() < 0.93:
            n["nl"] = True
        return n

    def body_call(self, r, i):
        """r.body(...) from the body of level i, with arguments the target's <%page> signature accepts"""
        rng = self.rng
        n = {"k": "c", "r": r, "x": "body", "pos": [], "kw": []}
        sig = self.levels[i - 1 if r == "n" else 0]["sig"]
        wild = rng.random() < self.wild
        if wild:
            if rng.random() < 0.5:
                n["pos"] = [rng.randint(20, 29) for _ in range(rng.randint(1, 3))]
            for k in rng.sample(KWNAMES, rng.randint(0, 2)):
                n["kw"].append([k, rng.randint(30, 39)])
            return self.nl(n)
        npos = rng.randint(0, len(sig)) if rng.random() < 0.5 else 0
        n["pos"] = [rng.randint(20, 29) for _ in range(npos)]
        given = {p for p, _ in sig[:npos]}
        for p, d in sig[npos:]:
            if d is None or rng.random() < 0.4:
                n["kw"].append([p, rng.randint(30, 39)])
                given.add(p)
        if rng.random() < 0.4:
            for k in rng.sample(KWNAMES, rng.randint(1, 2)):
                if k not in given:
                    n["kw"].append([k, rng.randint(30, 39)])
                    given.add(k)
        rng.shuffle(n["kw"])
        return self.nl(n)

    def content(self, i, rk, size, in_def):
        """contents of a member of rank `rk` of level i (body: rank 0): tags, attribute reads, anonymous blocks and
        calls that cannot recurse: parent.X for any X, or self/next/local.X for X of higher rank"""
        rng = self.rng
        out = [self.t()]
        for _ in range(rng.randint(0, size)):
            r = rng.random()
            if r < 0.3:
                out.append(self.t())
            elif r < 0.75:
                out.append(self.member_call(i, rk))
            elif r < 0.9:
                ref = rng.choice(["s", "s", "p", "l", "n"])
                if rng.random() > self.wild:
                    if ref == "n" and i == 0:
                        ref = "s"
                    if ref == "p" and i == self.nlev - 1:
                        ref = "l"
                if rng.random() > self.wild:
                    start = {"s": 0, "l": i, "n": max(i - 1, 0), "p": min(i + 1, self.nlev - 1)}[ref]
                    have = sorted({a for lv in self.levels[start:] for a, _ in lv["attrs"]})
                    if not have:
                        out.append(self.t())
                        continue
                    out.append({"k": "a", "r": ref, "x": rng.choice(have)})
                else:
                    out.append({"k": "a", "r": ref, "x": rng.choice(ATTRS + ["aq"])})
            elif rng.random() < 0.5:
                out.append(self.anon([self.t()]))
            else:
                kids = [self.t()]
                if rng.random() < 0.6:
                    kids.append(self.member_call(i, rk))
                if rng.random() < 0.3:
                    kids.append(self.anon([self.t()]))
                out.append(self.nl({"k": "x", "kids": kids, "form": rng.randint(0, 1)}))
        if not in_def and rng.random() < 0.15:
            out.append({"k": "g"})
        return out

    def member_call(self, i, rk):
        rng = self.rng
        wild = rng.random() < self.wild
        ref = rng.choice(["s", "s", "p", "p", "l", "n"])
        if 0 < i < self.nlev - 1 and rng.random() < 0.25:
            ref = "l"                     # `local` in an intermediate template (its own definition, else toward the base)
        if not wild:
            if ref == "n" and i == 0:
                ref = "s"
            if ref == "p" and i == self.nlev - 1:
                ref = "s"
        if wild:
            cands = self.pool
        elif ref == "p":
            cands = [x for j, x in enumerate(self.pool) if j + 1 >= rk]
        else:
            cands = [x for j, x in enumerate(self.pool) if j + 1 > rk]
        if not wild:
            # prefer names that resolve from where the reference points
            start = {"s": 0, "l": i, "n": max(i - 1, 0), "p": min(i + 1, self.nlev - 1)}[ref]
            ok = [x for x in cands if any(x in self.decl[k] for k in range(start, self.nlev))]
            cands = ok or cands
        if not cands:
            return self.t()
        x = rng.choice(cands) if rng.random() > (self.wild / 2) else "nosuch"
        n = {"k": "c", "r": ref, "x": x, "pos": [], "kw": []}
        sg = self.defsig.get(x, [])
        if sg and not wild:
            # arguments the def's signature accepts; keywords only when some level declares x as a block
            mixed = any(self.decl[k].get(x) == "b" for k in range(self.nlev))
            npos = 0 if mixed else rng.randint(0, len(sg))
            n["pos"] = [rng.randint(50, 59) for _ in range(npos)]
            for p_, d_ in sg[npos:]:
                if d_ is None or rng.random() < 0.4:
                    n["kw"].append([p_, rng.randint(60, 69)])
            rng.shuffle(n["kw"])
        elif rng.random() < 0.08 and (wild or all(self.decl[k].get(x) != "d" for k in range(self.nlev))):
            n["kw"] = [[rng.choice(KWNAMES), rng.randint(40, 49)]]
        if wild and rng.random() < 0.2:
            n["pos"] = [1]
        return n

    def plant(self, case, eff):
        """block faults: duplicate block name, def/block clash, named block under def / call"""
        rng = self.rng
        lv = rng.choice(case["levels"][:eff])
        kind = rng.choice(["dup", "clash", "indef", "incall", "indef-anon"])
        x = rng.choice(POOL)
        b = {"k": "b", "n": x, "kids": [self.t()]}
        nodes = lv["nodes"]
        if kind == "dup":
            nodes.insert(rng.randint(0, len(nodes)), b)
            nodes.insert(rng.randint(0, len(nodes)), {"k": "b", "n": x, "kids": [self.t()]})
        elif kind == "clash":
            nodes.insert(rng.randint(0, len(nodes)), b)
            nodes.insert(rng.randint(0, len(nodes)), {"k": "d", "n": x, "kids": [self.t()]})
        elif kind == "indef":
            nodes.insert(rng.randint(0, len(nodes)), {"k": "d", "n": "zd", "kids": [self.t(), b]})
        elif kind == "indef-anon":
            nodes.insert(rng.randint(0, len(nodes)),
                         {"k": "d", "n": "zd", "kids": [{"k": "b", "n": None, "kids": [b], "nl": True}]})
        else:
            nodes.insert(rng.randint(0, len(nodes)), {"k": "x", "kids": [b], "form": rng.randint(0, 1)})

    # ---- trees for the compile-only stream
    def tree(self):
        rng = self.rng
        self.tag = 0
        names = ["ma", "mb", "mc", "md"]
        dnames = ["da", "db", "dc"]
        mode = rng.choice(["clean", "clean", "faulty", "faulty", "wild"])
        used = []

        def fresh_block():
            if mode == "clean":
                cand = [x for x in names + ["me", "mf", "mg", "mh"] if x not in used]
                if not cand:
                    return None
                x = rng.choice(cand)
            else:
                x = rng.choice(names)
            used.append(x)
            return x

        def fresh_def():
            if mode == "clean" or rng.random() < 0.6:
                cand = [x for x in dnames + ["dd", "de", "df", "dg", "dh", "di"] if x not in used]
                if cand:
                    x = rng.choice(cand)
                    used.append(x)
                    return x
            return rng.choice(dnames + (names if mode != "clean" else []))

        def go(depth, under, budget):
            out = []
            for _ in range(rng.randint(1, 3)):
                if budget[0] <= 0:
                    break
                budget[0] -= 1
                r = rng.random()
                if r < 0.25 or depth > 3:
                    out.append(self.t())
                elif r < 0.5:
                    allow_named = (not under) or mode != "clean"
                    if allow_named and rng.random() < (0.7 if not under else 0.25):
                        x = fresh_block()
                        if x is None:
                            continue
                        out.append({"k": "b", "n": x, "kids": go(depth + 1, under, budget), "nl": rng.random() < 0.6})
                    else:
                        out.append({"k": "b", "n": None, "kids": go(depth + 1, under, budget),
                                    "nl": rng.random() < (0.6 if mode != "clean" else 1.0)})
                elif r < 0.8:
                    out.append({"k": "d", "n": fresh_def(), "kids": go(depth + 1, True, budget), "nl": rng.random() < 0.5})
                else:
                    out.append({"k": "x", "kids": go(depth + 1, True, budget), "form": rng.randint(0, 1),
                                "nl": rng.random() < 0.5})
            return out
        nodes = go(0, False, [rng.randint(3, 14)])
        if mode != "clean" and rng.random() < 0.15:
            # a def holding a named block, replaced by a later def of the same name (F-C06-3, repaired)
            nodes.insert(rng.randint(0, len(nodes)), {"k": "d", "n": "dz", "kids": [{"k": "b", "n": "mz", "kids": [self.t()], "nl": True}]})
            nodes.append({"k": "d", "n": "dz", "kids": [self.t()]})
        return nodes


# =========================================================================== compile-only stream

def tree_source(nodes):
    w = Writer()
    emit_nodes(nodes, w, [], "body")
    return w.text() + ZCALL


def impl_compile(nodes):
    from mako.template import Template
    from mako import exceptions as X
    src = tree_source(nodes)
    try:
        Template(src)
    except X.CompileException as e:
        msg = str(e)
        if "already exists" in msg:
            return "anon" if "__M_anon_" in msg else "dup"
        if "not allowed inside of def" in msg:
            return "indef"
        if "not allowed inside of <%call>" in msg:
            return "incall"
        return "compile:" + msg[:60]
    except Exception as e:          # noqa
        return "other:" + type(e).__name__
    return "ok"


def anon_same_line(nodes, acc=None):
    acc = [] if acc is None else acc
    for n in nodes:
        if n["k"] == "b" and n["n"] is None:
            acc.append(n["line"])
        if "kids" in n:
            anon_same_line(n["kids"], acc)
    return acc


def def_names(nodes, acc=None):
    acc = [] if acc is None else acc
    for n in nodes:
        if n["k"] == "d":
            acc.append(n["n"])
        if "kids" in n:
            def_names(n["kids"], acc)
    return acc


# =========================================================================== shrinking

def node_paths(nodes, prefix=()):
    for i, n in enumerate(nodes):
        yield prefix + (i,)
        if "kids" in n:
            yield from node_paths(n["kids"], prefix + (i, "kids"))


def remove_at(nodes, path, hoist):
    cur = nodes
    for p in path[:-1]:
        cur = cur[p] if p != "kids" else cur["kids"]
    idx = path[-1]
    n = cur[idx]
    if hoist and "kids" in n:
        cur[idx:idx + 1] = n["kids"]
    else:
        del cur[idx]


def shrink_case(case, fails, max_tests=250):
    tests = [0]

    def ok(c):
        if tests[0] >= max_tests:
            return False
        tests[0] += 1
        try:
            return bool(fails(c))
        except Exception:
            return False
    cur = copy.deepcopy(case)
    progress = True
    while progress and tests[0] < max_tests:
        progress = False
        # drop a level
        for k in range(len(cur["levels"]) - 1, -1, -1):
            if len(cur["levels"]) <= 1:
                break
            c = copy.deepcopy(cur)
            if c.get("entry"):
                if k == c["entry"][0]:
                    continue              # the template whose def is rendered stays
                if k < c["entry"][0]:
                    c["entry"] = [c["entry"][0] - 1, c["entry"][1]]
            del c["levels"][k]
            if c["levels"][-1]["inh"] in ("S", "D"):
                c["levels"][-1]["inh"] = "N"
            if ok(c):
                cur, progress = c, True
                break
        # drop data / sig / attrs
        for key in ("data",):
            if cur.get(key):
                c = copy.deepcopy(cur)
                c[key] = []
                if ok(c):
                    cur, progress = c, True
        for li in range(len(cur["levels"])):
            for key in ("sig", "attrs"):
                if cur["levels"][li][key]:
                    c = copy.deepcopy(cur)
                    c["levels"][li][key] = []
                    if ok(c):
                        cur, progress = c, True
            if cur["levels"][li]["inh"] == "D":
                c = copy.deepcopy(cur)
                c["levels"][li]["inh"] = "S"
                if ok(c):
                    cur, progress = c, True
        # remove / hoist nodes
        for li in range(len(cur["levels"])):
            changed = True
            while changed and tests[0] < max_tests:
                changed = False
                for path in sorted(node_paths(cur["levels"][li]["nodes"]), key=lambda p: -len(p)):
                    for hoist in (False, True):
                        c = copy.deepcopy(cur)
                        try:
                            remove_at(c["levels"][li]["nodes"], path, hoist)
                        except Exception:
                            continue
                        if ok(c):
                            cur, progress, changed = c, True, True
                            break
                    if changed:
                        break
        # simplify the included chains: drop trailing templates, empty a template
        for k in range(len(cur.get("lib", []))):
            for li in range(len(cur["lib"][k]["levels"]) - 1, -1, -1):
                c = copy.deepcopy(cur)
                lvls = c["lib"][k]["levels"]
                if li > 0:
                    del lvls[li:]
                    lvls[-1]["inh"] = "N"
                else:
                    if not lvls[0]["nodes"]:
                        continue
                    lvls[0]["nodes"] = []
                if ok(c):
                    cur, progress = c, True
                    break
            for li in range(len(cur["lib"][k]["levels"])):
                changed = True
                while changed and tests[0] < max_tests:
                    changed = False
                    for path in sorted(node_paths(cur["lib"][k]["levels"][li]["nodes"]), key=lambda p: -len(p)):
                        c = copy.deepcopy(cur)
                        try:
                            remove_at(c["lib"][k]["levels"][li]["nodes"], path, False)
                        except Exception:
                            continue
                        if ok(c):
                            cur, progress, changed = c, True, True
                            break
        # drop call arguments
        c = copy.deepcopy(cur)
        strip_args(c)
        if c != cur and ok(c):
            cur, progress = c, True
        # drop buffered flags
        c = copy.deepcopy(cur)
        strip_buf(c)
        if c != cur and ok(c):
            cur, progress = c, True
        # drop newlines
        c = copy.deepcopy(cur)
        strip_nl(c)
        if c != cur and ok(c):
            cur, progress = c, True
    return cur


def strip_args(case):
    def go(nodes):
        for n in nodes:
            if n["k"] == "c":
                n["pos"], n["kw"] = [], []
            if n["k"] == "d":
                n["sig"] = []
            if "kids" in n:
                go(n["kids"])
    for lv in case["levels"]:
        go(lv["nodes"])


def strip_buf(case):
    def go(nodes):
        for n in nodes:
            n.pop("buf", None)
            if "kids" in n:
                go(n["kids"])
    for lv in case["levels"]:
        go(lv["nodes"])


def strip_nl(case):
    def go(nodes):
        for n in nodes:
            n.pop("nl", None)
            if "kids" in n:
                go(n["kids"])
    for lv in case["levels"]:
        lv["hnl"] = False
        go(lv["nodes"])


def rename_members(case, mapping):
    c = copy.deepcopy(case)

    def go(nodes):
        for n in nodes:
            if n["k"] in ("d", "b") and n.get("n") in mapping:
                n["n"] = mapping[n["n"]]
            if n["k"] == "c" and n["x"] in mapping:
                n["x"] = mapping[n["x"]]
            if "kids" in n:
                go(n["kids"])
    for lv in c["levels"]:
        go(lv["nodes"])
    return c


def spread_lines(case):
    """every block on a line of its own"""
    c = copy.deepcopy(case)

    def go(nodes):
        for n in nodes:
            if n["k"] == "b":
                n["nl"] = True
            if "kids" in n:
                go(n["kids"])
    for lv in c["levels"]:
        go(lv["nodes"])
    return c


def unshadow(case):
    """give every def a name of its own (references keep pointing at the surviving, i.e. last, definition)"""
    c = copy.deepcopy(case)
    cnt = [0]

    def go(nodes):
        seen = {}
        for n in nodes:
            if n["k"] == "d":
                seen.setdefault(n["n"], []).append(n)
            if "kids" in n:
                go(n["kids"])
        for nm, ds in seen.items():
            for d in ds[:-1]:
                cnt[0] += 1
                d["n"] = "zs%d" % cnt[0]
    for lv in c["levels"]:
        go(lv["nodes"])
    return c


def member_names(case):
    s = set()

    def go(nodes):
        for n in nodes:
            if n["k"] in ("d", "b") and n.get("n"):
                s.add(n["n"])
            if n["k"] == "c":
                s.add(n["x"])
            if "kids" in n:
                go(n["kids"])
    for lv in case["levels"]:
        go(lv["nodes"])
    return s


def classify(case, impl, differs):
    """stable site name of a violating (minimised) case, decided by causal tests: the violation is attributed to an
    input class only if removing exactly that feature makes the implementation follow the rules again"""
    hz = sorted(member_names(case) & set(NS_ATTRS))
    if hz:
        ren = rename_members(case, {h: "zh%d" % i for i, h in enumerate(hz)})
        if not differs(ren):
            return "member-named-like-namespace-attribute"
    sp = spread_lines(case)
    if sp != case and not differs(sp):
        return "anonymous-blocks-on-one-line"
    us = unshadow(case)
    if us != case and not differs(us):
        # F-C06-3 is repaired in /repo (14dadc4) and no longer listed in known_findings.json: this site is kept as a
        # regression detector - should the defect come back it is reported under this name as an unknown violation
        return "named-block-in-replaced-def"
    return "inheritance-dispatch"


def ns_attrs_now():
    """attribute names of a live TemplateNamespace (independent of the regenerated table)"""
    from mako.template import Template
    from mako import runtime, util
    t = Template("x")
    ctx = runtime.Context(util.FastEncodingBuffer())
    ctx._set_with_template(t)
    runtime._populate_self_namespace(ctx, t)
    ns = ctx._data["self"]
    return {a for a in dir(ns) if not (a.startswith("__") and a.endswith("__"))}


NS_ATTRS = set(HAZARD)


def public(case):
    """what goes into a replay / finding: the sources and the data, plus the structured case"""
    c = copy.deepcopy(case)
    srcs = sources(c)
    parts = ["%s: %s" % (uri_of(i, c.get("fb")), s) for i, s in enumerate(srcs)]
    for sc_ in subcases(c):
        parts += ["%s: %s" % (uri_of(i, c.get("fb"), sc_["pre"]), s) for i, s in enumerate(sources(sc_))]
    if c.get("entry"):
        parts.append("rendered: lookup.get_template(%r).get_def(%r).render(**data)"
                     % (uri_of(c["entry"][0], c.get("fb")), c["entry"][1]))
    return {"input": "\n---\n".join(parts),
            "data": c.get("data", []), "case": c}


# =========================================================================== streams

def is_nontrivial(case):
    lv = case["levels"]
    if len(lv) < 2:
        return False
    seen = {}
    nested = False
    for i, l in enumerate(lv):
        for b in block_defs(l["nodes"], []):
            seen.setdefault(b["n"], set()).add(i)
            if block_defs(b["kids"], []):
                nested = True
        for n in l["nodes"]:
            if n["k"] == "d":
                seen.setdefault(n["n"], set()).add(i)
    return nested or any(len(s) >= 2 for s in seen.values())


def corr_and_oracle_render(ctx, impl, gen, n, label, **kw):
    drv = ctx.driver()
    cases, wants = [], []
    while len(cases) < n:
        # a third of the cases <%include> further chains of the same lookup
        c = gen.chain_with_lib(**kw) if gen.rng.random() < 0.33 else gen.chain(**kw)
        if c.get("lib"):
            ctx.branch("with-includes")
        try:
            w = oracle_render(c)          # the rules first: explosive cases (output > budget) are dropped
        except Discard:
            ctx.branch("oracle:discarded")
            continue
        cases.append(c)
        wants.append(w)
    try:
        outs = drv.ask_many([render_req(c) for c in cases])
    except Exception as e:      # noqa - the oracle below runs regardless
        ctx.broke("correspondence:driver", "corr.render: %r" % (e,))
        outs = [None] * len(cases)
    sc = ctx.stream("corr.render")
    so = ctx.stream("oracle.render", "oracle")
    nviol = ndis = 0
    for c, o, want in zip(cases, outs, wants):
        real = impl.render(c)
        model = parse_model_render(o) if o is not None else real
        if o is not None:
            sc["cases"] += 1
        ctx.branch("%s:levels=%d" % (label, len(c["levels"])))
        ctx.branch("result:" + (real[1] if real[0] == "exc" else "ok"))
        if is_nontrivial(c):
            ctx.nontriv((tuple(sources(c)), tuple(map(tuple, c["data"]))))
        if model != real:
            ndis += 1
            if ndis <= 3:
                small = shrink_case(c, lambda x: parse_model_render(drv.ask(render_req(x))) != impl.render(x), 120)
            else:
                small = c
            ctx.disagree("corr.render", public(small), parse_model_render(drv.ask(render_req(small))), impl.render(small))
        so["cases"] += 1
        if real[0] == "ok":
            ctx.branch("out-len:%s" % ("0" if not real[1] else "1-9" if len(real[1]) < 10 else "10-49" if len(real[1]) < 50 else "50+"))
        if want != real and nviol < 6:
            nviol += 1
            report_violation(ctx, impl, c)
    return cases


def differs_fn(impl):
    def differs(x):
        try:
            return oracle_render(x) != impl.render(x)
        except Discard:
            return False
    return differs


def report_violation(ctx, impl, c, stream="oracle.render"):
    differs = differs_fn(impl)
    small = shrink_case(c, differs, 250)
    site = classify(small, impl, differs)
    p = public(small)
    p["expected"] = list(oracle_render(small))
    p["got"] = list(impl.render(small))
    ctx.violation(site, p, "rules of the property give %r, mako gives %r" % (p["expected"], p["got"]), stream)


def corr_build_attrs(ctx, impl, gen, n):
    drv = ctx.driver()
    sb = ctx.stream("corr.build")
    sa = ctx.stream("corr.attrs")
    names = POOL + ["body", "nosuch"] + HAZARD[:4]
    cases, reqs = [], []
    for _ in range(n):
        c = gen.chain(hazards=gen.rng.random() < 0.2, wild=0.0)
        if rules_compile_fault_any(c):
            continue
        sources(c)
        ops = []
        for _ in range(gen.rng.randint(4, 14)):
            j = gen.rng.randint(0, Rules(c).m)
            kind = gen.rng.choice(["g", "g", "g", "a"])
            x = gen.rng.choice(names) if kind == "g" else gen.rng.choice(ATTRS + ["aq"])
            ops.append((kind, j, x))
        cases.append((c, ops))
        reqs.append("inh build " + enc_levels(c))
        reqs.append("inh attrs %s %s" % ("/".join("%s:%d:%s" % (k, j, enc(x)) for k, j, x in ops), enc_levels(c)))
        reqs.append("inh attrs %s %s" % ("/".join("%s:%d:%s" % ("p" if k == "g" else k, j, enc(x)) for k, j, x in ops),
                                         enc_levels(c)))
    outs = drv.ask_many(reqs)
    import functools
    for idx, (c, ops) in enumerate(cases):
        ob, oa, op = outs[3 * idx], outs[3 * idx + 1], outs[3 * idx + 2]
        try:
            g = impl.graph(c)
        except Exception as e:       # noqa
            if exc_kind(e) == "compile":
                ctx.branch("build:skipped-compile-error")
                continue
            ctx.disagree("corr.build", public(c), ob, "exception " + repr(e))
            continue
        want = "ok %d %d " % (g["callable"][0], g["callable"][1]) + " ".join(
            "%d,%d,%s" % (t, cx, opt(ih)) for t, cx, ih in g["nss"]) + " ; " + " ".join(
            ",".join(opt(v) for v in row) for row in g["ctxs"])
        sb["cases"] += 1
        ctx.branch("build:nss=%d" % len(g["nss"]))
        if ob != want or g["callable"][2] != "render_body":
            ctx.disagree("corr.build", public(c), ob, want)
        # getattr sequences on the live namespace objects (memoising setattr included)
        nss, ctxs, tid = g["objs"]
        res = []
        for k, j, x in ops:
            if j >= len(nss):
                res.append("x")
                continue
            try:
                if k == "g":
                    v = getattr(nss[j], x)
                    if isinstance(v, functools.partial) and v.args and any(v.args[0] is cc for cc in ctxs):
                        if v.func.__name__ != "render_" + x:
                            res.append("wrong-callable:" + v.func.__name__)
                        else:
                            res.append("m%d.%d" % (tid.get(id(v.func.__globals__), -1), next(i for i, cc in enumerate(ctxs) if cc is v.args[0])))
                    else:
                        res.append("b")
                else:
                    res.append("v%d" % val_code(getattr(nss[j].attr, x)))
            except AttributeError:
                res.append("x")
            ctx.branch("attrs:" + k + ":" + res[-1][0])
        sa["cases"] += len(ops)
        want = " ".join(["ok"] + res)
        if oa != want:
            ctx.disagree("corr.attrs", {"input": public(c)["input"], "ops": ops, "memo": True}, oa, want)
        if op != want:
            ctx.disagree("corr.attrs", {"input": public(c)["input"], "ops": ops, "memo": False}, op, want)


def rules_compile_fault_any(case):
    return any(rules_compile_fault(l["nodes"]) for l in case["levels"])


def corr_and_oracle_check(ctx, gen, n):
    drv = ctx.driver()
    trees = [gen.tree() for _ in range(n)]
    reqs = []
    for t in trees:
        tree_source(t)
        out = []
        enc_nodes(t, out)
        reqs.append("inh check " + " ".join(out))
    try:
        outs = drv.ask_many(reqs)
    except Exception as e:      # noqa - the oracle below runs regardless
        ctx.broke("correspondence:driver", "corr.check: %r" % (e,))
        outs = [None] * len(trees)
    sc = ctx.stream("corr.check")
    so = ctx.stream("oracle.check", "oracle")
    nviol = 0
    for t, o in zip(trees, outs):
        real = impl_compile(t)
        ctx.branch("check:" + real)
        if o is None:
            o = "ok" if real == "ok" else real + ":-"
        else:
            sc["cases"] += 1
        kinds = set() if o == "ok" else {f.split(":")[0] for f in o.split(" ")}
        # kind of the first exception raised: must be one of the faults the model finds, except that a named block
        # inside a <%call> nested in another <%call> is first met by the outer call's DefVisitor, which reports a
        # name clash with a template-level member ("dup") before the inner call reports "incall"
        kind_ok = real in kinds or (real == "dup" and "incall" in kinds)
        if (real == "ok") != (not kinds) or (real != "ok" and not kind_ok):
            ctx.disagree("corr.check", {"input": tree_source(t), "tree": t}, o, real)
        so["cases"] += 1
        want = rules_compile_fault(t)
        if (want is None) != (real == "ok") and nviol < 6:
            nviol += 1
            report_check_violation(ctx, t)


def check_differs(t):
    tree_source(t)
    return (rules_compile_fault(t) is None) != (impl_compile(t) == "ok")


def report_check_violation(ctx, t, stream="oracle.check", label=None):
    case = {"levels": [{"inh": "N", "sig": [], "attrs": [], "nodes": t}], "data": []}

    def differs(c):
        return check_differs(c["levels"][0]["nodes"])
    small = shrink_case(case, differs, 250)
    sp = spread_lines(small)
    us = unshadow(small)
    if sp != small and not differs(sp):
        site = "anonymous-blocks-on-one-line"
    elif us != small and not differs(us):
        site = "named-block-in-replaced-def"       # regression detector for the repaired F-C06-3 (see classify)
    else:
        site = "block-checks"
    nodes = small["levels"][0]["nodes"]
    ctx.violation(site, {"input": tree_source(nodes), "tree": nodes, "expected": rules_compile_fault(nodes) or "ok",
                         "got": impl_compile(nodes)},
                  "rules of the property give %r, mako gives %r" % (rules_compile_fault(nodes) or "ok", impl_compile(nodes)),
                  stream)


# fixed witnesses of the recorded findings (replayed on the implementation on every run) and of the rules
WITNESSES = [
    # regression corpus (F-C06-4, repaired in /repo 248d875): buffered blocks render in place
    {"levels": [{"inh": "N", "sig": [], "attrs": [], "nodes": [{"k": "t", "v": 1}, {"k": "b", "n": None, "buf": True, "kids": [{"k": "t", "v": 2}]},
                                                               {"k": "b", "n": "ma", "buf": True, "kids": [{"k": "t", "v": 3}]}, {"k": "t", "v": 4}]}],
     "data": []},
    {"levels": [{"inh": "S", "sig": [], "attrs": [], "nodes": [{"k": "b", "n": "ma", "buf": True, "kids": [{"k": "t", "v": 1}]}]},
                {"inh": "N", "sig": [], "attrs": [], "nodes": [{"k": "t", "v": 2}, {"k": "b", "n": "ma", "kids": [{"k": "t", "v": 3}]}, {"k": "t", "v": 4}]}],
     "data": []},
    # rules, not findings: `local` in an intermediate template is that template (its own definition of ma wins over T0's)
    {"levels": [{"inh": "S", "sig": [], "attrs": [], "nodes": [{"k": "d", "n": "ma", "kids": [{"k": "t", "v": 1}]}]},
                {"inh": "S", "sig": [], "attrs": [], "nodes": [{"k": "d", "n": "ma", "kids": [{"k": "t", "v": 2}]},
                                                               {"k": "c", "r": "l", "x": "ma", "pos": [], "kw": []}]},
                {"inh": "N", "sig": [], "attrs": [], "nodes": [{"k": "c", "r": "n", "x": "body", "pos": [], "kw": []}]}],
     "data": []},
    # a module attribute whose value is None / falsy is still the most derived definition of that attribute
    {"levels": [{"inh": "S", "sig": [], "attrs": [["ax", 900001], ["ay", 0], ["az", 900002]], "nodes": []},
                {"inh": "N", "sig": [], "attrs": [["ax", 2000], ["ay", 2001], ["az", 2002]],
                 "nodes": [{"k": "a", "r": "s", "x": "ax"}, {"k": "a", "r": "s", "x": "ay"}, {"k": "a", "r": "s", "x": "az"}]}],
     "data": []},
    # a block named like a Namespace attribute never renders in a derived template
    {"levels": [{"inh": "S", "sig": [], "attrs": [], "nodes": [{"k": "b", "n": "name", "kids": [{"k": "t", "v": 1}]}]},
                {"inh": "N", "sig": [], "attrs": [], "nodes": [{"k": "c", "r": "n", "x": "body", "pos": [], "kw": []}]}],
     "data": []},
    # a def named like a Namespace attribute is not reachable through self.X
    {"levels": [{"inh": "N", "sig": [], "attrs": [], "nodes": [{"k": "d", "n": "uri", "kids": [{"k": "t", "v": 1}]},
                                                               {"k": "c", "r": "s", "x": "uri", "pos": [], "kw": []}]}],
     "data": []},
    # two anonymous blocks on one line
    {"levels": [{"inh": "N", "sig": [], "attrs": [], "nodes": [{"k": "b", "n": None, "kids": [{"k": "t", "v": 1}]},
                                                               {"k": "b", "n": None, "kids": [{"k": "t", "v": 2}]}]}],
     "data": []},
    # regression corpus (F-C06-3, repaired in /repo 14dadc4): a named block inside a def that a later def of the same name replaces
    {"levels": [{"inh": "N", "sig": [], "attrs": [], "nodes": [
        {"k": "d", "n": "ma", "kids": [{"k": "b", "n": "mb", "kids": [{"k": "t", "v": 1}]}]},
        {"k": "d", "n": "ma", "kids": [{"k": "t", "v": 2}]}]}],
     "data": []},
]


# ---- always-run witnesses (the catch of a change must not depend on the seed) ---------------------------------

def _t(v):
    return {"k": "t", "v": v}


def _nb(name, kids=None, nl=False, buf=False):
    n = {"k": "b", "n": name, "kids": kids if kids is not None else [_t(900)]}
    if nl:
        n["nl"] = True
    if buf:
        n["buf"] = True
    return n


def _ab(kids, nl=False, buf=False):
    return _nb(None, kids, nl, buf)


def _d(name, kids, sig=None):
    return {"k": "d", "n": name, "sig": sig or [], "kids": kids}


def _x(kids, form=0):
    return {"k": "x", "kids": kids, "form": form}


def _ctl(kids):
    return {"k": "ctl", "kids": kids}


def _c(r, x, pos=None, kw=None):
    return {"k": "c", "r": r, "x": x, "pos": pos or [], "kw": kw or []}


def _lv(nodes, inh="N", sig=None, attrs=None, form=0):
    return {"inh": inh, "form": form, "sig": sig or [], "attrs": attrs or [], "nodes": nodes}


def _check_witnesses():
    """(label, tree, verdict the property text demands) - compile-time rules"""
    ws = []
    holders = [("def", lambda k: _d("zd", k)), ("call", lambda k: _x(k, 0)), ("nsdef", lambda k: _x(k, 1))]
    for hn, h in holders:
        b = lambda: _nb("mb", nl=True)
        ws += [
            ("named block directly in " + hn, [h([_t(1), _nb("mb")])], "compile"),
            ("... in 1 anonymous block, other line, in " + hn, [h([_ab([b()], nl=True)])], "compile"),
            ("... in 1 anonymous block, same line, in " + hn, [h([_ab([_nb("mb")])])], "compile"),
            ("... in 2 anonymous blocks, other lines, in " + hn, [h([_ab([_ab([b()], nl=True)], nl=True)])], "compile"),
            ("... in 2 anonymous blocks, same line, in " + hn, [h([_ab([_ab([_nb("mb")])])])], "compile"),
            ("... under a control line in " + hn, [h([_ctl([_nb("mb")])])], "compile"),
            ("... under a control line and an anonymous block in " + hn, [h([_ctl([_ab([b()], nl=True)])])], "compile"),
            ("... in a def nested in " + hn, [h([_d("ze", [_nb("mb")])])], "compile"),
            ("... in a call nested in " + hn, [h([_x([_ab([b()], nl=True)], 0)])], "compile"),
            ("anonymous blocks only in " + hn, [h([_ab([_t(1), _ab([_t(2)], nl=True)], nl=True)])], "ok"),
        ]
    ws += [
        ("named block in a def replaced by a later def", [_d("zd", [_nb("mb")]), _d("zd", [_t(1)])], "compile"),
        ("named block under an anonymous block in a replaced def", [_d("zd", [_ab([_nb("mb", nl=True)], nl=True)]), _d("zd", [_t(1)])], "compile"),
        ("named block in a def nested in a replaced def", [_d("zd", [_d("ze", [_nb("mb")])]), _d("zd", [_t(1)])], "compile"),
        ("duplicate block names at body level", [_nb("mb"), _t(1), _nb("mb", nl=True)], "compile"),
        ("duplicate: block nested in a block of its name", [_nb("mb", [_nb("mb", nl=True)])], "compile"),
        ("duplicate: one of the two inside an anonymous block", [_nb("mb"), _ab([_nb("mb", nl=True)], nl=True)], "compile"),
        ("duplicate: inside two different named blocks", [_nb("ma", [_nb("mc", nl=True)]), _nb("mb", [_nb("mc", nl=True)], nl=True)], "compile"),
        ("duplicate: under a control line", [_nb("mb"), _ctl([_nb("mb")])], "compile"),
        ("duplicate: 3 levels deep", [_nb("ma", [_nb("mb", [_nb("mc", [_nb("ma", nl=True)], nl=True)], nl=True)])], "compile"),
        ("def and block of one name", [_d("mb", [_t(1)]), _nb("mb")], "compile"),
        ("block and later def of one name", [_nb("mb"), _d("mb", [_t(1)])], "compile"),
        ("two anonymous blocks side by side on one line", [_ab([_t(1)]), _ab([_t(2)])], "ok"),
        ("anonymous block nested in another on one line", [_ab([_ab([_t(1)])])], "ok"),
        ("distinct named blocks nested in named and anonymous blocks", [_nb("ma", [_nb("mb", nl=True), _ab([_nb("mc", nl=True)], nl=True)])], "ok"),
        ("named block under a control line at body level", [_ctl([_nb("mb")])], "ok"),
        ("two defs of one name without blocks", [_d("zd", [_t(1)]), _d("zd", [_t(2)])], "ok"),
    ]
    return ws


def _render_witnesses():
    """(label, case) - run-time rules; the verdict is computed by `Rules` from the property text"""
    ma = lambda v: _d("ma", [_t(v)])
    ws = [
        ("self/parent/next/local dispatch from an intermediate template",
         {"levels": [_lv([ma(1)], "S"),
                     _lv([ma(2), _c("s", "ma"), _c("p", "ma"), _c("n", "ma"), _c("l", "ma"), _c("n", "body")], "D"),
                     _lv([ma(3), _c("n", "body"), _c("l", "ma"), _c("s", "ma")])]}),
        ("member found further toward the base; AttributeError past the base",
         {"levels": [_lv([_c("p", "mb"), _c("l", "mb")], "S"), _lv([_c("n", "body")], "S"), _lv([_d("mb", [_t(1)]), _c("n", "body")])]}),
        ("missing member", {"levels": [_lv([_c("s", "nosuch")])]}),
        ("next in the most derived template", {"levels": [_lv([_c("n", "body")], "S"), _lv([_c("n", "body")])]}),
        ("parent in the base-most template", {"levels": [_lv([_t(1)], "S"), _lv([_c("n", "body"), _c("p", "ma")])]}),
        ("named block: base-most position, most-derived content, skipped level",
         {"levels": [_lv([_t(1), _nb("mb", [_t(2), _c("p", "mb")]), _t(3)], "S"), _lv([_t(4), _c("n", "body"), _t(5)], "D", form=2),
                     _lv([_t(6), _nb("mb", [_t(7)]), _c("n", "body"), _t(8)])]}),
        ("block nested in an overridden block; nested block declared only by the derived template",
         {"levels": [_lv([_nb("ma", [_t(1), _nb("mc", [_t(2)], nl=True)]), _t(3)], "S"),
                     _lv([_nb("ma", [_t(4), _nb("mb", [_t(5)], nl=True)]), _c("n", "body")])]}),
        ("anonymous blocks in place, in body, block and def",
         {"levels": [_lv([_t(1), _ab([_t(2), _ab([_t(3)], nl=True)], nl=True), _nb("mb", [_ab([_t(4)], nl=True)], nl=True),
                          _d("ma", [_ab([_t(5)], nl=True)]), _c("s", "ma")])]}),
        ("most-derived module attribute, attribute only in the base, missing attribute",
         {"levels": [_lv([{"k": "a", "r": "s", "x": "ax"}, {"k": "a", "r": "p", "x": "ax"}, {"k": "a", "r": "s", "x": "ay"}], "S", attrs=[["ax", 1000]]),
                     _lv([_c("n", "body"), {"k": "a", "r": "l", "x": "az"}], attrs=[["ax", 2000], ["ay", 2001]])]}),
        ("self.attr read by the inherit expression of a middle template, attribute of the template attached afterwards",
         {"levels": [_lv([{"k": "a", "r": "s", "x": "az"}], "D", form=3), _lv([_c("n", "body")], "D", form=4), _lv([_c("n", "body")], attrs=[["az", 3002]])]}),
        ("inherit expression evaluating to None in a template that is inherited from",
         {"levels": [_lv([_t(1)], "S"), _lv([_t(2), _c("n", "body")], "Z", form=0)]}),
        ("inherit target that does not exist", {"levels": [_lv([_t(1)], "S")]}),
        ("body() arguments reach the target's <%page> signature",
         {"levels": [_lv([{"k": "g"}], "S", sig=[["pa", None], ["pb", 7]]),
                     _lv([{"k": "g"}, _c("n", "body", [21], [["pc", 31]]), _c("n", "body", [], [["pb", 32], ["pa", 33]])], sig=[["pa", 5]])],
          "data": [["pa", 11], ["pz", 12]]}),
        ("body() argument errors: missing, multiple values",
         {"levels": [_lv([{"k": "g"}], "S", sig=[["pa", None]]), _lv([_c("n", "body", [1], [["pa", 2]])])]}),
        ("def parameters: positional, keyword, default; unexpected keyword",
         {"levels": [_lv([_c("p", "ma", [51]), _c("p", "ma", [], [["pb", 61], ["pa", 62]])], "S"),
                     _lv([_d("ma", [{"k": "g"}], [["pa", None], ["pb", 1]]), _c("n", "body")])]}),
        ("def called with a keyword it does not declare",
         {"levels": [_lv([_d("ma", [_t(1)]), _c("s", "ma", [], [["pc", 1]])])]}),
        ("call with content runs in place, in the caller's scope",
         {"levels": [_lv([_d("ma", [_t(1)]), _t(2)], "S"),
                     _lv([_d("ma", [_t(3), _x([_t(4), _c("p", "ma"), _ab([_t(5)], nl=True)], 0), _x([_t(6)], 1)]), _c("n", "body"), _c("l", "ma")], "S"),
                     _lv([_d("ma", [_t(7)]), _c("n", "body")])]}),
        ("included template: its blocks render although the includer's ancestors declare them; parent absent",
         {"levels": [_lv([_t(1), {"k": "i", "t": 1}, _nb("mb", [_t(2)], nl=True)], "S"), _lv([_nb("mb", [_t(3)]), _nb("ma", [_t(4)], nl=True), _c("n", "body")])],
          "lib": [{"levels": [_lv([_t(5), _nb("mb", [_t(6)]), _nb("ma", [_t(7)], nl=True)])]}]}),
        ("included template reads parent", {"levels": [_lv([{"k": "i", "t": 1}], "S"), _lv([_d("ma", [_t(1)]), _c("n", "body")])],
                                           "lib": [{"levels": [_lv([_c("p", "ma")])]}]}),
        ("included chain: base-most body first, own self/next; include from a def and a block",
         {"levels": [_lv([_d("ma", [{"k": "i", "t": 1}]), _nb("mb", [{"k": "i", "t": 2}], nl=True), _c("s", "ma")])],
          "lib": [{"levels": [_lv([_t(1), _c("s", "mc")], "S"), _lv([_d("mc", [_t(2)]), _t(3), _c("n", "body")])]},
                  {"levels": [_lv([_t(4)])]}]}),
        ("include of a template that does not exist", {"levels": [_lv([{"k": "i", "t": 3}])], "lib": [{"levels": [_lv([_t(1)])]}]}),
        ("compile error of a template of the chain", {"levels": [_lv([_t(1)], "S"), _lv([_d("zd", [_nb("mb")]), _c("n", "body")])]}),
    ]
    out = []
    for label, c in ws:
        c.setdefault("data", [])
        out.append((label, c))
    return out


def _entry_witnesses():
    """(label, case) - a def / block of a template of a chain rendered on its own through
    `Template.get_def(name).render(**data)` (case["entry"] = [template index, member]); verdict by `entry_render`"""
    ax = lambda r: {"k": "a", "r": r, "x": "ax"}
    three = lambda: [_lv([_d("ma", [_t(1), _c("p", "ma")]), _t(4)], "S"),
                     _lv([_d("ma", [_t(2), _c("p", "ma")]), _c("n", "body")], "D", form=1),
                     _lv([_d("ma", [_t(3)]), _c("n", "body")])]
    own = lambda: [_lv([_d("ma", [_t(1)]), _d("mb", [_c("l", "ma"), _c("s", "ma"), _c("p", "ma")])], "S"),
                   _lv([_d("ma", [_t(2)]), _d("mb", [_t(5), _c("l", "ma"), _c("s", "ma"), _c("p", "ma")]), _c("n", "body")], "S"),
                   _lv([_d("ma", [_t(3)]), _c("n", "body")])]
    ws = [
        ("def of the most derived template: parent is the adjacent template, each answering in turn",
         {"levels": three(), "entry": [0, "ma"]}),
        ("def of an intermediate template: the chain starts there", {"levels": three(), "entry": [1, "ma"]}),
        ("def of the base-most template: parent absent", {"levels": three()[:2] + [_lv([_d("ma", [_t(3), _c("p", "ma")]), _c("n", "body")])],
                                                          "entry": [2, "ma"]}),
        ("local and self are the template of the def, parent the next one", {"levels": own(), "entry": [0, "mb"]}),
        ("... from an intermediate template (T0 invisible)", {"levels": own(), "entry": [1, "mb"]}),
        ("next is absent in a def rendered on its own",
         {"levels": [_lv([_d("mb", [_t(1), _c("n", "ma")])], "S"), _lv([_d("ma", [_t(2)]), _c("n", "body")], "S"),
                     _lv([_d("ma", [_t(3)]), _c("n", "body")])], "entry": [0, "mb"]}),
        ("... also from an intermediate template",
         {"levels": [_lv([_d("ma", [_t(1)])], "S"), _lv([_d("mb", [_t(2), _c("n", "ma")]), _c("n", "body")], "S"),
                     _lv([_d("ma", [_t(3)]), _c("n", "body")])], "entry": [1, "mb"]}),
        ("module attributes through local / parent / self",
         {"levels": [_lv([_d("ma", [ax("l"), ax("p"), ax("s")])], "S", attrs=[["ax", 1000]]),
                     _lv([_c("n", "body")], "S", attrs=[["ax", 2000]]), _lv([_c("n", "body")], attrs=[["ax", 3000]])],
          "entry": [0, "ma"]}),
        ("attribute only further toward the base, through local",
         {"levels": [_lv([_d("ma", [ax("l"), ax("p")])], "S"), _lv([_c("n", "body")], "S", attrs=[["ax", 2000]]),
                     _lv([_c("n", "body")], attrs=[["ax", 3000]])], "entry": [0, "ma"]}),
        ("block of an inheriting template rendered on its own, data as pageargs",
         {"levels": [_lv([_nb("mb", [_t(1), {"k": "g"}, _c("p", "mb"), _c("l", "mc")]), _d("mc", [_t(4)])], "S"),
                     _lv([_nb("mb", [_t(2)]), _c("n", "body")], "S"), _lv([_nb("mb", [_t(3)]), _c("n", "body")])],
          "entry": [0, "mb"], "data": [["pa", 11], ["pz", 12]]}),
        ("def parameters taken from the data, the rest ignored; parent called with arguments",
         {"levels": [_lv([_d("ma", [{"k": "g"}, _c("p", "ma", [51])], [["pa", None], ["pb", 1]])], "S"),
                     _lv([_d("ma", [{"k": "g"}], [["pa", None], ["pb", 2]]), _c("n", "body")])],
          "entry": [0, "ma"], "data": [["pa", 11], ["pz", 12]]}),
        ("required def parameter missing from the data",
         {"levels": [_lv([_d("ma", [{"k": "g"}], [["pa", None]])], "S"), _lv([_c("n", "body")])], "entry": [0, "ma"]}),
        ("call with content and anonymous block in a def rendered on its own",
         {"levels": [_lv([_d("ma", [_t(1), _x([_t(2), _c("p", "ma")], 0), _ab([_c("l", "mb")], nl=True)]), _d("mb", [_t(3)])], "S"),
                     _lv([_d("ma", [_t(4)]), _d("mb", [_t(5)]), _c("n", "body")])], "entry": [0, "ma"]}),
        ("get_def of a member the template only inherits",
         {"levels": [_lv([_t(1)], "S"), _lv([_d("ma", [_t(2)]), _c("n", "body")])], "entry": [0, "ma"]}),
        ("control: template without inherit - local/self, parent absent",
         {"levels": [_lv([_d("ma", [_t(1)]), _d("mb", [_c("l", "ma"), _c("s", "ma")])])], "entry": [0, "mb"]}),
        ("control: template without inherit - parent absent",
         {"levels": [_lv([_d("ma", [_t(1)]), _d("mb", [_c("l", "ma"), _c("p", "ma")])])], "entry": [0, "mb"]}),
        ("def whose chain ends in an inherit evaluating to None",
         {"levels": [_lv([_d("ma", [_t(1), _c("p", "ma")])], "S"), _lv([_d("ma", [_t(2)]), _c("n", "body")], "Z", form=0)],
          "entry": [0, "ma"]}),
    ]
    out = []
    for label, c in ws:
        c.setdefault("data", [])
        out.append((label, c))
    return out


def oracle_entry(ctx, impl, gen, n):
    """oracle.entry - random chains, a def or block of one of their templates rendered on its own (rules vs mako)"""
    st = ctx.stream("oracle.entry", "oracle")
    nviol = 0
    done = 0
    tries = 0
    while done < n and tries < 20 * n:
        tries += 1
        c = gen.entry_case()
        if c is None:
            continue
        try:
            want = oracle_render(c)
        except Discard:
            ctx.branch("oracle:discarded")
            continue
        done += 1
        st["cases"] += 1
        real = impl.render(c)
        j, x = c["entry"]
        ctx.branch("entry:%s:%s" % ("base" if j == Rules(c).m else "inheriting", real[1] if real[0] == "exc" else "ok"))
        if j < Rules(c).m:
            ctx.nontriv(("entry", tuple(sources(c)), j, x, tuple(map(tuple, c["data"]))))
        if want != real and nviol < 4:
            nviol += 1
            report_violation(ctx, impl, c, "oracle.entry")


def oracle_fixed_witnesses(ctx, impl):
    """every assertion kind of the oracle on a fixed input, on every run: model vs mako (corr.witnesses) and
    property text vs mako (oracle.witnesses)"""
    drv = ctx.driver()
    st = ctx.stream("oracle.witnesses", "oracle")
    sc = ctx.stream("corr.witnesses", exhaustive=True)
    # compile-time rules
    cw = _check_witnesses()
    reqs = []
    for label, t, want in cw:
        tree_source(t)
        out = []
        enc_nodes(t, out)
        reqs.append("inh check " + " ".join(out))
    try:
        outs = drv.ask_many(reqs)
    except Exception as e:      # noqa
        ctx.broke("correspondence:driver", "corr.witnesses: %r" % (e,))
        outs = [None] * len(cw)
    for (label, t, want), o in zip(cw, outs):
        st["cases"] += 1
        real = impl_compile(t)
        rules = rules_compile_fault(t)
        if (rules is None) != (want == "ok"):
            ctx.broke("witness-verdict", "%s: the harness' rules give %r, the witness says %r" % (label, rules, want))
        if o is not None:
            sc["cases"] += 1
            kinds = set() if o == "ok" else {f.split(":")[0] for f in o.split(" ")}
            if (real == "ok") != (not kinds) or (real != "ok" and not (real in kinds or (real == "dup" and "incall" in kinds))):
                ctx.disagree("corr.witnesses", {"input": tree_source(t), "tree": t, "witness": label}, o, real)
        if (real == "ok") != (want == "ok"):
            report_check_violation(ctx, copy.deepcopy(t), "oracle.witnesses", label)
    # run-time rules
    rw = _render_witnesses()
    cases = [copy.deepcopy(c) for _, c in rw]
    try:
        outs = drv.ask_many([render_req(c) for c in cases])
    except Exception as e:      # noqa
        ctx.broke("correspondence:driver", "corr.witnesses: %r" % (e,))
        outs = [None] * len(cases)
    for (label, _), c, o in zip(rw, cases, outs):
        st["cases"] += 1
        real = impl.render(c)
        ctx.branch("witness:" + (real[1] if real[0] == "exc" else "ok"))
        if o is not None:
            sc["cases"] += 1
            if parse_model_render(o) != real:
                ctx.disagree("corr.witnesses", dict(public(c), witness=label), parse_model_render(o), real)
        if oracle_render(c) != real:
            report_violation(ctx, impl, c, "oracle.witnesses")
    # a def / block rendered on its own (property text vs mako; the model has no such entry point)
    for label, c in _entry_witnesses():
        c = copy.deepcopy(c)
        st["cases"] += 1
        real = impl.render(c)
        ctx.branch("witness-entry:" + (real[1] if real[0] == "exc" else "ok"))
        if oracle_render(c) != real:
            report_violation(ctx, impl, c, "oracle.witnesses")


def oracle_witnesses(ctx, impl):
    st = ctx.stream("oracle.witnesses", "oracle")
    for w in WITNESSES:
        st["cases"] += 1
        c = copy.deepcopy(w)
        if differs_fn(impl)(c):
            report_violation(ctx, impl, c, "oracle.witnesses")


def run(ctx):
    global NS_ATTRS
    impl = Impl()
    gen = Gen(ctx.rng, ctx.quick)
    try:
        NS_ATTRS = ns_attrs_now()
    except Exception as e:      # noqa
        ctx.broke("ns-attrs-probe", repr(e))
    old = sys.getrecursionlimit()
    first_exc = []

    def guarded(name, f):
        try:
            return f()
        except Exception as e:      # noqa - one stream failing must not stop the others (oracle streams above all)
            import traceback
            ctx.log("stream %s raised %r" % (name, e))
            if not first_exc:
                first_exc.append((name, traceback.format_exc()))
            return None

    def nsattrs_table():
        # the regenerated table of Namespace attribute names against the live object
        names = sorted(NS_ATTRS) + POOL + ["body"]
        o = ctx.driver().ask_many(["inh attrs p:0:%s L N - - - - [ ]" % enc(a) for a in names])
        st = ctx.stream("corr.nsattrs", exhaustive=True)
        for a, r in zip(names, o):
            st["cases"] += 1
            want = "ok b" if a in NS_ATTRS else ("ok m0.0" if a == "body" else "ok x")
            if r != want:
                ctx.disagree("corr.nsattrs", a, r, want)
    try:
        n = 1300 if ctx.quick else 17000
        guarded("nsattrs", nsattrs_table)
        cases = guarded("render.plain", lambda: corr_and_oracle_render(ctx, impl, gen, n, "plain"))
        guarded("render.hazard", lambda: corr_and_oracle_render(ctx, impl, gen, n // 6, "hazard", hazards=True))
        guarded("render.faults", lambda: corr_and_oracle_render(ctx, impl, gen, n // 6, "faults", faults=True))
        guarded("render.wild", lambda: corr_and_oracle_render(ctx, impl, gen, n // 10, "wild", wild=0.3))
        if not ctx.quick:
            guarded("render.files", lambda: corr_and_oracle_render(ctx, impl, gen, 2500, "files", fb=1))
            guarded("render.files+modules", lambda: corr_and_oracle_render(ctx, impl, gen, 1500, "files+modules", fb=2))
        else:
            guarded("render.files", lambda: corr_and_oracle_render(ctx, impl, gen, 60, "files", fb=1))
        guarded("build+attrs", lambda: corr_build_attrs(ctx, impl, gen, 300 if ctx.quick else 5000))
        guarded("check", lambda: corr_and_oracle_check(ctx, gen, 2500 if ctx.quick else 40000))
        guarded("entry", lambda: oracle_entry(ctx, impl, gen, 250 if ctx.quick else 4000))
        guarded("witnesses", lambda: oracle_witnesses(ctx, impl))
        guarded("fixed-witnesses", lambda: oracle_fixed_witnesses(ctx, impl))
        if cases:
            c = cases[0]
            ctx.sample({"stream": "corr.render", "sources": sources(c), "data": c["data"], "mako": impl.render(c)})
        ctx.log("branches: " + json.dumps(dict(sorted(ctx.branches.items()))))
        if first_exc:
            ctx.broke("correspondence:harness-exception:" + first_exc[0][0], first_exc[0][1])
    finally:
        impl.close()
        sys.setrecursionlimit(old)


def replay(ctx, data):
    case = data.get("case") or (data.get("first_disagreements") or [{}])[0].get("case")
    impl = Impl()
    try:
        if isinstance(case, dict) and "tree" in case:
            t = case["tree"]
            print("source  :", tree_source(t))
            out = []
            enc_nodes(t, out)
            print("model   :", ctx.driver().ask("inh check " + " ".join(out)))
            print("mako    :", impl_compile(t))
            print("rules   :", rules_compile_fault(t) or "ok")
            return not check_differs(t)
        if isinstance(case, dict) and "case" in case:
            c = case["case"]
            print(public(c)["input"])
            print("data    :", c.get("data"))
            real = impl.render(c)
            print("mako    :", real)
            print("rules   :", oracle_render(c))
            if c.get("entry"):
                print("model   : (a def rendered on its own is compared with the rules only)")
            else:
                print("model   :", parse_model_render(ctx.driver().ask(render_req(c))))
            return oracle_render(c) == real
        print("nothing to replay in", list(data))
        return False
    finally:
        impl.close()


DRIVER_OPS = ["inh"]   # per-area driver executable(s) this check talks to (built before any worker is forked)
