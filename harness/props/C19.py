"""C19 - embedded Python keeps its meaning through analysis and re-emission.

corr  : (1) corr.print - the Lean model of `_ast_util.SourceGenerator` (`print`, regenerated operator tables and
            visit_* inventory) vs `mako.pyparser.ExpressionGenerator(node).value()` on a corpus of witnesses and on
            grammar-generated expressions (string equality; an exception of the real code <-> `none`);
        (2) corr.precedence-table - the model's `needsParens` vs CPython's parser, exhaustively for every
            (slot, expression class) pair and several samples per class - every run;
        (3) corr.identifiers - the model of `pyparser.FindIdentifiers` vs `mako.ast.PythonCode(code)` (declared /
            undeclared / fetched); corr.spec-vs-symtable - `Spec.freeNames/boundNames` vs CPython's `symtable`;
        (4) corr.adjust-whitespace / corr.flush-adjusted-lines - the models of `pygen.adjust_whitespace` and
            `PythonPrinter.write_indented_block + _flush_adjusted_lines` (indent 0..3) vs the real functions on
            generated blocks and on random texts over a small alphabet; corr.multiline-flags-vs-spec - the lexical
            specification `Spec.multiFlags` vs the generator's own ground truth;
        (5) corr.guards-predict-roundtrip - where the guards of the `_partial` theorems hold, the re-emitted text must
            re-parse to the same AST (the step the Lean theorems leave to CPython's parser).
oracle: (no Lean) oracle.reemit-roundtrip - re-emitted expression re-parses to the original AST;
        oracle.template-values / oracle.filter-callee - argument defaults of <%def> (top-level, keyword-only, nested),
        <%block>, <%page> and filter-call arguments in REAL templates evaluate to the same value as native `eval`;
        oracle.signatures - def signatures with every parameter kind, called with keyword subsets, bind the same
        values (and raise TypeError alike) as the same signature on a native function;
        oracle.def-attributes - every parameter kind of a <%def> read in the def's OWN attribute expressions (filter=
        call arguments, cache_key, with buffered=; top-level and nested; strict_undefined off and on): same value as for
        a native function, and no parameter is demanded from the context; fixed witnesses for <%block>/<%page> and for
        filter functions supplied through the context;
        oracle.block-values - <% %> / <%! %> blocks written at any margin (spaces/tabs) at top level, under % if,
        % for + % if and inside a <%def> compute the same values as native `exec` of the statements in a function with
        the template's namespace as globals (multi-line string contents incl. TABs, namespace reads after a lambda
        holding a comprehension);
        oracle.identifiers-vs-symtable - PythonCode's fetched/declared sets vs symtable;
        oracle.strict-undefined - with `strict_undefined=True` and a context holding exactly the block's free names no
        NameError is raised.
Every violation is shrunk (tree reduction for expressions, statement/line removal for blocks, parameter removal for
signatures), classified by the *cause visible in the minimal case* (site + `where` fields) and matched against
known_findings.json; a call into mako that does not return within its time limit is reported as a finding, not a hang.
"""
from __future__ import annotations

import ast
import builtins
import io
import itertools
import math
import re
import symtable
import sys

from harness.common import enc, dec, ddmin

REGEN = ["PyExpr"]
RULE = ("expressions: a corpus of witnesses + random derivations of CPython's expression grammar (names, constants incl. "
        "strings with quotes/escapes, attribute, subscript, slices incl. tuple slices, calls with positional/keyword/*/** "
        "arguments, all unary/binary/boolean/comparison operators, conditional expressions, lambdas with every parameter "
        "kind, tuples/lists/sets/dicts incl. ** unpacking, the four comprehension kinds incl. async, f-strings, starred, "
        ":=, await, yield) to derivation depth 5, every sub-expression parenthesised in the source so that the AST shape is "
        "the generator's choice; evaluable expressions: a typed generator (int/float/bool/list/str/dict/lambda-call) over a "
        "fixed environment, placed in 7 template slots; signatures: positional-only and positional (with trailing defaults), *args or bare *, "
        "keyword-only with/without defaults in any order, **kw, called with positional counts and keyword subsets, in 3 "
        "def shapes, and every parameter of each signature read in 4 attribute slots of the def itself x strict_undefined; "
        "statement blocks: a corpus + assignments, augmented assignments, for/while/if/try/with, imports, def "
        "(all parameter kinds, defaults, decorators, bodies reading their parameters), class, lambdas, comprehensions, a "
        "lambda holding a comprehension followed by a namespace read of its variable, del, return, assert; executable "
        "blocks: assignments of single-, triple-quoted and backslash-continued literals containing quotes, '#', "
        "backslashes, TABs on continuation lines, the other triple quote, comments (also ending in a backslash / holding "
        "quotes), if/for/def/try, namespace reads, at 13 margins of 0..12 spaces/tabs x 5 placements (top, % if, <%def>, "
        "% for + % if, <%! %>); precedence table: every (slot, class) pair x all samples. A case is non-trivial when it has "
        "depth >= 2 / more than one statement / a multi-line construct / a keyword-only parameter; distinct = distinct source "
        "texts")
ASSUMPTIONS = [
    "CPython 3.12's parser, symtable and evaluator are the ground truth (not verified)",
    "`repr` of constants is taken from CPython and handed to the model (not modelled)",
    "global/nonlocal declarations, async def/for/with, match statements and annotations are outside the modelled grammar",
    "re-parsing equivalence treats Constant(Ellipsis) and Name('Ellipsis') as equal and ignores the u'' string kind",
    "symtable ground truth is taken on the block with list/set/dict comprehensions rewritten to generator expressions "
    "(same scoping; CPython 3.12's symtable merges inlined comprehensions into the enclosing function, PEP 709)",
    "expressions placed in tag attributes use the attribute quote that does not occur in them (both present: skipped)",
]
TRUSTED_EXTRA = [
    "C19: the precedence table (PyExpr/Prec.lean) is a specification validated exhaustively against ast.parse every run",
    "C19: Spec.freeNames/boundNames (PyExpr/Ident.lean) is a specification compared with CPython's symtable every run",
    "C19: Spec.multiFlags (PyExpr/Ws.lean) is a specification compared with the block generator's ground truth every run",
    "C19: the AST serialiser ser_expr/ser_stmts of this file and the wire parser in PyExpr/Drv.lean",
    "C19: the classification of minimal failing cases into sites (classify_expr, remargin_features, name_roles) decides "
    "which violations count as recorded findings",
]


class Unsupported(Exception):
    pass


class Hang(BaseException):
    """a call into mako did not return within its time limit (not an `Exception`: it must not be mistaken for an
    exception raised by the code under test; the stream that met it reports it and stops)"""


class time_limit:
    """`with time_limit(seconds):` - raises Hang in the main thread when the body has used `seconds` of CPU time
    (ITIMER_PROF: user + system time of this process), or 30 x that in wall-clock time as a backstop.  A hang of the
    implementation is a finding, it must not hang the check; but a check process that is merely starved by other work
    on the machine must not be mistaken for one (a wall-clock limit of 10 s fired once on a loaded machine, thorough
    seed 71, on a template that compiles in 0.4 s - a false alarm of the harness, see DESIGN 10.26)."""

    def __init__(self, seconds):
        self.seconds = seconds

    def _fire(self, sig, frm):
        raise Hang("no result after %.0f s" % self.seconds)

    def __enter__(self):
        import signal
        self.old = signal.signal(signal.SIGPROF, self._fire)
        self.old_alrm = signal.signal(signal.SIGALRM, self._fire)
        signal.setitimer(signal.ITIMER_PROF, self.seconds)
        signal.setitimer(signal.ITIMER_REAL, self.seconds * 30)

    def __exit__(self, *exc):
        import signal
        signal.setitimer(signal.ITIMER_PROF, 0)
        signal.setitimer(signal.ITIMER_REAL, 0)
        signal.signal(signal.SIGPROF, self.old)
        signal.signal(signal.SIGALRM, self.old_alrm)
        return False


# =========================================================================== AST -> wire

def S(s):
    return enc(s)


def OS(s):
    return "~" if s is None else enc(s)


_CONST_KIND = [(bool, "t"), (type(None), "n"), (type(Ellipsis), "e"), (int, "i"), (float, "f"), (complex, "c"),
               (str, "s"), (bytes, "b")]


def ser_expr(n, out):
    t = type(n)
    if t is ast.Name:
        out += ["N", S(n.id), {"Load": "L", "Store": "S", "Del": "D"}[type(n.ctx).__name__]]
    elif t is ast.Constant:
        for ty, k in _CONST_KIND:
            if type(n.value) is ty:
                break
        else:
            raise Unsupported("constant " + type(n.value).__name__)
        r = repr(n.value)
        if any(0xD800 <= ord(c) <= 0xDFFF for c in r):
            raise Unsupported("surrogate")
        out += ["K", k, S(r)]
    elif t is ast.Attribute:
        out.append("A"); ser_expr(n.value, out); out.append(S(n.attr))
    elif t is ast.Subscript:
        out.append("S"); ser_expr(n.value, out); ser_expr(n.slice, out)
    elif t is ast.Slice:
        out.append("SL"); ser_opt(n.lower, out); ser_opt(n.upper, out); ser_opt(n.step, out)
    elif t is ast.Call:
        out.append("C"); ser_expr(n.func, out); ser_list(n.args, out)
        out.append(str(len(n.keywords)))
        for k in n.keywords:
            out.append(OS(k.arg)); ser_expr(k.value, out)
    elif t is ast.UnaryOp:
        out += ["U", type(n.op).__name__]; ser_expr(n.operand, out)
    elif t is ast.BinOp:
        out += ["B", type(n.op).__name__]; ser_expr(n.left, out); ser_expr(n.right, out)
    elif t is ast.BoolOp:
        out += ["BO", type(n.op).__name__]; ser_list(n.values, out)
    elif t is ast.Compare:
        out.append("CMP"); ser_expr(n.left, out)
        out.append(str(len(n.ops))); out += [type(o).__name__ for o in n.ops]
        ser_list(n.comparators, out)
    elif t is ast.IfExp:
        out.append("IF"); ser_expr(n.test, out); ser_expr(n.body, out); ser_expr(n.orelse, out)
    elif t is ast.Lambda:
        out.append("LAM"); ser_args(n.args, out); ser_expr(n.body, out)
    elif t in (ast.Tuple, ast.List, ast.Set):
        out.append({ast.Tuple: "T", ast.List: "L", ast.Set: "SET"}[t]); ser_list(n.elts, out)
    elif t is ast.Dict:
        out += ["D", str(len(n.keys))]
        for k, v in zip(n.keys, n.values):
            ser_opt(k, out); ser_expr(v, out)
    elif t in (ast.ListComp, ast.SetComp, ast.GeneratorExp):
        out.append({ast.ListComp: "LC", ast.SetComp: "SC", ast.GeneratorExp: "GE"}[t])
        ser_expr(n.elt, out); ser_comps(n.generators, out)
    elif t is ast.DictComp:
        out.append("DC"); ser_expr(n.key, out); ser_expr(n.value, out); ser_comps(n.generators, out)
    elif t is ast.JoinedStr:
        out += ["JS", S(ast.unparse(n))]; ser_list(n.values, out)
    elif t is ast.FormattedValue:
        out.append("FV"); ser_expr(n.value, out); out.append(str(n.conversion)); ser_opt(n.format_spec, out)
    elif t is ast.Starred:
        out.append("ST"); ser_expr(n.value, out)
    elif t is ast.NamedExpr:
        out.append("NE"); ser_expr(n.target, out); ser_expr(n.value, out)
    elif t is ast.Await:
        out.append("AW"); ser_expr(n.value, out)
    elif t is ast.Yield:
        out.append("Y"); ser_opt(n.value, out)
    elif t is ast.YieldFrom:
        out.append("YF"); ser_expr(n.value, out)
    else:
        raise Unsupported(t.__name__)


def ser_opt(n, out):
    if n is None:
        out.append("~")
    else:
        ser_expr(n, out)


def ser_list(ns, out):
    out.append(str(len(ns)))
    for n in ns:
        ser_expr(n, out)


def ser_comps(gs, out):
    out.append(str(len(gs)))
    for g in gs:
        ser_expr(g.target, out); ser_expr(g.iter, out); ser_list(g.ifs, out); out.append("1" if g.is_async else "0")


def ser_args(a, out):
    for args in (a.posonlyargs, a.args):
        out.append(str(len(args)))
        for x in args:
            if x.annotation is not None:
                raise Unsupported("annotation")
            out.append(S(x.arg))
    out.append(OS(a.vararg.arg if a.vararg else None))
    out.append(str(len(a.kwonlyargs))); out += [S(x.arg) for x in a.kwonlyargs]
    out.append(str(len(a.kw_defaults)))
    for d in a.kw_defaults:
        ser_opt(d, out)
    out.append(OS(a.kwarg.arg if a.kwarg else None))
    ser_list(a.defaults, out)


def ser_block(stmts, out):
    out.append(str(len(stmts)))
    for s in stmts:
        ser_stmt(s, out)


def ser_stmt(n, out):
    t = type(n)
    if t is ast.Assign:
        out.append("AS"); ser_list(n.targets, out); ser_expr(n.value, out)
    elif t is ast.AugAssign:
        out.append("AUG"); ser_expr(n.target, out); out.append(type(n.op).__name__); ser_expr(n.value, out)
    elif t is ast.For:
        out.append("FOR"); ser_expr(n.target, out); ser_expr(n.iter, out); ser_block(n.body, out); ser_block(n.orelse, out)
    elif t is ast.While:
        out.append("WH"); ser_expr(n.test, out); ser_block(n.body, out); ser_block(n.orelse, out)
    elif t is ast.If:
        out.append("IFS"); ser_expr(n.test, out); ser_block(n.body, out); ser_block(n.orelse, out)
    elif t is ast.Try:
        out.append("TRY"); ser_block(n.body, out)
        out.append(str(len(n.handlers)))
        for h in n.handlers:
            ser_opt(h.type, out); out.append(OS(h.name)); ser_block(h.body, out)
        ser_block(n.orelse, out); ser_block(n.finalbody, out)
    elif t is ast.With:
        out += ["WITH", str(len(n.items))]
        for it in n.items:
            ser_expr(it.context_expr, out); ser_opt(it.optional_vars, out)
        ser_block(n.body, out)
    elif t is ast.Import:
        out += ["IMP", str(len(n.names))]
        for a in n.names:
            out += [S(a.name), OS(a.asname)]
    elif t is ast.ImportFrom:
        out += ["IMPF", str(len(n.names))]
        for a in n.names:
            out += [S(a.name), OS(a.asname)]
    elif t is ast.FunctionDef:
        if n.returns is not None or getattr(n, "type_params", None):
            raise Unsupported("annotated def")
        out += ["DEF", S(n.name)]; ser_args(n.args, out); ser_block(n.body, out); ser_list(n.decorator_list, out)
    elif t is ast.ClassDef:
        if getattr(n, "type_params", None):
            raise Unsupported("generic class")
        out += ["CLS", S(n.name)]; ser_list(n.bases, out)
        out.append(str(len(n.keywords)))
        for k in n.keywords:
            out.append(OS(k.arg)); ser_expr(k.value, out)
        ser_block(n.body, out); ser_list(n.decorator_list, out)
    elif t is ast.Return:
        out.append("RET"); ser_opt(n.value, out)
    elif t is ast.Expr:
        out.append("EX"); ser_expr(n.value, out)
    elif t is ast.Delete:
        out.append("DEL"); ser_list(n.targets, out)
    elif t is ast.Global:
        out += ["GLB", str(len(n.names))] + [S(x) for x in n.names]
    elif t is ast.Nonlocal:
        out += ["NONL", str(len(n.names))] + [S(x) for x in n.names]
    elif t is ast.Pass:
        out.append("PASS")
    elif t is ast.Break:
        out.append("BRK")
    elif t is ast.Continue:
        out.append("CONT")
    elif t is ast.Raise:
        out.append("RAISE"); ser_opt(n.exc, out); ser_opt(n.cause, out)
    elif t is ast.Assert:
        out.append("ASSERT"); ser_expr(n.test, out); ser_opt(n.msg, out)
    else:
        raise Unsupported(t.__name__)


def wire_expr(node):
    out = []
    ser_expr(node, out)
    return " ".join(out)


def wire_block(stmts):
    out = []
    ser_block(stmts, out)
    return " ".join(out)


# =========================================================================== expression generator (syntactic)

NAMES = ["a", "b", "c", "d", "x", "y", "z", "f", "g", "obj"]
ATTRS = ["real", "imag", "attr", "upper", "n"]
STR_CONSTS = ["'s'", '"q\'q"', "'d\"d'", r"'\\'", r"'a\nb'", "'#'", "'''t'''", '"a" "b"', "b'x'", "''", r"'\x00'",
              "'é世'", "u'u'", "r'\\d'", r"'\''"]
NUM_CONSTS = ["0", "1", "2", "10", "255", "0x10", "1.5", "1e10", "2.0", "1e999", "2j", "10**0" if False else "7",
              "123456789012345678901234567890", "0.1", "1_000"]
OTHER_CONSTS = ["None", "True", "False", "..."]
BINOPS = ["+", "-", "*", "/", "//", "%", "**", "@", "<<", ">>", "|", "&", "^"]
CMPOPS = ["==", "!=", "<", "<=", ">", ">=", "is", "is not", "in", "not in"]
UNOPS = ["-", "+", "~", "not "]

KIND_WEIGHTS = [
    ("name", 10), ("const", 8), ("attribute", 6), ("subscript", 6), ("call", 10), ("unary", 5), ("binop", 10),
    ("boolop", 5), ("compare", 6), ("ifexp", 6), ("lambda", 6), ("tuple", 4), ("list", 3), ("set", 2), ("dict", 4),
    ("listcomp", 3), ("setcomp", 1), ("dictcomp", 2), ("genexp", 2), ("fstring", 2), ("named", 2), ("await", 1),
    ("yield", 1), ("yieldfrom", 1),
]


class ExprGen:
    """random derivation of the expression grammar as *source text*; every sub-expression is parenthesised, so the
    shape of the AST is exactly the derivation (parentheses leave no trace in the AST)"""

    def __init__(self, rng, maxdepth=5, allow=None):
        self.rng = rng
        self.maxdepth = maxdepth
        kinds = [(k, w) for k, w in KIND_WEIGHTS if allow is None or k in allow]
        self.kinds = [k for k, _ in kinds]
        self.weights = [w for _, w in kinds]
        self.names = list(NAMES)

    def p(self, d):
        return "(" + self.gen(d) + ")"

    def gen(self, d):
        r = self.rng
        if d >= self.maxdepth or (d > 0 and r.random() < 0.12 * d):
            k = r.choice(["name", "name", "const"])
        else:
            k = r.choices(self.kinds, self.weights)[0]
        return getattr(self, "g_" + k)(d + 1)

    def g_name(self, d):
        return self.rng.choice(self.names)

    @staticmethod
    def param_names(ps):
        return re.findall(r"(?:^|, |\*)([A-Za-z_]\w*)(?==|,|$)", re.sub(r"\((?:[^()]|\([^()]*\))*\)", "", ps))

    def g_const(self, d):
        r = self.rng.random()
        if r < 0.4:
            return self.rng.choice(NUM_CONSTS)
        if r < 0.8:
            return self.rng.choice(STR_CONSTS)
        return self.rng.choice(OTHER_CONSTS)

    def g_attribute(self, d):
        return self.p(d) + "." + self.rng.choice(ATTRS)

    def g_slice(self, d):
        r = self.rng
        parts = [self.p(d) if r.random() < 0.6 else "" for _ in range(r.choice([2, 2, 3]))]
        return ":".join(parts)

    def g_subscript(self, d):
        r = self.rng.random()
        if r < 0.5:
            idx = self.p(d)
        elif r < 0.8:
            idx = self.g_slice(d)
        else:
            idx = ", ".join(self.g_slice(d) if self.rng.random() < 0.5 else self.p(d) for _ in range(self.rng.randint(1, 3)))
            if "," not in idx:
                idx += ","
        return self.p(d) + "[" + idx + "]"

    def g_call(self, d):
        r = self.rng
        items = []
        for _ in range(r.choice([0, 1, 1, 2, 3])):
            q = r.random()
            if q < 0.55:
                items.append((0, self.p(d)))
            elif q < 0.7:
                items.append((0, "*" + self.p(d)))
            elif q < 0.9:
                items.append((1, r.choice(["k", "kk", "sep", "end"]) + "=" + self.p(d)))
            else:
                items.append((1, "**" + self.p(d)))
        # positional arguments may not follow keyword arguments / ** unpacking
        items.sort(key=lambda it: it[0])
        seen = set()
        out = []
        for _, s in items:
            key = s.split("=")[0] if "=" in s and not s.startswith("*") and re.match(r"^\w+=", s) else None
            if key and key in seen:
                continue
            seen.add(key)
            out.append(s)
        return self.p(d) + "(" + ", ".join(out) + ")"

    def g_unary(self, d):
        return self.rng.choice(UNOPS) + self.p(d)

    def g_binop(self, d):
        return self.p(d) + " " + self.rng.choice(BINOPS) + " " + self.p(d)

    def g_boolop(self, d):
        op = self.rng.choice([" and ", " or "])
        return op.join(self.p(d) for _ in range(self.rng.choice([2, 2, 3])))

    def g_compare(self, d):
        s = self.p(d)
        for _ in range(self.rng.choice([1, 1, 2])):
            s += " " + self.rng.choice(CMPOPS) + " " + self.p(d)
        return s

    def g_ifexp(self, d):
        return self.p(d) + " if " + self.p(d) + " else " + self.p(d)

    def g_params(self, d, defaults=True):
        r = self.rng
        names = iter(["p", "q", "u", "v", "w", "k1", "k2", "m"])
        parts = []
        had_default = False

        def one(force_default=False):
            nonlocal had_default
            n = next(names)
            if defaults and (force_default or r.random() < 0.4):
                had_default = True
                return n + "=" + self.p(d)
            return n
        npos = r.choice([0, 0, 1, 2]) if r.random() < 0.25 else 0
        for _ in range(npos):
            parts.append(one(had_default))
        if npos:
            parts.append("/")
        for _ in range(r.choice([0, 1, 1, 2])):
            parts.append(one(had_default))
        star = r.random()
        if star < 0.25:
            parts.append("*args")
        nkw = r.choice([0, 1, 2]) if r.random() < 0.3 else 0
        if nkw and star >= 0.25:
            parts.append("*")
        for _ in range(nkw):
            n = next(names)
            parts.append(n + "=" + self.p(d) if defaults and r.random() < 0.5 else n)
        if r.random() < 0.2:
            parts.append("**kw")
        return ", ".join(parts)

    def g_lambda(self, d):
        ps = self.g_params(d)
        saved = self.names
        pn = [n for n in ("p", "q", "u", "v", "w", "k1", "k2", "m", "args", "kw") if re.search(r"\b%s\b" % n, ps.split("=")[0] if False else ps)]
        self.names = saved + pn * 3
        try:
            body = self.p(d)
        finally:
            self.names = saved
        return "lambda" + (" " + ps if ps else "") + ": " + body

    def g_elts(self, d, star=True):
        out = []
        for _ in range(self.rng.choice([0, 1, 2, 2, 3])):
            out.append(("*" if star and self.rng.random() < 0.12 else "") + self.p(d))
        return out

    def g_tuple(self, d):
        e = self.g_elts(d)
        return "(" + ", ".join(e) + ("," if len(e) == 1 else "") + ")"

    def g_list(self, d):
        return "[" + ", ".join(self.g_elts(d)) + "]"

    def g_set(self, d):
        e = self.g_elts(d)
        if not e:
            e = [self.p(d)]
        return "{" + ", ".join(e) + "}"

    def g_dict(self, d):
        out = []
        for _ in range(self.rng.choice([0, 1, 2, 3])):
            if self.rng.random() < 0.15:
                out.append("**" + self.p(d))
            else:
                out.append(self.p(d) + ": " + self.p(d))
        return "{" + ", ".join(out) + "}"

    def g_target(self):
        r = self.rng.random()
        if r < 0.7:
            return self.rng.choice(["i", "j", "x", "y"])
        if r < 0.9:
            return self.rng.choice(["i, j", "(x, y)", "[i, j]", "i, *j"])
        return self.rng.choice(["obj.attr", "a[0]"])

    def g_clauses(self, d):
        s = ""
        for n in range(self.rng.choice([1, 1, 2])):
            s += (" async for " if self.rng.random() < 0.03 else " for ") + self.g_target() + " in " + self.p(d)
            for _ in range(self.rng.choice([0, 0, 1, 2])):
                s += " if " + self.p(d)
        return s

    def g_listcomp(self, d):
        return "[" + self.p(d) + self.g_clauses(d) + "]"

    def g_setcomp(self, d):
        return "{" + self.p(d) + self.g_clauses(d) + "}"

    def g_dictcomp(self, d):
        return "{" + self.p(d) + ": " + self.p(d) + self.g_clauses(d) + "}"

    def g_genexp(self, d):
        return "(" + self.p(d) + self.g_clauses(d) + ")"

    def g_fstring(self, d):
        r = self.rng
        # inner expressions are restricted to text without quotes/backslashes/braces problems: names and small calls
        def inner():
            return r.choice(["a", "b.real", "f(x)", "x + 1", "d['k']" if False else "c[0]", "(y if x else z)"])
        parts = []
        for _ in range(r.choice([1, 2, 3])):
            q = r.random()
            if q < 0.4:
                parts.append(r.choice(["text", " ", "{{", "}}", "#", "%s"]))
            else:
                fld = "{" + inner()
                if r.random() < 0.3:
                    fld += r.choice(["!r", "!s", "!a"])
                if r.random() < 0.3:
                    fld += ":" + r.choice([">10", "{" + inner() + "}", ".2f", ""])
                parts.append(fld + "}")
        return 'f"' + "".join(parts) + '"'

    def g_named(self, d):
        return "(" + self.rng.choice(["w", "x", "nm"]) + " := " + self.p(d) + ")"

    def g_await(self, d):
        return "await " + self.p(d)

    def g_yield(self, d):
        return "(yield " + self.p(d) + ")" if self.rng.random() < 0.8 else "(yield)"

    def g_yieldfrom(self, d):
        return "(yield from " + self.p(d) + ")"


def expr_depth(node):
    kids = [expr_depth(c) for c in ast.iter_child_nodes(node) if isinstance(c, (ast.expr, ast.comprehension, ast.keyword, ast.arguments))]
    return 1 + max(kids, default=0)


# =========================================================================== implementation probes

def impl_print(node):
    """('ok', text) or ('exc', class name)"""
    from mako import pyparser
    try:
        with time_limit(10):
            return ("ok", pyparser.ExpressionGenerator(node).value())
    except RecursionError:
        raise
    except Exception as e:
        return ("exc", type(e).__name__)


def norm_dump(node):
    """ast.dump with the equivalences of ASSUMPTIONS applied"""
    class N(ast.NodeTransformer):
        def visit_Name(self, n):
            if n.id == "Ellipsis" and isinstance(n.ctx, ast.Load):
                return ast.Constant(value=Ellipsis)
            return n

        def visit_Constant(self, n):
            return ast.Constant(value=n.value)
    import copy
    return ast.dump(N().visit(copy.deepcopy(node)))


def reemit_ok(node):
    """does the re-emitted text of expression `node` re-parse to `node`?  (True/False, detail)"""
    st, txt = impl_print(node)
    if st == "exc":
        return False, "ExpressionGenerator raised " + txt
    try:
        back = ast.parse(txt, mode="eval").body
    except SyntaxError as e:
        return False, "re-emitted text %r does not parse: %s" % (txt, e.msg)
    except (ValueError, MemoryError, RecursionError) as e:
        return False, "re-emitted text %r: %s" % (txt, e)
    if norm_dump(back) != norm_dump(node):
        return False, "re-emitted text %r parses to a different expression" % txt
    return True, txt


# =========================================================================== (1) corr.print

def corr_print(ctx, exprs):
    """exprs: list of (src, node)"""
    drv = ctx.driver()
    st = ctx.stream("corr.print")
    reqs, cases = [], []
    for src, node in exprs:
        try:
            w = wire_expr(node)
        except Unsupported as e:
            ctx.branch("corr.print:unsupported:" + str(e))
            continue
        reqs.append("py print " + w)
        cases.append((src, node))
    outs = drv.ask_many(reqs)
    for (src, node), o in zip(cases, outs):
        st["cases"] += 1
        s, txt = impl_print(node)
        want = "none" if s == "exc" else enc(txt)
        ctx.branch("print:" + ("raises:" + txt if s == "exc" else "ok"))
        if o != want:
            ctx.disagree("corr.print", src, o if o in ("none", "bad-args") else dec(o), [s, txt])
        if expr_depth(node) >= 2:
            ctx.nontriv(src)
    return len(cases)


# =========================================================================== (2) precedence table vs CPython

POS = {
    "attrValue": "HOLE.a", "subValue": "HOLE[i]", "subSlice": "a[HOLE]",
    "sliceLower": "a[HOLE:j]", "sliceUpper": "a[i:HOLE]", "sliceStep": "a[i:j:HOLE]",
    "callFunc": "HOLE(x)", "callArg": "f(x, HOLE)", "callStarValue": ["f(*HOLE)", "f(x, *HOLE, k=1)"], "kwValue": "f(k=HOLE)", "kwStarValue": "f(**HOLE)",
    "unaryNot": "not HOLE", "unaryOther": ["-HOLE", "~HOLE", "+HOLE"],
    "binLPow": "HOLE ** b", "binRPow": "a ** HOLE",
    "binLTerm": ["HOLE * b", "HOLE / b", "HOLE // b", "HOLE % b", "HOLE @ b"],
    "binRTerm": ["a * HOLE", "a / HOLE", "a // HOLE", "a % HOLE", "a @ HOLE"],
    "binLArith": ["HOLE + b", "HOLE - b"], "binRArith": ["a - HOLE", "a + HOLE"],
    "binLShift": ["HOLE << b", "HOLE >> b"], "binRShift": ["a >> HOLE", "a << HOLE"],
    "binLBand": "HOLE & b", "binRBand": "a & HOLE", "binLBxor": "HOLE ^ b", "binRBxor": "a ^ HOLE",
    "binLBor": "HOLE | b", "binRBor": "a | HOLE",
    "boolAnd": ["a and HOLE and c", "HOLE and c", "a and HOLE"], "boolOr": ["a or HOLE or c", "HOLE or c", "a or HOLE"],
    "cmpLeft": ["HOLE < b", "HOLE in b", "HOLE is not b"], "cmpRight": ["a < HOLE", "a not in HOLE", "a == HOLE < c"],
    "ifBody": "HOLE if t else o", "ifTest": "b if HOLE else o", "ifOrelse": "b if t else HOLE",
    "lambdaBody": "lambda: HOLE", "lambdaDefault": ["lambda x=HOLE: x", "lambda *, x=HOLE: x"],
    "tupleElt": ["(HOLE, b)", "(a, HOLE)", "(HOLE,)"], "listElt": ["[HOLE, b]", "[HOLE]"], "setElt": ["{HOLE, b}", "{HOLE}"],
    "dictKey": "{HOLE: v}", "dictValue": "{k: HOLE}", "dictStar": "{**HOLE}",
    "compElt": ["[HOLE for x in y]", "{HOLE for x in y}", "(HOLE for x in y)"],
    "dictCompKey": "{HOLE: v for x in y}", "dictCompValue": "{k: HOLE for x in y}",
    "compTarget": "[e for HOLE in y]", "compIter": ["[e for x in HOLE]", "[e for x in y for z in HOLE]"],
    "compIf": ["[e for x in y if HOLE]", "[e for x in y if c if HOLE]"],
    "starredValue": ["[*HOLE]", "(*HOLE, b)", "{*HOLE}"], "yieldValue": "(yield HOLE)", "namedValue": "(x := HOLE)",
    "awaitValue": "await HOLE", "yieldFromValue": "(yield from HOLE)",
    "rootDefault": ["def f(a=HOLE): pass", "def f(*, a=HOLE): pass"],
    "rootFilter": "HOLE(x)",
}
CKS = {
    "name": ["n"], "constInt": ["1", "10"], "constFloat": ["1.5", "1e+100"], "constStr": ["'s'", "b'x'"],
    "constOther": ["None", "True", "...", "2j"],
    "attribute": ["p.q"], "subscript": ["p[q]"], "call": ["p(q)", "p()"],
    "unaryNot": ["not p"], "unaryOther": ["-p", "~p", "+p"],
    "binPow": ["p ** q"], "binTerm": ["p * q", "p / q", "p // q", "p % q", "p @ q"], "binArith": ["p + q", "p - q"],
    "binShift": ["p << q", "p >> q"], "binBand": ["p & q"], "binBxor": ["p ^ q"], "binBor": ["p | q"],
    "compare": ["p < q", "p in q", "p is not q", "p not in q", "p == q", "p < q < r"],
    "boolAnd": ["p and q"], "boolOr": ["p or q"],
    "ifExp": ["p if q else r"], "lambda": ["lambda: p", "lambda u: p", "lambda u, *v: p"],
    "tuple": ["p, q", "p,"], "list": ["[p]", "[]"], "set": ["{p}"], "dict": ["{p: q}", "{}"],
    "listComp": ["[p for p in q]"], "setComp": ["{p for p in q}"], "dictComp": ["{p: q for p in q}"],
    "generatorExp": ["p for p in q"],
    "starred": ["*p"], "namedExpr": ["p := q"], "await": ["await p"], "yield": ["yield p", "yield"],
    "yieldFrom": ["yield from p"], "joinedStr": ["f'{p}'", "f''"], "slice": ["p:q", ":", "p:q:r", "p:"],
}


def _strip_ctx(d):
    return re.sub(r",? ?ctx=(Load|Store|Del)\(\)", "", d)


def _child_ast(kind, src):
    if kind == "starred":
        return ast.parse("[%s]" % src, mode="eval").body.elts[0]
    if kind == "slice":
        return ast.parse("a[%s]" % src, mode="eval").body.slice
    return ast.parse("(%s)" % src, mode="eval").body


class _Sub(ast.NodeTransformer):
    def __init__(self, c):
        self.c = c

    def visit_Name(self, n):
        return self.c if n.id == "HOLE" else n


def bare_roundtrips(ctxsrc, kind, src):
    """does `src` (class `kind`), written bare into the slot, re-parse to the intended tree?"""
    want = _strip_ctx(ast.dump(_Sub(_child_ast(kind, src)).visit(ast.parse(ctxsrc))))
    try:
        got = _strip_ctx(ast.dump(ast.parse(ctxsrc.replace("HOLE", src))))
    except SyntaxError:
        return False
    return got == want


def corr_table(ctx):
    st = ctx.stream("corr.precedence-table", exhaustive=True)
    o = ctx.driver().ask("py table")
    table = {}
    for item in o.split(" "):
        p, k, v = item.split(":")
        table[(p, k)] = v == "1"
    ps = sorted({p for p, _ in table})
    ks = sorted({k for _, k in table})
    if ps != sorted(POS) or ks != sorted(CKS):
        ctx.disagree("corr.precedence-table", "slot/class inventory", [ps, ks], [sorted(POS), sorted(CKS)])
        return
    pairs = samples = 0
    for p, ctxs in POS.items():
        ctxs = [ctxs] if isinstance(ctxs, str) else ctxs
        for k, srcs in CKS.items():
            pairs += 1
            for c in ctxs:
                for s in srcs:
                    samples += 1
                    st["cases"] += 1
                    ok = bare_roundtrips(c, k, s)
                    if ok == table[(p, k)]:
                        ctx.disagree("corr.precedence-table", {"slot": p, "class": k, "context": c, "input": s},
                                     "needsParens=%s" % table[(p, k)], "bare form round-trips: %s" % ok)
            ctx.branch("table:needsParens" if table[(p, k)] else "table:bare-ok")
    ctx.log("precedence table: %d (slot, class) pairs, %d samples checked against ast.parse" % (pairs, samples))
    ctx.notes.append("precedence table validated exhaustively: %d pairs / %d samples" % (pairs, samples))


# =========================================================================== run / replay (extended below)

def gen_exprs(ctx, n, maxdepth=5):
    g = ExprGen(ctx.rng, maxdepth)
    out = []
    seen = set()
    tries = 0
    while len(out) < n and tries < n * 3:
        tries += 1
        src = g.gen(0)
        if src in seen:
            continue
        try:
            node = ast.parse(src, mode="eval").body
        except (SyntaxError, ValueError, RecursionError, MemoryError):
            ctx.branch("gen:expr-unparsable")
            continue
        seen.add(src)
        out.append((src, node))
    return out


# =========================================================================== statement-block generator (syntactic)

STMT_EXPR_KINDS = ["name", "const", "attribute", "subscript", "call", "unary", "binop", "boolop", "compare", "ifexp",
                   "lambda", "tuple", "list", "set", "dict", "listcomp", "setcomp", "dictcomp", "genexp", "fstring",
                   "named"]
BIND_NAMES = ["a", "b", "c", "d", "x", "y", "z", "f", "g", "r", "s", "t", "i", "j", "w"]


class BlockGen:
    """random statement blocks as source text at margin 0 (4-space indentation); expressions come from ExprGen"""

    def __init__(self, rng, expr_depth=3, allow_class=True, allow_def=True):
        self.rng = rng
        self.eg = ExprGen(rng, expr_depth, allow=set(STMT_EXPR_KINDS))
        self.allow_class = allow_class
        self.allow_def = allow_def
        self.bound = []

    def e(self):
        return self.eg.gen(1)

    def name(self):
        n = self.rng.choice(BIND_NAMES)
        self.bound.append(n)
        return n

    def target(self):
        r = self.rng.random()
        if r < 0.6:
            return self.name()
        if r < 0.75:
            return self.name() + ", " + self.name()
        if r < 0.8:
            return "(" + self.name() + ", *" + self.name() + ")"
        if r < 0.9:
            return self.rng.choice(BIND_NAMES) + "." + self.rng.choice(ATTRS)
        return self.rng.choice(BIND_NAMES) + "[" + self.e() + "]"

    def block(self, depth, infunc, n=None):
        r = self.rng
        lines = []
        for _ in range(n or r.choice([1, 1, 2, 2, 3])):
            lines += self.stmt(depth, infunc)
        return lines

    def ind(self, lines):
        return ["    " + l for l in lines]

    def stmt(self, depth, infunc):
        r = self.rng
        kinds = ["assign"] * 6 + ["aug", "expr", "expr", "import", "del", "assert", "lamcomp"]
        if depth < 3:
            kinds += ["for", "while", "if", "if", "try", "with"]
            if self.allow_def:
                kinds += ["def", "def", "def"]
            if self.allow_class:
                kinds += ["class"]
        if infunc:
            kinds += ["return", "return"]
        k = r.choice(kinds)
        if k == "assign":
            tg = " = ".join(self.target() for _ in range(r.choice([1, 1, 1, 2])))
            return [tg + " = " + self.e()]
        if k == "aug":
            return [self.name() + " " + r.choice(BINOPS) + "= " + self.e()]
        if k == "lamcomp":
            # a lambda holding a comprehension, then a read of the comprehension's variable from the namespace: the
            # variable is private to the comprehension, the later read is a free name of the block / enclosing def
            self.lamcomp_n = getattr(self, "lamcomp_n", 0) + 1
            v = r.choice(["row", "item", "cell", "rec"]) + str(self.lamcomp_n)
            comp = r.choice(["[%s for %s in q_]", "{%s for %s in q_}", "{%s: 1 for %s in q_}", "list(%s for %s in q_)",
                             "[(%s, w_) for w_ in q_ for %s in w_]"]) % (v, v)
            lam = r.choice(["lambda q_: " + comp, "lambda q_, *r_: " + comp, "lambda q_: lambda: " + comp])
            out = [self.name() + " = " + lam]
            for _ in range(r.choice([0, 0, 1])):
                out += self.stmt(depth + 1, infunc) if depth < 2 else []
            out += [r.choice([self.name() + " = " + v, self.name() + " = (" + v + ", " + self.e() + ")",
                              "assert " + v, self.e() + "\n" + self.name() + " = " + v + ".attr"]).split("\n")]
            flat = []
            for x in out:
                flat += x if isinstance(x, list) else [x]
            return flat
        if k == "expr":
            return [self.e()]
        if k == "import":
            q = r.random()
            if q < 0.3:
                return ["import " + r.choice(["os", "os.path", "sys, re", "json as js"])]
            if q < 0.4:
                nm = self.name()
                return ["import os.path as " + nm]
            return ["from " + r.choice(["os", "os.path", "math", ".", "..pkg"]) + " import " +
                    r.choice(["sep", "pi as " + self.name(), "floor, ceil", "(sqrt, pi)"])]
        if k == "del":
            if self.bound and r.random() < 0.8:
                return ["del " + r.choice(self.bound)]
            return ["del " + r.choice(BIND_NAMES) + "[0]"]
        if k == "assert":
            return ["assert " + self.e() + (", " + self.e() if r.random() < 0.3 else "")]
        if k == "return":
            return ["return " + self.e() if r.random() < 0.8 else "return"]
        if k == "for":
            out = ["for " + self.target() + " in " + self.e() + ":"] + self.ind(self.block(depth + 1, infunc))
            if r.random() < 0.2:
                out += ["else:"] + self.ind(self.block(depth + 1, infunc, 1))
            return out
        if k == "while":
            return ["while " + self.e() + ":"] + self.ind(self.block(depth + 1, infunc) + (["break"] if r.random() < 0.5 else []))
        if k == "if":
            out = ["if " + self.e() + ":"] + self.ind(self.block(depth + 1, infunc))
            if r.random() < 0.3:
                out += ["elif " + self.e() + ":"] + self.ind(self.block(depth + 1, infunc, 1))
            if r.random() < 0.4:
                out += ["else:"] + self.ind(self.block(depth + 1, infunc, 1))
            return out
        if k == "try":
            out = ["try:"] + self.ind(self.block(depth + 1, infunc))
            q = r.random()
            if q < 0.8:
                for _ in range(r.choice([1, 1, 2])):
                    h = r.random()
                    if h < 0.3:
                        out += ["except:"]
                    elif h < 0.6:
                        out += ["except " + r.choice(["KeyError", "(TypeError, ValueError)", "exc_cls"]) + ":"]
                    else:
                        out += ["except " + r.choice(["Exception", "err_t"]) + " as " + self.name() + ":"]
                    out += self.ind(self.block(depth + 1, infunc, 1))
                    if h < 0.3:
                        break
                if r.random() < 0.2:
                    out += ["else:"] + self.ind(self.block(depth + 1, infunc, 1))
            if q >= 0.6:
                out += ["finally:"] + self.ind(self.block(depth + 1, infunc, 1))
            return out
        if k == "with":
            items = []
            for _ in range(r.choice([1, 1, 2])):
                items.append(self.e() + (" as " + self.target() if r.random() < 0.6 else ""))
            return ["with " + ", ".join(items) + ":"] + self.ind(self.block(depth + 1, infunc))
        if k == "def":
            out = []
            for _ in range(r.choice([0, 0, 0, 1])):
                out.append("@" + r.choice(["deco", "deco(" + self.e() + ")", "obj.attr"]))
            nm = self.name()
            saved = self.bound
            self.bound = []
            ps = self.eg.g_params(1, defaults=True)
            saved_names = self.eg.names
            pn = [n for n in ("p", "q", "u", "v", "w", "k1", "k2", "m", "args", "kw") if re.search(r"\b%s\b" % n, ps)]
            self.eg.names = saved_names + pn * 2
            try:
                body = self.block(depth + 1, True)
            finally:
                self.eg.names = saved_names
            self.bound = saved
            return out + ["def " + nm + "(" + ps + "):"] + self.ind(body)
        if k == "class":
            nm = self.name()
            bases = []
            for _ in range(r.choice([0, 1, 1, 2])):
                bases.append(r.choice(["Base", "obj.attr", self.e()]))
            if r.random() < 0.2:
                bases.append("metaclass=" + r.choice(["Meta", "type"]))
            saved = self.bound
            self.bound = []
            body = self.block(depth + 1, False)
            self.bound = saved
            return ["class " + nm + ("(" + ", ".join(bases) + ")" if bases else "") + ":"] + self.ind(body)
        raise AssertionError(k)


def gen_blocks(ctx, n, **kw):
    out, seen = [], set()
    tries = 0
    while len(out) < n and tries < 4 * n:
        tries += 1
        g = BlockGen(ctx.rng, **kw)
        src = "\n".join(g.block(0, False, ctx.rng.choice([1, 2, 3, 4]))) + "\n"
        if src in seen:
            continue
        try:
            tree = ast.parse(src)
            compile(tree, "<gen>", "exec")          # rejects e.g. 'return' outside function, nonlocal mistakes
        except (SyntaxError, ValueError, RecursionError, MemoryError):
            ctx.branch("gen:block-unparsable")
            continue
        seen.add(src)
        out.append((src, tree))
    return out


# =========================================================================== ground truth: symtable

class _NoInline(ast.NodeTransformer):
    """list/set/dict comprehensions -> generator expressions with the same clauses: identical scoping, but CPython
    3.12's symtable does not merge a generator expression's variables into the enclosing function (PEP 709)"""

    def visit_ListComp(self, n):
        self.generic_visit(n)
        return ast.copy_location(ast.GeneratorExp(elt=n.elt, generators=n.generators), n)

    visit_SetComp = visit_ListComp

    def visit_DictComp(self, n):
        self.generic_visit(n)
        return ast.copy_location(ast.GeneratorExp(elt=ast.Tuple(elts=[n.key, n.value], ctx=ast.Load()),
                                                  generators=n.generators), n)


def symtable_truth(tree):
    """(free names, names bound in the block's own scope) of the module body taken as a function body"""
    import copy
    body = _NoInline().visit(copy.deepcopy(tree)).body
    fn = ast.FunctionDef(name="__block__", args=ast.arguments(posonlyargs=[], args=[], vararg=None, kwonlyargs=[],
                                                              kw_defaults=[], kwarg=None, defaults=[]),
                         body=body, decorator_list=[], returns=None, type_comment=None, type_params=[])
    mod = ast.fix_missing_locations(ast.Module(body=[fn], type_ignores=[]))
    src = ast.unparse(mod)
    st = symtable.symtable(src, "<block>", "exec")
    top = st.get_children()[0]
    free = set()

    def walk(t):
        for s in t.get_symbols():
            if s.is_global():
                free.add(s.get_name())
        for c in t.get_children():
            walk(c)
    walk(top)
    bound = {s.get_name() for s in top.get_symbols() if s.is_local()}
    return free, bound


def uses_global_decl(tree):
    return any(isinstance(n, (ast.Global, ast.Nonlocal)) for n in ast.walk(tree))


def impl_identifiers(src):
    """(declared, undeclared) of mako.ast.PythonCode, or ('exc', class)"""
    from mako import ast as mast
    try:
        with time_limit(10):
            pc = mast.PythonCode(src, source="", lineno=1, pos=0, filename="t")
    except RecursionError:
        raise
    except Exception as e:
        return ("exc", type(e).__name__)
    return (set(pc.declared_identifiers), set(pc.undeclared_identifiers))


def dec_names(f):
    return set() if f == "[]" else {dec(x) for x in f.split(" ")}


def parse_sets(o, keys):
    """'D <names> U <names> …' -> dict key -> set"""
    toks = o.split(" ")
    res, cur = {}, None
    for t in toks:
        if t in keys and (cur is None or t != cur) and t not in res:
            cur = t
            res[cur] = set()
        elif t != "[]":
            res[cur].add(dec(t))
    return res


# =========================================================================== (3) corr.identifiers / spec vs symtable

def py_reserved():
    from mako import pyparser
    return set(pyparser.reserved)


def corr_ident(ctx, blocks):
    drv = ctx.driver()
    st = ctx.stream("corr.identifiers")
    st2 = ctx.stream("corr.spec-vs-symtable")
    reqs, reqs2, cases = [], [], []
    for src, tree in blocks:
        try:
            w = wire_block(tree.body)
        except Unsupported as e:
            ctx.branch("corr.ident:unsupported:" + str(e))
            continue
        reqs.append("py ident " + w)
        reqs2.append("py free " + w)
        cases.append((src, tree))
    outs = drv.ask_many(reqs)
    outs2 = drv.ask_many(reqs2)
    for (src, tree), o, o2 in zip(cases, outs, outs2):
        st["cases"] += 1
        impl = impl_identifiers(src)
        if impl[0] == "exc":
            ctx.branch("ident:raises:" + impl[1])
            if o != "star-import":
                ctx.disagree("corr.identifiers", src, o, list(impl))
            continue
        if o in ("bad-args", "star-import"):
            ctx.disagree("corr.identifiers", src, o, [sorted(impl[0]), sorted(impl[1])])
            continue
        m = parse_sets(o, ("D", "U", "F"))
        if m["D"] != impl[0] or m["U"] != impl[1] or m["F"] != impl[1] - impl[0]:
            ctx.disagree("corr.identifiers", src, {k: sorted(v) for k, v in m.items()}, [sorted(impl[0]), sorted(impl[1])])
        ctx.branch("ident:ok")
        if src.count("\n") > 1:
            ctx.nontriv(src)
        # the specification against CPython's symtable
        if uses_global_decl(tree):
            continue
        st2["cases"] += 1
        free, bound = symtable_truth(tree)
        m2 = parse_sets(o2, ("F", "B"))
        if m2["F"] != free or m2["B"] != bound:
            ctx.disagree("corr.spec-vs-symtable", src, {k: sorted(v) for k, v in m2.items()}, [sorted(free), sorted(bound)])


# =========================================================================== shrinking / classification of expressions

def sub_exprs(node):
    """proper sub-expressions that can stand alone (not Slice / Starred / comprehension parts in Store context)"""
    out = []
    for n in ast.walk(node):
        if n is node or not isinstance(n, ast.expr):
            continue
        if isinstance(n, (ast.Slice, ast.Starred)):
            continue
        if isinstance(getattr(n, "ctx", None), (ast.Store, ast.Del)):
            continue
        out.append(n)
    return out


def _replace_child(root, target, repl):
    import copy

    class R(ast.NodeTransformer):
        def visit(self, n):
            if n is target:
                return repl
            return super().visit(n)
    # the transformer mutates: work on a copy and find the copy of `target` by position in ast.walk order
    order = list(ast.walk(root))
    idx = next(i for i, n in enumerate(order) if n is target)
    c = copy.deepcopy(root)
    tgt = list(ast.walk(c))[idx]

    class R2(ast.NodeTransformer):
        def visit(self, n):
            if n is tgt:
                return copy.deepcopy(repl)
            return super().visit(n)
    return R2().visit(c)


def shrink_expr(node, fails, budget=250):
    """greedy tree reduction of an expression AST: descend into failing sub-expressions, then replace children by a
    name; `fails(node) -> bool`"""
    tests = [0]

    def f(n):
        tests[0] += 1
        try:
            ast.fix_missing_locations(n)
            # only candidates that are images of the parser (unparse -> parse gives the same tree)
            if ast.dump(ast.parse(ast.unparse(n), mode="eval").body) != ast.dump(n):
                return False
            return bool(fails(n))
        except RecursionError:
            return False
        except Exception:
            return False
    changed = True
    while changed and tests[0] < budget:
        changed = False
        for s in sorted(sub_exprs(node), key=lambda n: len(ast.dump(n))):
            if tests[0] >= budget:
                break
            if f(s):
                node, changed = s, True
                break
        if changed:
            continue
        for s in sub_exprs(node):
            if tests[0] >= budget:
                break
            if isinstance(s, ast.Name):
                continue
            for leaf in (ast.Name(id="a", ctx=ast.Load()), ast.Constant(value=1)):
                try:
                    cand = _replace_child(node, s, leaf)
                except StopIteration:
                    continue
                if f(cand):
                    node, changed = cand, True
                    break
            if changed:
                break
    return node


def classify_expr(node, parent="root"):
    """(site, where) for a minimal expression whose re-emission is wrong"""
    from mako import _ast_util as AU
    st, txt = impl_print(node)
    where = {"parent": parent}
    if st == "exc":
        if txt == "KeyError":
            for n in ast.walk(node):
                for tbl, fld in ((AU.BINOP_SYMBOLS, "op"), (AU.UNARYOP_SYMBOLS, "op"), (AU.BOOLOP_SYMBOLS, "op")):
                    if isinstance(n, (ast.BinOp, ast.UnaryOp, ast.BoolOp)) and type(n.op) not in AU.ALL_SYMBOLS:
                        return "sourcegen-no-symbol", {"op": type(n.op).__name__}
                if isinstance(n, ast.Compare):
                    for o in n.ops:
                        if type(o) not in AU.CMPOP_SYMBOLS:
                            return "sourcegen-no-symbol", {"op": type(o).__name__}
        if txt == "TypeError" and any(isinstance(n, ast.Call) and any(k.arg is None for k in n.keywords) for n in ast.walk(node)):
            return "sourcegen-call-doublestar-crash", {}
        if txt == "AttributeError":
            if any(isinstance(n, ast.Dict) and any(k is None for k in n.keys) for n in ast.walk(node)):
                return "sourcegen-dict-doublestar-crash", {}
            if any(isinstance(n, ast.Yield) and n.value is None for n in ast.walk(node)):
                return "sourcegen-bare-yield-crash", {}
        return "sourcegen-raises", {"exc": txt}
    for n in ast.walk(node):
        if isinstance(n, ast.expr) and not hasattr(AU.SourceGenerator, "visit_" + type(n).__name__):
            return "sourcegen-missing-visit_" + type(n).__name__, {}
    for n in ast.walk(node):
        if isinstance(n, ast.Lambda) and (n.args.kwonlyargs or n.args.posonlyargs):
            # only when the parameters really get lost: the same lambda with a trivial body is re-emitted wrongly
            probe = ast.fix_missing_locations(ast.Lambda(args=n.args, body=ast.Constant(value=0)))
            try:
                lost = not reemit_ok(ast.parse(ast.unparse(probe), mode="eval").body)[0]
            except Exception:
                lost = True
            if lost and n.args.kwonlyargs:
                return "sourcegen-lambda-params-dropped", {"kind": "kwonly"}
            if lost and n.args.posonlyargs:
                return "sourcegen-lambda-params-dropped", {"kind": "posonly"}
        if isinstance(n, ast.comprehension) and n.is_async:
            return "sourcegen-async-comprehension", {}
        if isinstance(n, ast.Constant) and isinstance(n.value, (float, complex)):
            r = repr(n.value)
            if "inf" in r or "nan" in r:
                return "sourcegen-constant-repr", {"repr": "inf/nan"}
    # the first (parent, child) edge whose child is not a plain name: in a minimal tree that is the offending nesting
    edges = []

    def rec(n):
        for c in ast.iter_child_nodes(n):
            if isinstance(c, ast.expr):
                if not isinstance(c, ast.Name):
                    edges.append((type(n).__name__, type(c).__name__, c))
                rec(c)
            elif isinstance(c, (ast.comprehension, ast.keyword, ast.arguments)):
                rec(c)
    rec(node)
    if any(isinstance(n, ast.Tuple) and any(isinstance(e, ast.Slice) for e in n.elts) for n in ast.walk(node)):
        return "sourcegen-nesting", {"parent": "Tuple", "child": "Slice"}       # a[1:2, 3]: slices inside visit_Tuple's parentheses
    if edges:
        # the offending child: the innermost (last in pre-order) non-name node whose replacement by a name repairs the
        # re-emission (Slice/Starred nodes survive the shrinker because they cannot stand alone)
        for pc, ch, chnode in reversed(edges):
            try:
                cand = ast.fix_missing_locations(_replace_child(node, chnode, ast.Name(id="a", ctx=ast.Load())))
                if ast.dump(ast.parse(ast.unparse(cand), mode="eval").body) == ast.dump(cand) and reemit_ok(cand)[0]:
                    return "sourcegen-nesting", {"parent": pc, "child": ch}
            except Exception:
                continue
        return "sourcegen-nesting", {"parent": edges[-1][0], "child": edges[-1][1]}
    return "sourcegen-nesting", {"parent": parent, "child": type(node).__name__}


# =========================================================================== oracle (a): re-emission round trip

def oracle_reemit(ctx, exprs):
    st = ctx.stream("oracle.reemit-roundtrip", "oracle")
    reported = {}
    for src, node in exprs:
        st["cases"] += 1
        ok, detail = reemit_ok(node)
        if ok:
            ctx.branch("oracle.reemit:ok")
            continue
        small = shrink_expr(node, lambda n: not reemit_ok(n)[0])
        site, where = classify_expr(small)
        key = (site, tuple(sorted(where.items())))
        ctx.branch("oracle.reemit:" + site + ":" + ",".join("%s=%s" % kv for kv in sorted(where.items()) if kv[0] != "parent"))
        if key in reported:
            continue
        reported[key] = True
        case = dict(where)
        case["input"] = ast.unparse(small)
        case["from"] = src if len(src) < 300 else src[:300] + "…"
        ctx.violation(site, case, reemit_ok(small)[1], "oracle.reemit-roundtrip")
    return reported


# =========================================================================== guards of the theorems vs reality

def corr_guards(ctx, exprs):
    """where the model's guards (total, complete, well-parenthesised at every node and at the root slot) hold, the real
    re-emitter's text must re-parse to the same AST - the step the Lean theorems leave to CPython"""
    drv = ctx.driver()
    st = ctx.stream("corr.guards-predict-roundtrip")
    reqs, cases = [], []
    for src, node in exprs:
        try:
            reqs.append("py guards " + wire_expr(node))
            cases.append((src, node))
        except Unsupported:
            pass
    outs = drv.ask_many(reqs)
    n_all = 0
    for (src, node), o in zip(cases, outs):
        st["cases"] += 1
        if len(o) != 6:
            ctx.disagree("corr.guards-predict-roundtrip", src, o, "6 flags")
            continue
        total, complete, paren, rdef, rflt, lit = (c == "1" for c in o)
        s, txt = impl_print(node)
        if total and s == "exc":
            ctx.disagree("corr.guards-predict-roundtrip", src, "totalGuard holds", "raises " + txt)
        if total and complete and paren and rdef and lit:
            n_all += 1
            ok, detail = reemit_ok(node)
            if not ok:
                ctx.disagree("corr.guards-predict-roundtrip", src, "all guards hold", detail)
        ctx.branch("guards:total=%d,complete=%d,paren=%d" % (total, complete, paren))
    ctx.branch("guards:all-hold", n_all)


# =========================================================================== evaluable expressions (oracle b)

ENV_SRC = '''
a = 3
b = 4
n0 = 0
c = [1, 2, 3]
d = {'k': 1, 'j': 2}
s = 'str#"q"'
t = (5, 6)
class M:
    def __init__(self, v): self.v = v
    def __matmul__(self, o): return M(self.v * 10 + o.v)
    def __repr__(self): return 'M(%r)' % (self.v,)
    def __eq__(self, o): return isinstance(o, M) and o.v == self.v
    def __hash__(self): return hash(self.v)
def f(*args, **kw): return (args, sorted(kw.items()))
def ident(v): return v
def flt(v):
    return lambda text: repr(canon(v))
def canon(v, depth=0):
    import types
    if depth > 4: return '...'
    if isinstance(v, (types.FunctionType, types.LambdaType)):
        for args in ((), (2,), (2, 3)):
            try:
                return ('fn', len(args), canon(v(*args), depth + 1))
            except TypeError:
                continue
            except Exception as e:
                return ('fn-exc', type(e).__name__)
        return ('fn', '?')
    if isinstance(v, type):
        return ('class', v.__name__)
    if callable(v):
        return ('callable', type(v).__name__)
    if isinstance(v, types.GeneratorType):
        return ('gen', canon(list(v), depth + 1))
    if isinstance(v, (list, tuple)):
        return (type(v).__name__, [canon(x, depth + 1) for x in v])
    if isinstance(v, (set, frozenset)):
        return ('set', sorted(repr(canon(x, depth + 1)) for x in v))
    if isinstance(v, dict):
        return ('dict', sorted((repr(canon(k, depth + 1)), canon(x, depth + 1)) for k, x in v.items()))
    if isinstance(v, float) and v != v: return 'nan'
    return repr(v)
'''


class EvalGen:
    """typed generator of *evaluable* expressions over ENV_SRC's names (every sub-expression parenthesised)"""

    def __init__(self, rng, maxdepth=4):
        self.rng = rng
        self.maxdepth = maxdepth

    def P(self, s):
        return "(" + s + ")"

    def int_(self, d):
        r = self.rng
        if d >= self.maxdepth:
            return r.choice(["a", "b", "1", "2", "7", "n0"])
        k = r.randint(0, 17)
        I, B, L, S = (lambda: self.P(self.int_(d + 1))), (lambda: self.P(self.bool_(d + 1))), \
            (lambda: self.P(self.list_(d + 1))), (lambda: self.P(self.str_(d + 1)))
        if k == 0:
            return r.choice(["a", "b", "1", "2", "10", "255", "n0"])
        if k == 1:
            return I() + " " + r.choice(["+", "-", "*", "&", "|", "^"]) + " " + I()
        if k == 2:
            return I() + " " + r.choice(["//", "%"]) + " " + self.P(self.int_(d + 1) + " or 1")
        if k == 3:
            return I() + " ** " + r.choice(["0", "1", "2", "3"])
        if k == 4:
            return I() + " " + r.choice(["<<", ">>"]) + " " + r.choice(["0", "1", "2"])
        if k == 5:
            return r.choice(["-", "+", "~"]) + I()
        if k == 6:
            return "len" + self.P(self.list_(d + 1))
        if k == 7:
            return I() + " if " + B() + " else " + I()
        if k == 8:
            return "c[" + r.choice(["0", "1", "-1", "a - 2"]) + "]"
        if k == 9:
            return "d['k']" if r.random() < 0.5 else "t[1]"
        if k == 10:
            return self.lam_call(d)
        if k == 11:
            return "sum" + self.P(self.list_(d + 1))
        if k == 12:
            return self.P("M" + I() + " @ M" + I()) + ".v"
        if k == 13:
            return S() + ".count('t')"
        if k == 14:
            return I() + ".real"
        if k == 15:
            return "max(" + I() + ", " + I() + ")"
        if k == 16:
            return "int" + self.P(self.float_(d + 1))
        return self.P(self.P("w9 := " + self.int_(d + 1)) + " + w9") if False else I()

    def float_(self, d):
        r = self.rng
        k = r.randint(0, 5)
        if k == 0:
            return r.choice(["1.5", "2.0", "1e-07", "0.1", "1e16", "1e999", "-1e999", "2.5e-3"])
        if k == 1:
            return self.P(self.int_(d + 1)) + " / " + self.P(self.int_(d + 1) + " or 1")
        if k == 2:
            return self.P(self.int_(d + 1)) + " * 0.5"
        if k == 3:
            return "float" + self.P(self.int_(d + 1))
        if k == 4:
            return "abs(" + self.P(self.int_(d + 1)) + " - 0.25)"
        return "1.5"

    def bool_(self, d):
        r = self.rng
        if d >= self.maxdepth:
            return r.choice(["True", "False", "a < b", "n0"])
        k = r.randint(0, 6)
        I = lambda: self.P(self.int_(d + 1))
        B = lambda: self.P(self.bool_(d + 1))
        if k == 0:
            return I() + " " + r.choice(["<", "<=", ">", ">=", "==", "!="]) + " " + I()
        if k == 1:
            return I() + " < " + I() + " " + r.choice(["<=", "!=", ">"]) + " " + I()
        if k == 2:
            return B() + r.choice([" and ", " or "]) + B() + (r.choice([" and ", " or "]) + B() if r.random() < 0.3 else "")
        if k == 3:
            return "not " + B()
        if k == 4:
            return I() + r.choice([" in ", " not in "]) + self.P(self.list_(d + 1))
        if k == 5:
            return I() + r.choice([" is ", " is not "]) + "None"
        return r.choice(["True", "False"])

    def list_(self, d):
        r = self.rng
        if d >= self.maxdepth:
            return r.choice(["c", "[1, 2]", "[]"])
        k = r.randint(0, 8)
        I = lambda: self.P(self.int_(d + 1))
        if k == 0:
            return "[" + ", ".join(I() for _ in range(r.randint(0, 3))) + "]"
        if k == 1:
            v = r.choice(["p", "q"])
            body = self.P(self.int_(d + 1).replace("n0", v, 1))
            return "[" + body + " for " + v + " in " + self.P(self.list_(d + 1)) + \
                (" if " + self.P(v + " " + r.choice(["<", ">", "!="]) + " " + self.int_(d + 1)) if r.random() < 0.5 else "") + "]"
        if k == 2:
            return self.P(self.list_(d + 1)) + "[" + r.choice(["1:", ":2", "::2", "::-1", "a - 3:b:1", ":"]) + "]"
        if k == 3:
            return "[*" + self.P(self.list_(d + 1)) + ", " + I() + "]"
        if k == 4:
            return "sorted" + self.P("{" + ", ".join(I() for _ in range(r.randint(1, 3))) + "}")
        if k == 5:
            return "list" + self.P(self.P(self.int_(d + 1).replace("n0", "p", 1)) + " for p in " + self.P(self.list_(d + 1)))
        if k == 6:
            return "sorted" + self.P("{" + self.P(self.int_(d + 1)) + ": 1, **d}")
        if k == 7:
            return "[v for k, v in sorted({" + I() + ": " + I() + " for p in c}.items())]"
        return "c"

    def str_(self, d):
        r = self.rng
        if d >= self.maxdepth:
            return r.choice(["s", "'x'", '"y"'])
        k = r.randint(0, 7)
        S = lambda: self.P(self.str_(d + 1))
        if k == 0:
            return r.choice(["'it'", '"q\'q"', "'d\"d'", r"'b\\s'", r"'a\nb'", "'#h'", "'''t'''", '"a" "b"', "''", "'é世'",
                             r"'\''", "'{}'", "'%d'"])
        if k == 1:
            return S() + " + " + S()
        if k == 2:
            return S() + " * " + r.choice(["0", "1", "2"])
        if k == 3:
            return S() + "." + r.choice(["upper", "lower", "strip", "title"]) + "()"
        if k == 4:
            return 'f"' + r.choice(["x", ""]) + "{" + self.int_(self.maxdepth) + r.choice(["", "!r", ":>4"]) + '}{s!r}"'
        if k == 5:
            return S() + "[" + r.choice(["1:", ":2", "::-1", "0"]) + "]"
        if k == 6:
            return "'-'.join(str(p) for p in " + self.P(self.list_(d + 1)) + ")"
        return "'%s:%s' % (" + self.int_(d + 1) + ", " + self.str_(d + 1) + ")"

    def lam_call(self, d):
        r = self.rng
        I = lambda: self.P(self.int_(d + 1))
        k = r.randint(0, 6)
        if k == 0:
            return self.P("lambda p: p + " + I()) + "(" + I() + ")"
        if k == 1:
            return self.P("lambda p, q=" + I() + ": p * q") + "(" + I() + ")"
        if k == 2:
            return self.P("lambda *p: len(p)") + "(" + I() + ", *c)"
        if k == 3:
            return self.P("lambda p, *, q=" + I() + ": p - q") + "(" + I() + r.choice(["", ", q=1"]) + ")"
        if k == 4:
            return self.P("lambda **p: len(p)") + "(**d)"
        if k == 5:
            return self.P("lambda p, /, q: p - q") + "(" + I() + ", " + I() + ")"
        return self.P("lambda: " + I()) + "()"

    def any_(self, d=0):
        r = self.rng
        k = r.randint(0, 9)
        if k <= 2:
            return self.int_(d)
        if k == 3:
            return self.bool_(d)
        if k == 4:
            return self.list_(d)
        if k == 5:
            return self.str_(d)
        if k == 6:
            return self.float_(d)
        if k == 7:
            return "(" + self.int_(d + 1) + ", " + self.str_(d + 1) + ")"
        if k == 8:
            return "{" + self.P(self.str_(d + 1)) + ": " + self.P(self.int_(d + 1)) + ", 'z': " + self.P(self.list_(d + 1)) + "}"
        return r.choice(["lambda p: p + " + self.P(self.int_(d + 1)),
                         "lambda p=" + self.P(self.int_(d + 1)) + ", *q: (p, q)",
                         "f(" + self.P(self.int_(d + 1)) + ", *c, k=" + self.P(self.str_(d + 1)) + ", **d)",
                         "f(**d)", "f(*c)",
                         self.P(self.int_(d + 1)) + " if " + self.P(self.bool_(d + 1)) + " else " + self.P(self.str_(d + 1)),
                         "ident(" + self.P(self.int_(d + 1)) + ")",
                         "(p * 2 for p in " + self.P(self.list_(d + 1)) + ")",
                         "{**d, 'n': " + self.P(self.int_(d + 1)) + "}"])


def _native_env():
    g = {}
    exec(compile(ENV_SRC, "<c19env>", "exec"), g)
    return g


_ENV = None


def native_eval(src):
    """('ok', canon) | ('exc', class)"""
    global _ENV
    if _ENV is None:
        _ENV = _native_env()
    g = dict(_ENV)
    try:
        return ("ok", repr(g["canon"](eval(compile(src, "<expr>", "eval"), g))))
    except RecursionError:
        raise
    except Exception as e:
        return ("exc", type(e).__name__)


TEMPLATE_SLOTS = {
    "def-default": '<%%! %s %%><%%def name="fn(p=%s)">${repr(canon(p))}</%%def>${fn()}',
    "def-kwonly-default": '<%%! %s %%><%%def name="fn(*, p=%s)">${repr(canon(p))}</%%def>${fn()}',
    "nested-def-default": '<%%! %s %%><%%def name="outer()"><%%def name="fn(p=%s)">${repr(canon(p))}</%%def>${fn()}</%%def>${outer()}',
    "page-arg-default": '<%%! %s %%><%%page args="p=%s"/>${repr(canon(p))}',
    "block-arg-default": '<%%! %s %%><%%page args="p=0"/><%%block name="bl" args="p=%s">@@${repr(canon(p))}</%%block>${bl()}',
    "filter-arg": '<%%! %s %%>${"x" | flt(%s)}',
    "def-filter-arg": '<%%! %s %%><%%def name="fn()" filter="flt(%s)">x</%%def>${fn()}',
}


LAST_TEMPLATE_ERROR = [""]


def template_eval(slot, src, strict=False):
    """value of `src` placed in a real template slot: ('ok', text) | ('exc', class)"""
    from mako.template import Template
    env_block = "\n" + ENV_SRC + "\n"
    text = TEMPLATE_SLOTS[slot] % (env_block, src)
    if '"' in src and slot not in ("filter-arg",):
        # the expression sits in a tag attribute: delimit the attribute with the other quote
        if "'" in src:
            return ("skip", "both quote characters")
        text = re.sub(r'(name|args|filter)="([^"]*%s[^"]*)"' % re.escape(src), lambda m: "%s='%s'" % (m.group(1), m.group(2)), text)
    try:
        try:
            with time_limit(10):
                t = Template(text, strict_undefined=strict)
                out = t.render()
        except Hang as e:
            e.case = text
            raise
        return ("ok", out.rsplit("@@", 1)[-1])
    except RecursionError:
        raise
    except Exception as e:
        LAST_TEMPLATE_ERROR[0] = "%s: %s" % (type(e).__name__, e)
        return ("exc", type(e).__name__)


def oracle_template_values(ctx, n):
    st = ctx.stream("oracle.template-values", "oracle")
    g = EvalGen(ctx.rng)
    reported = {}
    slots = list(TEMPLATE_SLOTS)
    for i in range(n):
        src = g.any_(0)
        try:
            node = ast.parse(src, mode="eval").body
        except (SyntaxError, ValueError):
            ctx.branch("gen:eval-unparsable")
            continue
        slot = slots[i % len(slots)]
        want = native_eval(src)
        got = template_eval(slot, src)
        if got[0] == "skip" or "\n" in src:
            ctx.branch("oracle.values:skipped:" + got[1] if got[0] == "skip" else "oracle.values:skipped:newline")
            continue
        st["cases"] += 1
        ctx.branch("oracle.values:slot:" + slot)
        ctx.branch("oracle.values:native:" + (want[0] if want[0] == "ok" else "raises-" + want[1]))
        if want[0] == "ok" and expr_depth(node) >= 3:
            ctx.nontriv(("v", src))
        if got == want:
            continue

        def fails(nd, slot=slot, want=want):
            s2 = ast.unparse(nd)
            w = native_eval(s2)
            if w[0] != want[0] or (w[0] == "exc" and w[1] != want[1]):
                return False                      # keep the kind of native outcome: no slipping to another failure
            g2 = template_eval(slot, s2)
            return g2[0] != "skip" and g2 != w
        small = shrink_expr(node, fails, 120)
        ssrc = ast.unparse(small)
        if reemit_ok(small)[0]:
            r_ = template_eval(slot, ssrc)
            if r_ == ("exc", "UnboundLocalError") or (r_ == ("exc", "NameError") and
                                                     "cannot access free variable" in LAST_TEMPLATE_ERROR[0]):
                # the def's stub `def fn(p=EXPR)` is written before `name = context.get(...)` (set iteration order)
                site, where = "def-default-evaluated-before-name-is-fetched", {"slot": slot}
            else:
                site, where = "template-value-differs-though-reemission-is-faithful", {"slot": slot}
        else:
            small2 = shrink_expr(small, lambda nd: not reemit_ok(nd)[0], 120)
            site, where = classify_expr(small2)
            ssrc = ast.unparse(small2)
        key = (site, tuple(sorted((k, v) for k, v in where.items() if k != "parent")))
        ctx.branch("oracle.values:VIOLATION:" + site)
        if key in reported:
            continue
        reported[key] = True
        case = dict(where)
        case.update({"input": ssrc, "slot": slot, "from": src[:300]})
        ctx.violation(site, case, "template gives %r, native eval gives %r" % (template_eval(slot, ssrc), native_eval(ssrc)),
                      "oracle.template-values")
    # the callee position of a filter: ${x | EXPR}
    st2 = ctx.stream("oracle.filter-callee", "oracle")
    from mako.template import Template
    for src, arg, want in [("(lambda v: v + 'k')", "x", "xk"), ("(str.upper if a else str.lower)", "x", "X"),
                           ("ident", "x", "x"), ("[str.upper][0]", "x", "X"), ("(lambda v, w='!': v + w)", "x", "x!")]:
        st2["cases"] += 1
        text = "<%%! %s %%>${'%s' | %s}" % ("\n" + ENV_SRC + "\n", arg, src[1:-1] if src.startswith("(") and False else src)
        # the tag's filter list is split on commas at top level, so the expression is written with its own parentheses;
        # ArgumentList parses it and re-emits it without them
        try:
            got = Template(text).render()
        except Exception as e:
            got = "raises " + type(e).__name__
        if got != want:
            node = ast.parse(src, mode="eval").body
            ctx.violation("sourcegen-nesting", {"parent": "filter-callee", "child": type(node).__name__, "input": src},
                          "filter %s applied to %r gives %r, expected %r" % (src, arg, got, want), "oracle.filter-callee")


# =========================================================================== executable blocks with awkward literals

class ExecGen:
    """Executable statement blocks (margin 0) made of assignments of string/number literals, control flow and small
    functions.  Every physical line is tagged: 'code' (starts a logical line: carries the block's margin),
    'cont' (continuation of a logical line outside any string: indentation is free), 'raw' (inside a string
    literal: must be reproduced verbatim).  `names` = the variables assigned at top level."""

    SINGLE = ["'plain'", "'a#b'", '"it\'s"', "'say \"hi\"'", r"'back\\slash'", r"'nl\n'", "\"'''\"", "'\"\"\"'",
              "'#\"\"\"'", r"'\''", r'"\""', "'tab\\tx'", "'  lead'", "'%s'", "''", '""', "'é世'", "'\\\\'", "'a' 'b'",
              "'x'  # c", "'x'  # '''", '\'x\'  # """ q', "'q'#\\"]
    TRIPLE_ONE = ['"""one"""', "'''one'''", '"""with \'\'\' inside"""', "'''with \"\"\" inside'''", '"""a#b"""',
                  '"""q"uote"""', r'"""esc\"""q"""', '""""lead"""', "'''it's'''", '""" """', '""""""', "''''''"]

    def __init__(self, rng, tabs_in_strings=False):
        self.rng = rng
        self.n = 0
        self.names = []
        self.tabs_in_strings = tabs_in_strings

    def var(self, top):
        self.n += 1
        v = "v%d" % self.n
        if top:
            self.names.append(v)
        return v

    def ml_content(self, q):
        """content lines of a triple-quoted literal delimited by q (\"\"\" or ''')"""
        r = self.rng
        other = "'''" if q == '"""' else '"""'
        pool = ["line", "    indented", "\tx", "a\tb", "\t\tdeep", "  y", "# not a comment", "it's", 'say "x"', other,
                other + " text " + other, "ends with backslash \\", "", "  ", "x = 1", "if a:", "\\" + q[0] + q[0] + q[0] if False else "k\\n",
                "a\\\\", "%>" if False else "pct %", "${nope}" if False else "$ {brace}"]
        return [r.choice(pool) for _ in range(r.randint(1, 4))]

    def value(self):
        """list of (kind, text) physical lines of an expression; first line continues the statement's first line"""
        r = self.rng
        k = r.random()
        if k < 0.35:
            lit = r.choice(self.SINGLE)
            if self.tabs_in_strings and r.random() < 0.5:
                lit = "'a\tb'"
            return [("code", lit)]
        if k < 0.45:
            return [("code", r.choice(self.TRIPLE_ONE))]
        if k < 0.75:
            q = r.choice(['"""', "'''"])
            body = self.ml_content(q)
            first = r.choice(["", "start", "  sp"])
            last = r.choice(["", "end", "    "])
            lines = [("code", q + first)] + [("raw", b) for b in body[:-1]] + [("raw", body[-1] + last + q)]
            # the last content line must not end in a backslash / quote of the same kind before the closer
            if lines[-1][1].endswith("\\" + q) or lines[-1][1].endswith(q[0] + q):
                lines[-1] = ("raw", "z" + q)
            if r.random() < 0.3:
                lines[-1] = ("raw", lines[-1][1] + r.choice([" + 'x'", ".upper()", "  # trailing", " + \"'''\""]))
            return lines
        if k < 0.85:
            return [("code", str(r.randint(0, 9)) + " + \\"), ("cont", r.choice(["", "  ", "        ", "\t"]) + str(r.randint(0, 9)))]
        if k < 0.92:
            return [("code", "'abc\\"), ("raw", r.choice(["def'", "  def'", "d#f'", 'd"f\'', "\tdef'", "d\tf'"]))]
        return [("code", "(" + str(r.randint(0, 9)) + ","), ("cont", r.choice(["", "  ", "          "]) + "'t')")]

    def assign(self, top, ind):
        v = self.var(top)
        val = self.value()
        out = [("code", ind + v + " = " + val[0][1])]
        for kind, text in val[1:]:
            out.append((kind, text if kind == "raw" else ind + text))
        return out

    def stmt(self, depth, top, ind):
        r = self.rng
        k = r.random()
        if depth >= 2 or k < 0.55:
            return self.assign(top, ind)
        if k < 0.62:
            return [("code", ind + r.choice(["# comment", "# it's", '# """', "# '''", "# ends \\", "#", "   # deeper comment"]))]
        if k < 0.67:
            return [("blank", r.choice(["", "  ", "\t"]))]
        if k < 0.77:
            out = [("code", ind + "if " + r.choice(["True", "1", "not 0"]) + ":" + r.choice(["", "  # c", "  # '''"]))]
            for _ in range(r.randint(1, 2)):
                out += self.stmt(depth + 1, top, ind + "    ")
            if r.random() < 0.4:
                out += [("code", ind + "else:")] + self.stmt(depth + 1, False, ind + "    ")
            return out
        if k < 0.85:
            v = self.var(top)
            out = [("code", ind + v + " = ''"), ("code", ind + "for k_ in range(2):")]
            out += [("code", ind + "    " + v + " += str(k_) + " + r.choice(self.SINGLE[:12]))]
            return out
        if k < 0.93:
            v = self.var(top)
            fn = "fn%d" % self.n
            out = [("code", ind + "def " + fn + "(p, *q, r='d', **kw):")]
            body = self.assign(False, ind + "    ")
            out += body
            lv = body[0][1].strip().split(" = ")[0]
            out += [("code", ind + "    return p + str(" + lv + ") + r")]
            out += [("code", ind + v + " = " + fn + "('A')")]
            return out
        if k < 0.965:
            v = self.var(top)
            return [("code", ind + "try:"), ("code", ind + "    " + v + " = [][0]"), ("code", ind + "except IndexError as e_:"),
                    ("code", ind + "    " + v + " = 'caught'")]
        # a lambda holding a comprehension over a variable that is ALSO a name of the template's namespace, read from the
        # namespace afterwards (in the block itself or in an enclosing def)
        v = self.var(top)
        nm = r.choice(sorted(NAMESPACE))
        comp = r.choice(["[%s for %s in z_]", "{%s: 1 for %s in z_}", "sorted({%s for %s in z_})", "list(%s for %s in z_)"]) % (nm, nm)
        lc = "lc%d" % self.n
        if r.random() < 0.5:
            return [("code", ind + lc + " = lambda z_: " + comp), ("code", ind + v + " = (" + lc + "('ab'), " + nm + ")")]
        gn = "gn%d" % self.n
        return [("code", ind + "def " + gn + "(p, *q, r='d', **kw):"),
                ("code", ind + "    " + lc + " = lambda z_: " + comp),
                ("code", ind + "    return (" + lc + "(p), " + nm + ", r)"),
                ("code", ind + v + " = " + gn + "('ab')")]

    def block(self):
        out = []
        for _ in range(self.rng.randint(1, 5)):
            out += self.stmt(0, True, "")
        if not any(k == "code" and not t.lstrip().startswith("#") for k, t in out):
            out += self.assign(True, "")
        return out


MARGINS = ["", " ", "  ", "    ", "      ", "        ", "            ", "\t", "\t\t", "  \t", "    \t", " \t ", "\t    "]


def with_margin(lines, m):
    """physical lines of the block written at margin m (raw lines verbatim, blank lines as they are)"""
    out = []
    for kind, text in lines:
        if kind in ("code", "cont"):
            out.append(m + text)
        else:
            out.append(text)
    return out


def block_is_valid(lines):
    src = "\n".join(t for _, t in lines) + "\n"
    try:
        compile(src, "<execgen>", "exec")
        return src
    except (SyntaxError, ValueError):
        return None


def gen_exec_blocks(ctx, n, tabs_in_strings=False):
    out = []
    tries = 0
    while len(out) < n and tries < 5 * n:
        tries += 1
        g = ExecGen(ctx.rng, tabs_in_strings)
        lines = g.block()
        src = block_is_valid(lines)
        if src is None:
            ctx.branch("gen:exec-invalid")
            continue
        out.append((lines, src, list(g.names)))
    return out


# =========================================================================== (4) corr.whitespace

def impl_flush(indent, block):
    from mako import pygen
    buf = io.StringIO()
    p = pygen.PythonPrinter(buf)
    p.indent = indent
    p.indent_detail = ["if"] * indent
    p.write_indented_block(block)
    p.close()
    return buf.getvalue()


def corr_whitespace(ctx, blocks):
    from mako import pygen
    drv = ctx.driver()
    st = ctx.stream("corr.adjust-whitespace")
    st2 = ctx.stream("corr.flush-adjusted-lines")
    texts = []
    for lines, src, names in blocks:
        m = ctx.rng.choice(MARGINS)
        body = "\n".join(with_margin(lines, m))
        variants = ["\n" + body + "\n", body, "\n" + body.replace("\n", "\r\n") + "\r\n"]
        texts.append((variants[ctx.rng.randrange(3) if ctx.rng.random() < 0.3 else 0], m))
    # plus adversarial short texts over a small alphabet
    alpha = ['"""', "'''", "#", "\\", "\n", " ", "\t", "x", '"', "'", "  ", "\r\n", "a = 1", "\\\n"]
    for _ in range(len(blocks)):
        texts.append(("".join(ctx.rng.choice(alpha) for _ in range(ctx.rng.randint(1, 12))), None))
    outs = drv.ask_many(["py adjust " + enc(t) for t, _ in texts])
    for (t, m), o in zip(texts, outs):
        st["cases"] += 1
        try:
            with time_limit(10):
                want = pygen.adjust_whitespace(t)
        except Hang as e:
            ctx.disagree("corr.adjust-whitespace", t, dec(o) if o != "bad-args" else o, "adjust_whitespace: " + str(e))
            ctx.violation("remargin-does-not-terminate", {"input": t}, "pygen.adjust_whitespace(%r) did not return" % t,
                          "corr.adjust-whitespace")
            break
        ctx.branch("adjust:margin:" + ("random-text" if m is None else repr(m)))
        if o != enc(want):
            ctx.disagree("corr.adjust-whitespace", t, dec(o) if o != "bad-args" else o, want)
        if "\n" in t.strip("\n"):
            ctx.nontriv(("ws", t))
    reqs = []
    for i, (t, m) in enumerate(texts):
        reqs.append("py flush %d %s" % (i % 4, enc(t)))
    outs = drv.ask_many(reqs)
    for i, ((t, m), o) in enumerate(zip(texts, outs)):
        st2["cases"] += 1
        try:
            with time_limit(10):
                want = impl_flush(i % 4, t)
        except Hang as e:
            ctx.disagree("corr.flush-adjusted-lines", {"input": t, "indent": i % 4}, o, "PythonPrinter: " + str(e))
            break
        got = "".join(dec(x) + "\n" for x in ([] if o == "[]" else o.split(" "))) if o != "bad-args" else o
        if got != want:
            ctx.disagree("corr.flush-adjusted-lines", {"input": t, "indent": i % 4}, got, want)


def corr_flags(ctx, blocks):
    """the model's in_multi_line answers vs the lexical specification, on well-formed generated blocks; differences are
    expected exactly where the implementation is defective - they are *counted* here (the oracle decides)"""
    drv = ctx.driver()
    st = ctx.stream("corr.multiline-flags-vs-spec")
    texts = []
    for lines, src, names in blocks:
        texts.append((lines, "\n".join(with_margin(lines, "    "))))
    outs = drv.ask_many(["py flags " + enc(t) for _, t in texts])
    for (lines, t), o in zip(texts, outs):
        st["cases"] += 1
        mf, sf = o.split(" ")
        truth = "".join("1" if k in ("raw", "cont") else "0" for k, _ in lines)
        # generator's ground truth: raw/cont lines start inside a literal or after a continuation.  ('cont' lines of a
        # bracketed expression are not "inside" lexically.)
        lex_truth = []
        for idx, (k, text) in enumerate(lines):
            if k == "raw":
                lex_truth.append("1")
            elif k == "cont":
                lex_truth.append("1" if lines[idx - 1][1].rstrip().endswith("\\") else "0")
            else:
                lex_truth.append("0")
        if sf != "".join(lex_truth):
            ctx.disagree("corr.multiline-flags-vs-spec", t, "Spec.multiFlags=" + sf, "generator truth=" + "".join(lex_truth))
        ctx.branch("flags:model=spec" if mf == sf else "flags:model!=spec")


# =========================================================================== oracle (c): blocks in real templates

ENV_SRC += '''
def canon_ns(ns, names):
    return canon(dict((k, ns[k]) for k in names if k in ns))
'''

BLOCK_VARIANTS = ["top", "if", "def", "for-if", "module"]
# names the executable blocks read from the template's namespace (render(**NAMESPACE) / globals of the native exec)
NAMESPACE = {"row": "ROW", "item": "ITEM", "cell": "CELL"}


def block_template(variant, phys_lines, margin, names):
    body = "\n".join(phys_lines)
    tail = margin + "out__ = canon_ns(%s, %r)" % ("locals()" if variant != "module" else "dict(globals())", names)
    env = "<%!\n" + ENV_SRC + "\n%>\n"
    code = "<%\n" + body + "\n" + tail + "\n%>"
    if variant == "top":
        return env + code + "${repr(out__)}"
    if variant == "if":
        return env + "% if True:\n" + code + "\n% endif\n${repr(out__)}"
    if variant == "def":
        return env + '<%def name="d_()">' + code + "${repr(out__)}</%def>${d_()}"
    if variant == "for-if":
        return env + "% for i_ in [1]:\n% if True:\n" + code + "\n% endif\n% endfor\n${repr(out__)}"
    if variant == "module":
        return env + "<%!\n" + body + "\n%><% out__ = canon_ns(dict(globals()), " + repr(names) + ") %>${repr(out__)}"
    raise AssertionError(variant)


def native_exec(src, names):
    global _ENV
    if _ENV is None:
        _ENV = _native_env()
    g = _native_env()
    g.update(NAMESPACE)
    tree = ast.parse(src)
    ret = ast.parse("return canon_ns(locals(), %r)" % (names,)).body[0]
    fn = ast.FunctionDef(name="block__", args=ast.arguments(posonlyargs=[], args=[], vararg=None, kwonlyargs=[],
                                                            kw_defaults=[], kwarg=None, defaults=[]),
                         body=tree.body + [ret], decorator_list=[], returns=None, type_comment=None, type_params=[])
    mod = ast.fix_missing_locations(ast.Module(body=[fn], type_ignores=[]))
    try:
        exec(compile(mod, "<native>", "exec"), g)
        return ("ok", repr(g["block__"]()))
    except RecursionError:
        raise
    except Exception as e:
        return ("exc", type(e).__name__)


def template_exec(text):
    from mako.template import Template
    try:
        try:
            with time_limit(10):
                return ("ok", Template(text).render(**NAMESPACE).strip("\n"))
        except Hang as e:
            e.case = text
            raise
    except RecursionError:
        raise
    except Exception as e:
        return ("exc", type(e).__name__)


def remargin_features(src):
    """lexical features of the (margin-0) block that the re-margining state machines are known to mishandle"""
    import tokenize
    feats = []
    try:
        toks = list(tokenize.generate_tokens(io.StringIO(src).readline))
    except (tokenize.TokenError, SyntaxError, IndentationError):
        return ["untokenizable"]
    for t in toks:
        if t.type == tokenize.STRING:
            s = t.string.lstrip("rbuRBUfF")
            triple = s[:3] in ('"""', "'''")
            phys = t.string.split("\n")
            if "\t" in phys[0]:
                feats.append("tab-in-literal")               # on a code line: expandtabs() of the unchanged code hits it
            if any("\t" in x for x in phys[1:]):
                feats.append("tab-on-string-continuation-line")   # inside multi-line state: must never be touched
            if not triple:
                if "#" in s:
                    feats.append("hash-in-ordinary-string")
                if "'''" in s or '"""' in s:
                    feats.append("triple-quote-chars-in-ordinary-string")
            else:
                q = s[:3]
                inner = s[3:-3]
                if "\\" + q[0] in inner:
                    feats.append("escaped-quote-in-triple-string")
                other = "'''" if q == '"""' else '"""'
                if other in inner:
                    feats.append("foreign-triple-quote-in-triple-string")
                if "#" in inner and "\n" not in inner:
                    feats.append("hash-in-one-line-triple-string")
                if q[0] in inner.replace("\\" + q[0], ""):
                    feats.append("own-quote-char-in-triple-string")
                if inner == "" or inner.startswith(q[0]):
                    feats.append("empty-or-quote-led-triple-string")
        elif t.type == tokenize.COMMENT:
            if t.string.endswith("\\"):
                feats.append("comment-ending-in-backslash")
            if "'''" in t.string or '"""' in t.string:
                feats.append("triple-quote-in-comment")
    order = ["tab-in-literal", "comment-ending-in-backslash", "triple-quote-in-comment", "hash-in-ordinary-string",
             "triple-quote-chars-in-ordinary-string", "escaped-quote-in-triple-string",
             "foreign-triple-quote-in-triple-string", "own-quote-char-in-triple-string",
             "empty-or-quote-led-triple-string", "hash-in-one-line-triple-string", "untokenizable",
             "tab-on-string-continuation-line"]
    return [f for f in order if f in feats]


def split_statements(lines):
    """group the tagged physical lines of an ExecGen block into top-level statements"""
    groups, cur = [], []
    for kind, text in lines:
        starts = kind == "code" and not text.startswith((" ", "\t")) and not text.startswith(("else", "elif", "except", "finally"))
        if starts and cur and any(k == "code" for k, _ in cur):
            groups.append(cur)
            cur = []
        cur.append((kind, text))
    if cur:
        groups.append(cur)
    return groups


def oracle_blocks(ctx, blocks):
    st = ctx.stream("oracle.block-values", "oracle")
    reported = {}
    for i, (lines, src, names) in enumerate(blocks):
        margin = ctx.rng.choice(MARGINS)
        variant = BLOCK_VARIANTS[i % len(BLOCK_VARIANTS)]
        if variant == "module" and "lambda z_" in src:
            variant = "top"                  # module-level code cannot read the template's namespace
        want = native_exec(src, names)
        if want[0] != "ok":
            ctx.branch("oracle.blocks:native-raises-" + want[1])
            continue
        st["cases"] += 1

        def run(ls, m=margin, v=variant, nm=names):
            return template_exec(block_template(v, with_margin(ls, m), m, nm))
        got = run(lines)
        ctx.branch("oracle.blocks:variant:" + variant)
        if any(k == "raw" for k, _ in lines):
            ctx.nontriv(("blk", src, margin, variant))
        if got == want:
            continue
        # shrink: statements, then margin, then variant
        groups = split_statements(lines)

        def fails_groups(gs, m=margin, v=variant):
            ls = [x for g in gs for x in g]
            s2 = block_is_valid(ls)
            if s2 is None:
                return False
            w = native_exec(s2, names)
            return w[0] == "ok" and template_exec(block_template(v, with_margin(ls, m), m, names)) != w
        small = ddmin(groups, fails_groups, 150)
        if not small:
            small = groups
        ls = [x for g in small for x in g]
        m2, v2 = margin, variant

        def fails_lines(cand_ls, m=None, v=None):
            sx = block_is_valid(cand_ls)
            if sx is None:
                return False
            w = native_exec(sx, names)
            return w[0] == "ok" and template_exec(block_template(v or v2, with_margin(cand_ls, m if m is not None else m2),
                                                                 m if m is not None else m2, names)) != w
        # drop content lines of multi-line literals that are not needed (never the line holding the closing quote)
        progress = True
        while progress:
            progress = False
            for i in range(len(ls) - 1):
                if ls[i][0] == "raw" and ls[i + 1][0] == "raw":
                    cand = ls[:i] + ls[i + 1:]
                    if fails_lines(cand, margin, variant):
                        ls, progress = cand, True
                        break
        small = [ls]
        for cand in ("    ", "  ", "\t"):
            if cand != m2 and fails_groups(small, cand, v2):
                m2 = cand
                break
        for cand in ("top", "if"):
            if cand != v2 and fails_groups(small, m2, cand):
                v2 = cand
                break
        s2 = block_is_valid(ls) or src
        feats = remargin_features(s2)
        if "tab-on-string-continuation-line" in feats:
            # is the damage done to a TAB on a continuation line of a string literal?  (the recorded finding
            # remargin-tab-in-literal only concerns TABs on code lines.)  Decide by experiment: without those TABs the
            # block must be fine.
            neutral = [(k, t.replace("\t", "T") if k == "raw" else t) for k, t in ls]
            if not fails_lines(neutral):
                feats = ["tab-on-string-continuation-line"]
        feature = feats[0] if feats else "unclassified"
        side = "lexer-or-printer" if v2 in ("top", "module") else "printer-indent"
        site = "remargin-" + feature
        if not feats and template_exec(block_template(v2, with_margin(ls, m2), m2, names)) == ("exc", "NameError"):
            site, feature = "block-namespace-read-raises-nameerror", "namespace-read"
        ctx.branch("oracle.blocks:VIOLATION:" + site + ":" + side)
        key = (site, side)
        if key in reported:
            continue
        reported[key] = True
        text = block_template(v2, with_margin(ls, m2), m2, names)
        ctx.violation(site, {"input": "\n".join(with_margin(ls, m2)), "feature": feature, "variant": v2, "margin": m2,
                             "names": names, "native_source": s2},
                      "template gives %r, native exec gives %r" % (template_exec(text), native_exec(s2, names)),
                      "oracle.block-values")


# form feed and the other characters Python's tokenizer treats as blanks in leading whitespace.  CPython: a line
# holding nothing but such characters is a blank line; a FF in the leading whitespace of a statement resets the
# column count.  A block written at a uniform margin may therefore carry a page-break line anywhere.
FORMFEED_BLOCKS = [
    # (name, tagged lines, names)          'raw' lines are written without the margin
    ("ff-line-before-first-statement", [("raw", "\x0c"), ("code", "a = 'ok'"), ("code", "b = a + '!'")], ["a", "b"]),
    ("ff-line-between-statements", [("code", "a = 'ok'"), ("raw", "\x0c"), ("code", "b = a + '!'")], ["a", "b"]),
    ("indented-ff-line-before-first-statement", [("code", "\x0c"), ("code", "a = 'ok'"), ("code", "b = a + '!'")], ["a", "b"]),
    ("indented-ff-line-between-statements", [("code", "a = 'ok'"), ("code", "\x0c"), ("code", "b = a + '!'")], ["a", "b"]),
    ("ff-line-in-suite", [("code", "if True:"), ("code", "    a = 'ok'"), ("raw", "\x0c"), ("code", "    b = a + '!'")], ["a", "b"]),
    ("ff-line-after-last-statement", [("code", "a = 'ok'"), ("code", "b = a + '!'"), ("raw", "\x0c")], ["a", "b"]),
]


def oracle_formfeed_blocks(ctx, _unused):
    """always-run witnesses (round 6): a form-feed (page-break) line in a block written at a uniform margin.  Expected
    value = what CPython gives for the margin-0 source (native_exec), as for every other block case."""
    st = ctx.stream("oracle.block-formfeed", "oracle")
    reported = {}
    for name, lines, names in FORMFEED_BLOCKS:
        src = block_is_valid(lines)
        assert src is not None, name
        want = native_exec(src, names)
        assert want[0] == "ok", (name, want)
        for margin in ("    ", "\t", ""):
            for variant in ("top", "def", "module", "if"):
                st["cases"] += 1
                ctx.nontriv(("ffblk", name, margin, variant))
                text = block_template(variant, with_margin(lines, margin), margin, names)
                got = template_exec(text)
                ctx.branch("oracle.block-formfeed:" + name + ":" + ("ok" if got == want else "differs"))
                if got == want:
                    continue
                site = "remargin-formfeed-line-before-first-statement" if name == "ff-line-before-first-statement" \
                    else "remargin-formfeed:" + name
                if site in reported:
                    continue
                reported[site] = True
                ctx.violation(site, {"input": "\n".join(with_margin(lines, margin)), "feature": name, "variant": variant,
                                     "margin": margin, "names": names, "native_source": src},
                              "template gives %r, native exec gives %r" % (got, want), "oracle.block-formfeed")


# =========================================================================== oracle (d): identifiers

def name_roles(tree, name):
    """how `name` occurs in the block: a list of role strings (binding and reading positions)"""
    roles = []
    comp_scopes, read_scopes = [], []       # scope paths () = block level, (id(def), id(lambda), …) below

    def visit(n, infunc, scope, inclass):
        if isinstance(n, (ast.FunctionDef, ast.Lambda)):
            a = n.args
            if a.vararg and a.vararg.arg == name:
                roles.append("param-vararg")
            if a.kwarg and a.kwarg.arg == name:
                roles.append("param-kwarg")
            if any(x.arg == name for x in a.kwonlyargs):
                roles.append("param-kwonly")
            if any(x.arg == name for x in a.posonlyargs):
                roles.append("param-posonly")
            if any(x.arg == name for x in a.args):
                roles.append("param-plain")
            for d in list(a.defaults) + [d for d in a.kw_defaults if d is not None]:
                if any(isinstance(x, ast.Name) and x.id == name and isinstance(x.ctx, ast.Load) for x in ast.walk(d)):
                    roles.append("read-in-parameter-default")
            for d in list(a.defaults) + [d for d in a.kw_defaults if d is not None] + list(getattr(n, "decorator_list", [])):
                if any(isinstance(x, ast.NamedExpr) and x.target.id == name for x in ast.walk(d)):
                    roles.append("walrus-in-unvisited-part")
            if isinstance(n, ast.FunctionDef):
                if n.name == name and infunc:
                    roles.append("stored-in-nested-function")
                for d in n.decorator_list:
                    if any(isinstance(x, ast.Name) and x.id == name for x in ast.walk(d)):
                        roles.append("read-in-decorator")
                for b in n.body:
                    visit(b, True, scope + (id(n),), False)
            else:
                visit(n.body, True, scope + (id(n),), False)
            return
        if isinstance(n, ast.ClassDef):
            if n.name == name and infunc:
                roles.append("stored-in-nested-function")
            for d in list(n.bases) + [k.value for k in n.keywords] + list(n.decorator_list):
                if any(isinstance(x, ast.Name) and x.id == name for x in ast.walk(d)):
                    roles.append("read-in-class-header")
                if any(isinstance(x, ast.NamedExpr) and x.target.id == name for x in ast.walk(d)):
                    roles.append("walrus-in-unvisited-part")
            for b in n.body:
                for x in ast.walk(b):
                    if isinstance(x, ast.Name) and x.id == name:
                        roles.append("occurs-in-class-body")
                        break
            return
        if isinstance(n, (ast.ListComp, ast.SetComp, ast.GeneratorExp, ast.DictComp)):
            own = any(isinstance(x, ast.Name) and x.id == name for g in n.generators for x in ast.walk(g.target))
            if own:
                comp_scopes.append(scope)
            if infunc and not own:
                parts = ([n.key, n.value] if isinstance(n, ast.DictComp) else [n.elt]) + [c for g in n.generators for c in g.ifs]
                for prt in parts:
                    if any(isinstance(x, ast.Name) and x.id == name and isinstance(x.ctx, ast.Load) for x in ast.walk(prt)):
                        roles.append("read-in-comprehension-inside-function")
        if infunc and isinstance(n, ast.ExceptHandler) and n.name == name:
            roles.append("stored-in-nested-function")
        if infunc and isinstance(n, (ast.Import, ast.ImportFrom)) and any((a.asname or a.name.split(".")[0]) == name for a in n.names):
            roles.append("stored-in-nested-function")
        if isinstance(n, ast.Name) and n.id == name:
            if isinstance(n.ctx, ast.Del):
                roles.append("del-target")
            elif isinstance(n.ctx, ast.Store):
                roles.append("stored-in-nested-function" if infunc else "stored-at-block-level")
            else:
                roles.append("read-in-nested-function" if infunc else "read-at-block-level")
                read_scopes.append(scope)
        if isinstance(n, (ast.ListComp, ast.SetComp, ast.GeneratorExp, ast.DictComp)) and any(
                isinstance(x, ast.Name) and x.id == name for g in n.generators for x in ast.walk(g.target)):
            # inside this comprehension the name is the comprehension's own variable: only the first iterable is
            # evaluated outside it
            visit(n.generators[0].iter, infunc, scope, inclass)
            return
        for c in ast.iter_child_nodes(n):
            visit(c, infunc, scope, inclass)
    visit(tree, False, (), False)
    # F12b: a comprehension at block level makes its variable a name "declared" by the block
    if any(sc == () for sc in comp_scopes):
        roles.append("comprehension-target")
    # F12e: a comprehension directly in a function makes its variable a local of THAT function: only reads in that
    # function (or in functions nested in it) are affected.  A comprehension inside a lambda/def must not affect the
    # enclosing scope - such a case gets no role and is reported as new.
    if any(sc != () and any(r[:len(sc)] == sc for r in read_scopes) for sc in comp_scopes):
        roles.append("comprehension-target-in-function")
    return roles


ROLE_PRIORITY = {
    # (the parameter roles come last: since a807210 parameters are handled, so when another explanation applies to the
    # same name it is the cause; a regression of the parameter handling still shows on names that are parameters only)
    "extra": ["del-target", "walrus-in-unvisited-part", "stored-in-nested-function",
              "param-vararg", "param-kwonly", "param-kwarg", "param-posonly"],
    "missing": ["read-in-parameter-default", "read-in-decorator", "read-in-class-header", "occurs-in-class-body",
                "read-in-comprehension-inside-function", "comprehension-target-in-function", "comprehension-target"],
    "declared-extra": ["comprehension-target"],
    "declared-missing": ["del-target", "walrus-in-unvisited-part"],
}
IDENT_SITE = {
    "extra": "identifiers-demands-bound-name",            # precision: strict_undefined raises spuriously
    "missing": "identifiers-misses-free-name",            # soundness: NameError at run time
    "declared-extra": "identifiers-declares-unbound-name",
    "declared-missing": "identifiers-omits-bound-name",
}


def ident_problems(src, tree, reserved):
    impl = impl_identifiers(src)
    if impl[0] == "exc":
        return None
    declared, undeclared = impl
    fetch = undeclared - declared
    free, bound = symtable_truth(tree)
    out = []
    for kind, names in (("extra", fetch - free), ("missing", (free - reserved) - fetch),
                        ("declared-extra", declared - bound), ("declared-missing", bound - declared)):
        for nm in sorted(names):
            roles = name_roles(tree, nm)
            role = next((r for r in ROLE_PRIORITY[kind] if r in roles), "unclassified")
            out.append((kind, role, nm))
    return out


def shrink_block(tree, pred, budget=200):
    """remove statements (at any depth) / hoist bodies while `pred(tree)` stays true"""
    import copy
    tests = [0]

    def ok(t):
        tests[0] += 1
        try:
            ast.fix_missing_locations(t)
            compile(t, "<s>", "exec")
            return pred(t)
        except Exception:
            return False
    changed = True
    while changed and tests[0] < budget:
        changed = False
        bodies = []
        for n in ast.walk(tree):
            for fld in ("body", "orelse", "finalbody"):
                b = getattr(n, fld, None)
                if isinstance(b, list) and b and isinstance(b[0], ast.stmt):
                    bodies.append((n, fld))
        for n, fld in bodies:
            b = getattr(n, fld)
            for i in range(len(b)):
                if tests[0] >= budget:
                    break
                saved = list(b)
                # 1. drop the statement
                cand = saved[:i] + saved[i + 1:]
                if not cand and fld == "body":
                    cand = [ast.Pass()]
                setattr(n, fld, cand)
                if (len(saved) > 1 or fld != "body") and ok(copy.deepcopy(tree)):
                    changed = True
                    break
                # 2. replace a compound statement by its body
                inner = getattr(saved[i], "body", None)
                if isinstance(inner, list) and inner and isinstance(inner[0], ast.stmt) and not isinstance(saved[i], (ast.FunctionDef, ast.ClassDef)):
                    setattr(n, fld, saved[:i] + inner + saved[i + 1:])
                    if ok(copy.deepcopy(tree)):
                        changed = True
                        break
                setattr(n, fld, saved)
            if changed:
                break
    return tree


def oracle_identifiers(ctx, blocks):
    st = ctx.stream("oracle.identifiers-vs-symtable", "oracle")
    reserved = py_reserved()
    reported = {}
    for src, tree in blocks:
        if uses_global_decl(tree):
            continue
        st["cases"] += 1
        probs = ident_problems(src, tree, reserved)
        if probs is None:
            continue
        if not probs:
            ctx.branch("oracle.ident:exact")
        for kind, role, nm in probs:
            ctx.branch("oracle.ident:%s:%s" % (kind, role))
            key = (kind, role)
            if key in reported:
                continue
            reported[key] = True
            import copy

            def pred(t, kind=kind, role=role):
                s2 = ast.unparse(t)
                p2 = ident_problems(s2, ast.parse(s2), reserved)
                return bool(p2) and any(k == kind and r == role for k, r, _ in p2)
            small = shrink_block(copy.deepcopy(tree), pred)
            s2 = ast.unparse(small)
            p2 = [p for p in ident_problems(s2, ast.parse(s2), reserved) if p[0] == kind and p[1] == role]
            nm2 = p2[0][2] if p2 else nm
            impl = impl_identifiers(s2)
            free, bound = symtable_truth(ast.parse(s2))
            ctx.violation(IDENT_SITE[kind], {"input": s2, "role": role, "name": nm2, "kind": kind},
                          "mako: declared=%s undeclared=%s; CPython symtable: free=%s bound=%s" %
                          (sorted(impl[0]), sorted(impl[1]), sorted(free), sorted(bound)), "oracle.identifiers-vs-symtable")


class _Dummy:
    """a value that survives most operations (falsy: loops and conditions end at once)"""

    def __call__(self, *a, **k): return self
    def __getattr__(self, n): return self
    def __getitem__(self, k): return self
    def __setitem__(self, k, v): pass
    def __delitem__(self, k): pass
    def __iter__(self): return iter(())
    def __bool__(self): return False
    def __enter__(self): return self
    def __exit__(self, *a): return False
    def __hash__(self): return 1
    def __eq__(self, o): return False
    def __contains__(self, o): return False
    def __index__(self): return 0
    def __format__(self, spec): return "D"
    def __repr__(self): return "D"
    def __mro_entries__(self, bases): return ()


for _op in ("add", "sub", "mul", "truediv", "floordiv", "mod", "pow", "matmul", "lshift", "rshift", "or", "and", "xor"):
    setattr(_Dummy, "__%s__" % _op, lambda self, o, *a: self)
    setattr(_Dummy, "__r%s__" % _op, lambda self, o, *a: self)
for _op in ("neg", "pos", "invert"):
    setattr(_Dummy, "__%s__" % _op, lambda self: self)
for _op in ("lt", "le", "gt", "ge"):
    setattr(_Dummy, "__%s__" % _op, lambda self, o: False)


def oracle_strict_undefined(ctx, blocks):
    """render the block under strict_undefined=True with a context holding exactly its free names: mako's own
    NameError("'x' is not defined") for an x the code binds itself is a violation; so is Python's
    NameError("name 'x' is not defined") for an x that was supplied"""
    import signal
    from mako.template import Template
    st = ctx.stream("oracle.strict-undefined", "oracle")
    reserved = py_reserved()
    reported = {}

    class _Timeout(Exception):
        pass

    def on_alarm(sig, frm):
        raise _Timeout()
    old = signal.signal(signal.SIGALRM, on_alarm)
    try:
        for src, tree in blocks:
            if uses_global_decl(tree) or "%>" in src or "import" in src:
                continue
            free, bound = symtable_truth(tree)
            supplied = {n: _Dummy() for n in free if not hasattr(builtins, n)}
            text = "<%\n" + src + "%>"
            st["cases"] += 1
            signal.setitimer(signal.ITIMER_REAL, 2.0)
            try:
                Template(text, strict_undefined=True).render(**supplied)
                ctx.branch("oracle.strict:completed")
            except _Timeout:
                ctx.branch("oracle.strict:timeout")
            except NameError as e:
                msg = str(e)
                m1 = re.match(r"^'(\w+)' is not defined$", msg)
                m2 = re.match(r"^name '(\w+)' is not defined$", msg)
                m3 = re.search(r"local variable '(\w+)'", msg)
                if m1 and m1.group(1) not in free:
                    nm, kind = m1.group(1), "extra"
                elif m2 and m2.group(1) in supplied:
                    nm, kind = m2.group(1), "missing"
                else:
                    ctx.branch("oracle.strict:other-nameerror" if not m3 else "oracle.strict:unboundlocal")
                    continue
                roles = name_roles(tree, nm)
                role = next((r for r in ROLE_PRIORITY[kind] if r in roles), "unclassified")
                ctx.branch("oracle.strict:VIOLATION:%s:%s" % (kind, role))
                if (kind, role) in reported:
                    continue
                reported[(kind, role)] = True
                ctx.violation(IDENT_SITE[kind], {"input": src if len(src) < 600 else src[:600] + "…", "role": role, "name": nm,
                                                 "kind": kind, "via": "strict_undefined render"},
                              "render(strict_undefined=True) with the free names %s supplied raised NameError: %s" % (sorted(supplied), msg),
                              "oracle.strict-undefined")
            except RecursionError:
                ctx.branch("oracle.strict:recursion")
            except Exception as e:
                ctx.branch("oracle.strict:other-exception")
            finally:
                signal.setitimer(signal.ITIMER_REAL, 0)
    finally:
        signal.signal(signal.SIGALRM, old)



# =========================================================================== corpus of witnesses (run first)

CORPUS_EXPRS = [
    "(a if b else c) + 1", "(lambda x: x)(1)", "f(**k)", "a ** b", "a @ b", "{**a}", "a[1:2, 3]", "lambda *, k: k",
    "lambda a, /, b: a", "f'{a}'", "(x := 1)", "await a", "(yield)", "(yield a)", "(yield from a)", "1 .real", "1e999",
    "[x async for x in y]", "-(a if b else c)", "not (lambda: a)", "(a, b)[0]", "a[::None]", "a if b else (c if d else e)",
    "(a if b else c) if d else e", "[x for x in (a if b else c)]", "[x for x in y if (a if b else c)]", "f(*a, *b, k=1)",
    "a < b < c", "(a < b) < c", "a and (b and c)", "-(-a)", "(-a) ** b", "a ** -b", "(a, *b, c)", "{a: b, c: d}", "()", "(a,)",
    "a.b.c(d)[e]", "lambda x, y=1, *z, **w: (x, y, z, w)", "lambda: (yield)", "(-a).real", "(~a)[b]", "(+a)(b)",
    "(not a).real", "lambda p, /, q=1, *r, k, kk=2, **kw: p", "{**a, b: c}", "f(*a, **k)",
]
CORPUS_BLOCKS = [
    "def f(a, *b, c=1, **d):\n    return a, b, c, d\n", "g = lambda *a, k=1, **kw: (a, k, kw)\n", "y = [x for x in z]\nw = x\n",
    "def f(a=b):\n    return a\n", "@deco\ndef f():\n    pass\n", "class A(B):\n    x = y\n",
    "def f():\n    return [g(i) for i in y if h(i)]\n", "def f():\n    print(i)\n    i = 2\n", "del x\n", "x += 1\n",
    "import os.path\nfrom a import b as c\n", "try:\n    pass\nexcept E as e:\n    print(e)\n", "with a as b, c as (d, e):\n    pass\n",
    "for i, (j, k) in z:\n    pass\nelse:\n    q = i\n",
    "def f():\n    def g():\n        return 1\n    x = g()\n    return x\ny = x\n",
    "def f(p, /, a, *b, c=1, **d):\n    return lambda *q, r, **s: (p, a, b, c, d, q, r, s)\n",
    "f = lambda z: [row for row in z]\ny = row\n",
    "def g(p):\n    f = lambda z: {item: 1 for item in z}\n    return f(p), item\nv = g(c)\n",
    "f = lambda z: lambda w: list(cell for cell in w)\nif a:\n    y = cell.upper\n", "def f(a, /, b):\n    return a + b\n", "x = (y := z) + y\n",
]


def parse_all(srcs, mode):
    out = []
    for s in srcs:
        try:
            t = ast.parse(s, mode=mode)
            out.append((s, t.body if mode == "eval" else t))
        except SyntaxError:
            pass
    return out


# =========================================================================== run / replay

def run(ctx):
    import warnings
    warnings.simplefilter("ignore", SyntaxWarning)
    q = ctx.quick
    n_expr = 3000 if q else 40000
    n_blocks = 1200 if q else 15000
    n_exec = 1000 if q else 12000
    exprs = parse_all(CORPUS_EXPRS, "eval") + gen_exprs(ctx, n_expr)
    blocks = parse_all(CORPUS_BLOCKS, "exec") + gen_blocks(ctx, n_blocks)
    execs = gen_exec_blocks(ctx, n_exec) + gen_exec_blocks(ctx, n_exec // 10, tabs_in_strings=True)
    ctx.log("generated %d expressions, %d statement blocks, %d executable blocks" % (len(exprs), len(blocks), len(execs)))
    ctx.sample({"expression": exprs[len(CORPUS_EXPRS) + 1][0]})
    ctx.sample({"block": blocks[len(CORPUS_BLOCKS) + 1][0]})
    ctx.sample({"executable block at margin 4": "\n".join(with_margin(execs[0][0], "    "))})
    def stream(name, fn, *a):
        ctx.log(name)
        try:
            fn(ctx, *a)
        except Hang as e:
            # the implementation looped on some input of this stream: that is a finding, and the stream ends here
            ctx.violation("does-not-terminate", {"input": getattr(e, "case", None), "stream": name},
                          "a call into mako did not return: %s" % e, name)
    try:
        stream("corr.precedence-table", corr_table)
        stream("corr.print", corr_print, exprs)
        stream("corr.guards", corr_guards, exprs)
        stream("corr.identifiers", corr_ident, blocks)
        stream("corr.whitespace", corr_whitespace, execs)
        stream("corr.flags", corr_flags, execs)
    finally:
        stream("oracle.reemit", oracle_reemit, exprs[: (1200 if q else 8000)])
        stream("oracle.template-values", oracle_template_values, 150 if q else 1500)
        stream("oracle.signatures", oracle_signatures, 250 if q else 4000)
        stream("oracle.def-attributes", oracle_def_attributes, 60 if q else 800)
        stream("oracle.blocks", oracle_blocks, execs[: (200 if q else 2000)] + execs[n_exec: n_exec + (30 if q else 300)])
        stream("oracle.block-formfeed", oracle_formfeed_blocks, None)
        stream("oracle.identifiers", oracle_identifiers, blocks[: (800 if q else 6000)])
        stream("oracle.strict", oracle_strict_undefined,
               parse_all(CORPUS_BLOCKS, "exec") + gen_blocks(ctx, 150 if q else 1000, expr_depth=2))


def replay(ctx, data):
    """re-run the recorded case on the implementation (and show the model's answer); True iff the property holds"""
    import warnings
    warnings.simplefilter("ignore", SyntaxWarning)
    case = data.get("case")
    site = data.get("site", "")
    if case is None:
        fd = (data.get("first_disagreements") or [{}])[0]
        print("no failing input was found; first disagreement:", fd)
        print("no longer checks:", data.get("no_longer_checks"))
        return False
    print("replaying site=%s case=%r" % (site, case))
    inp = case.get("input") if isinstance(case, dict) else case
    if site.endswith("does-not-terminate"):
        from mako import pygen
        from mako.template import Template
        try:
            with time_limit(10):
                if site.startswith("remargin"):
                    print("adjust_whitespace ->", repr(pygen.adjust_whitespace(inp)))
                else:
                    print("render ->", repr(Template(inp).render()))
            return True
        except Hang as e:
            print("did not return:", e)
            return False
        except Exception as e:
            print("raised", type(e).__name__, e)
            return True
    if site.startswith("remargin") or site.startswith("block-"):
        text = block_template(case["variant"], inp.split("\n"), case["margin"], case["names"])
        got, want = template_exec(text), native_exec(case["native_source"], case["names"])
        print("template:", got, "\nnative  :", want)
        return got == want
    if site.startswith("identifiers"):
        tree = ast.parse(inp)
        probs = ident_problems(inp, tree, py_reserved())
        print("mako:", impl_identifiers(inp), "\nsymtable (free, bound):", symtable_truth(tree), "\nproblems:", probs)
        try:
            print("model:", ctx.driver().ask("py ident " + wire_block(tree.body)))
        except Exception as e:
            print("model: n/a", e)
        return not probs
    if site in ("construct-demands-own-parameter", "def-attribute-value-differs"):
        _register_mem_cache()
        ck = [tuple(kv) for kv in case["call_kw"]]
        got = attr_template(case["attribute"], case["params"], case["call_pos"], ck, case["param"], case["strict_undefined"])
        want = attr_native(case["params"], case["call_pos"], ck, case["param"])
        print("template:", got, LAST_TEMPLATE_ERROR[0] if got[0] == "exc" else "", "\nnative  :", want)
        return got == want
    if site == "construct-attribute-witness":
        from mako.template import Template
        w = next(x for x in ATTR_WITNESSES if x[0] == case["witness"])
        try:
            got = Template(w[1] % ("\n" + ENV_SRC + "\n"), strict_undefined=case["strict_undefined"]).render(**w[2]).strip()
        except Exception as e:
            got = "raises %s: %s" % (type(e).__name__, e)
        print("renders:", repr(got), " expected:", repr(w[3]))
        return got == w[3]
    if site == "signature-binds-different-values":
        ck = [tuple(kv) for kv in case["call_kw"]]
        got, want = sig_template(case["slot"], case["params"], case["call_pos"], ck), sig_native(case["params"], case["call_pos"], ck)
        print("template:", got, "\nnative  :", want)
        return got == want
    if isinstance(case, dict) and case.get("parent") == "filter-callee":
        from mako.template import Template
        try:
            out = Template("<%%! %s %%>${'x' | %s}" % ("\n" + ENV_SRC + "\n", inp)).render()
        except Exception as e:
            out = "raises " + type(e).__name__
        want = native_eval("%s('x')" % inp)
        print("template:", repr(out), " native:", want)
        return want[0] == "ok" and repr(canon_text(out)) == want[1]
    node = ast.parse(inp, mode="eval").body
    try:
        o = ctx.driver().ask("py print " + wire_expr(node))
        print("model print:", o if o in ("none", "bad-args") else dec(o))
    except Exception as e:
        print("model: n/a", e)
    print("impl  print:", impl_print(node))
    if isinstance(case, dict) and "slot" in case and case["slot"] in TEMPLATE_SLOTS:
        got, want = template_eval(case["slot"], inp), native_eval(inp)
        print("template:", got, "\nnative  :", want)
        return got == want
    ok, detail = reemit_ok(node)
    print("re-emission:", ok, detail)
    return ok


def canon_text(s):
    return s




# =========================================================================== oracle: signatures of defs in real templates

class SigGen:
    """def signatures with every parameter kind and defaults in every legal position, plus a call"""

    def __init__(self, rng):
        self.rng = rng

    def gen(self):
        r = self.rng
        params = []
        npos = r.choice([0, 1, 1, 2, 3])
        ndef = r.randint(0, npos)
        vals = iter(["11", "'dB'", "(3 if 1 else 4)", "2 ** 3", "[5]", "66", "'dG'", "-8", "(lambda: 9)()", "1.5"])
        nposonly = r.randint(1, npos) if npos and r.random() < 0.12 else 0
        for i in range(npos):
            params.append({"name": "p%d" % i, "kind": "posonly" if i < nposonly else "pos",
                           "default": next(vals) if i >= npos - ndef else None})
            if nposonly and i == nposonly - 1:
                params.append({"name": "", "kind": "slash", "default": None})
        star = r.random() < 0.6
        nkw = r.choice([0, 1, 2, 2, 3, 4])
        if star:
            params.append({"name": "r", "kind": "star", "default": None})
        elif nkw:
            params.append({"name": "", "kind": "bare", "default": None})
        for n in "abcd"[:nkw]:
            params.append({"name": n, "kind": "kw", "default": next(vals) if r.random() < 0.5 else None})
        if r.random() < 0.3:
            params.append({"name": "kw", "kind": "dstar", "default": None})
        # the call: some positional values, a subset of the keyword-only names (biased towards the required ones)
        call_pos = ["%d" % (100 + i) for i in range(r.randint(0, npos + (2 if star else 0)))]
        call_kw = []
        for p in params:
            if p["kind"] == "kw" and r.random() < (0.85 if p["default"] is None else 0.4):
                call_kw.append((p["name"], "'K%s'" % p["name"]))
        if any(p["kind"] == "dstar" for p in params) and r.random() < 0.5:
            call_kw.append(("extra", "'X'"))
        if nposonly and r.random() < 0.25:
            # a positional-only parameter's NAME used as a keyword: Python refuses it, or hands it to **kw
            call_kw.append(("p0", "'P'"))
        return params, call_pos, call_kw


def sig_text(params):
    out = []
    for p in params:
        if p["kind"] == "star":
            out.append("*" + p["name"])
        elif p["kind"] == "bare":
            out.append("*")
        elif p["kind"] == "slash":
            out.append("/")
        elif p["kind"] == "dstar":
            out.append("**" + p["name"])
        else:
            out.append(p["name"] + ("=" + p["default"] if p["default"] is not None else ""))
    return ", ".join(out)


def call_text(call_pos, call_kw):
    return ", ".join(list(call_pos) + ["%s=%s" % kv for kv in call_kw])


def sig_names(params):
    return [p["name"] for p in params if p["kind"] not in ("bare", "slash")]


SIG_SLOTS = {
    "def": '<%%def name="zz(%(sig)s)">${repr((%(names)s,))}</%%def>${zz(%(call)s)}',
    "nested-def": '<%%def name="outer()"><%%def name="zz(%(sig)s)">${repr((%(names)s,))}</%%def>${zz(%(call)s)}</%%def>${outer()}',
    "def-called-twice": '<%%def name="zz(%(sig)s)">${repr((%(names)s,))}</%%def>${zz(%(call)s)}|${zz(%(call)s)}',
}


def sig_template(slot, params, call_pos, call_kw):
    from mako.template import Template
    d = {"sig": sig_text(params), "names": ", ".join(sig_names(params)), "call": call_text(call_pos, call_kw)}
    text = SIG_SLOTS[slot] % d
    if '"' in d["sig"]:
        return ("skip", "")
    try:
        with time_limit(10):
            out = Template(text).render().strip()
        return ("ok", out.split("|")[0])
    except Hang:
        raise
    except RecursionError:
        raise
    except Exception as e:
        return ("exc", type(e).__name__)


def sig_native(params, call_pos, call_kw):
    g = {}
    try:
        exec("def zz(%s):\n    return repr((%s,))" % (sig_text(params), ", ".join(sig_names(params))), g)
        return ("ok", eval("zz(%s)" % call_text(call_pos, call_kw), g))
    except RecursionError:
        raise
    except Exception as e:
        return ("exc", type(e).__name__)


def oracle_signatures(ctx, n):
    """defs whose signature mako parses (FunctionDecl) and re-emits (get_argument_expressions) for the render function
    and its stub: the values bound to every parameter - and TypeError for a bad call - as for the same signature on a
    native function"""
    st = ctx.stream("oracle.signatures", "oracle")
    g = SigGen(ctx.rng)
    slots = list(SIG_SLOTS)
    reported = {}
    fixed = [
        ([{"name": "r", "kind": "star", "default": None}, {"name": "a", "kind": "kw", "default": "1"},
          {"name": "b", "kind": "kw", "default": None}], [], [("b", "5")]),
        ([{"name": "r", "kind": "star", "default": None}, {"name": "a", "kind": "kw", "default": "1"},
          {"name": "b", "kind": "kw", "default": "2"}, {"name": "c", "kind": "kw", "default": None},
          {"name": "d", "kind": "kw", "default": "4"}], ["7"], [("c", "3")]),
        ([{"name": "p0", "kind": "pos", "default": None}, {"name": "p1", "kind": "pos", "default": "'x'"},
          {"name": "", "kind": "bare", "default": None}, {"name": "a", "kind": "kw", "default": None},
          {"name": "b", "kind": "kw", "default": "9"}], ["1"], [("a", "2")]),
        # positional-only: bound like ordinary positional parameters ...
        ([{"name": "p0", "kind": "posonly", "default": None}, {"name": "", "kind": "slash", "default": None},
          {"name": "p1", "kind": "pos", "default": None}], ["1", "2"], []),
        ([{"name": "p0", "kind": "posonly", "default": "11"}, {"name": "", "kind": "slash", "default": None}], [], []),
        # ... and their names used as keywords (Python: the name goes to **kw, or the call is refused)
        ([{"name": "p0", "kind": "posonly", "default": None}, {"name": "", "kind": "slash", "default": None},
          {"name": "kw", "kind": "dstar", "default": None}], ["1"], [("p0", "'P'")]),
        ([{"name": "p0", "kind": "posonly", "default": None}, {"name": "", "kind": "slash", "default": None}], [],
         [("p0", "'P'")]),
    ]
    cases = fixed + [g.gen() for _ in range(n)]
    for i, (params, cp, ck) in enumerate(cases):
        slot = slots[i % len(slots)]
        want = sig_native(params, cp, ck)
        if want == ("exc", "SyntaxError"):
            ctx.branch("gen:signature-invalid")
            continue
        got = sig_template(slot, params, cp, ck)
        if got[0] == "skip":
            continue
        st["cases"] += 1
        ctx.branch("oracle.signatures:native:" + (want[0] if want[0] == "ok" else want[1]))
        if any(p["kind"] == "kw" for p in params):
            ctx.nontriv(("sig", sig_text(params), call_text(cp, ck)))
        if got == want:
            continue

        def fails(ps, cp2, ck2, slot=slot):
            w = sig_native(ps, cp2, ck2)
            if w[0] == "exc" and w[1] == "SyntaxError":
                return False
            g2 = sig_template(slot, ps, cp2, ck2)
            return g2[0] != "skip" and g2 != w
        changed = True
        while changed:
            changed = False
            for j, p in enumerate(params):
                ps = params[:j] + params[j + 1:]
                if p["kind"] in ("star", "bare") and any(q["kind"] == "kw" for q in ps):
                    continue
                if p["kind"] == "slash" and any(q["kind"] == "posonly" for q in ps):
                    continue
                if p["kind"] == "posonly" and not any(q["kind"] == "posonly" for q in ps):
                    ps = [q for q in ps if q["kind"] != "slash"]
                ck2 = [kv for kv in ck if kv[0] != p["name"]]
                npos_ = len([q for q in params if q["kind"] in ("pos", "posonly")])
                cp2 = cp[: max(0, len(cp) - 1)] if p["kind"] in ("pos", "posonly") and len(cp) >= npos_ else cp
                if fails(ps, cp2, ck2):
                    params, cp, ck, changed = ps, cp2, ck2, True
                    break
            if not changed and cp and fails(params, cp[:-1], ck):
                cp, changed = cp[:-1], True
            if not changed:
                for j in range(len(ck)):
                    if fails(params, cp, ck[:j] + ck[j + 1:]):
                        ck, changed = ck[:j] + ck[j + 1:], True
                        break
        kinds = sorted({p["kind"] for p in params})
        by_kw = any(k in [p["name"] for p in params if p["kind"] == "posonly"] for k, _ in ck)
        key = tuple(kinds) + (by_kw,)
        ctx.branch("oracle.signatures:VIOLATION:" + "+".join(kinds))
        if key in reported:
            continue
        reported[key] = True
        ctx.violation("signature-binds-different-values",
                      {"input": "def zz(%s) called as zz(%s)" % (sig_text(params), call_text(cp, ck)), "slot": slot,
                       "params": params, "call_pos": cp, "call_kw": [list(kv) for kv in ck], "kinds": "+".join(kinds),
                       "bare_star": "bare" in kinds, "posonly": "posonly" in kinds, "posonly_by_keyword": by_kw},
                      "template gives %r, the native function gives %r" % (sig_template(slot, params, cp, ck), sig_native(params, cp, ck)),
                      "oracle.signatures")


# =========================================================================== oracle: a construct's own parameters in its attributes

def _register_mem_cache():
    from mako import cache

    class C19MemCache(cache.CacheImpl):
        keys = []

        def get_or_create(self, key, creation_function, **kw):
            C19MemCache.keys.append(key)
            return creation_function()

        def set(self, key, value, **kw):
            pass

        def get(self, key, **kw):
            return None

        def invalidate(self, key, **kw):
            pass
    globals()["C19MemCache"] = C19MemCache
    try:
        cache.register_plugin("c19mem", __name__, "C19MemCache")
    except Exception:
        pass
    return C19MemCache


ATTR_SLOTS = {
    "def-filter": '<%%def name="zz(%(sig)s)" filter="flt(%(p)s)">body</%%def>${zz(%(call)s)}',
    "nested-def-filter": '<%%def name="outer()"><%%def name="zz(%(sig)s)" filter="flt(%(p)s)">body</%%def>${zz(%(call)s)}</%%def>${outer()}',
    "def-buffered-filter": '<%%def name="zz(%(sig)s)" buffered="True" filter="flt(%(p)s)">body</%%def>${zz(%(call)s)}',
    "def-cache-key": '<%%def name="zz(%(sig)s)" cached="True" cache_key="${repr(canon(%(p)s))}" cache_impl="c19mem">${repr(canon(%(p)s))}</%%def>${zz(%(call)s)}',
}
# fixed witnesses for the <%block> and <%page> analogues and for filter functions supplied through the context:
# (name, template, render kwargs, expected output)
ATTR_WITNESSES = [
    ("block-filter-reads-its-arg", '<%%! %s %%><%%page args="w=1"/><%%block name="bb" args="w" filter="flt(w)">b</%%block>', {"w": 9}, "'9'"),
    ("block-filter-reads-kwonly-arg", '<%%! %s %%><%%page args="w=1"/><%%block name="bb" args="*, w" filter="flt(w)">b</%%block>', {"w": 9}, "'9'"),
    ("page-expression-filter-reads-kwonly-arg", '<%%! %s %%><%%page args="x=1, *r, y=2" expression_filter="flt(y)"/>${x}', {}, "'2'"),
    ("def-filter-function-from-context", '<%%! %s %%><%%def name="zz(t, *, w=3)" filter="cf(w)">b</%%def>${zz(1)}', {"cf": lambda v: (lambda t: "cf%r" % (v,))}, "cf3"),
    ("block-filter-function-from-context", '<%%! %s %%><%%block name="bb" filter="cf(4)">b</%%block>', {"cf": lambda v: (lambda t: "cf%r" % (v,))}, "cf4"),
    ("expression-filter-function-from-context", '<%%! %s %%>${"b" | cf(5)}', {"cf": lambda v: (lambda t: "cf%r" % (v,))}, "cf5"),
    ("page-expression-filter-function-from-context", '<%%! %s %%><%%page expression_filter="cf(6)"/>${"b"}', {"cf": lambda v: (lambda t: "cf%r" % (v,))}, "cf6"),
]


def attr_template(slot, params, call_pos, call_kw, pname, strict):
    from mako.template import Template
    d = {"sig": sig_text(params), "p": pname, "call": call_text(call_pos, call_kw)}
    if '"' in d["sig"]:
        return ("skip", "")
    text = "<%!\n" + ENV_SRC + "\n%>" + ATTR_SLOTS[slot] % d
    try:
        with time_limit(10):
            return ("ok", Template(text, strict_undefined=strict).render().strip())
    except Hang:
        raise
    except RecursionError:
        raise
    except Exception as e:
        LAST_TEMPLATE_ERROR[0] = "%s: %s" % (type(e).__name__, e)
        return ("exc", type(e).__name__)


def attr_native(params, call_pos, call_kw, pname):
    g = _native_env()
    try:
        exec("def zz(%s):\n    return repr(canon(%s))" % (sig_text(params), pname), g)
        return ("ok", eval("zz(%s)" % call_text(call_pos, call_kw), g))
    except RecursionError:
        raise
    except Exception as e:
        return ("exc", type(e).__name__)


def oracle_def_attributes(ctx, n):
    """every parameter kind of a <%def>, read in the def's OWN attribute expressions (filter= call arguments, cache_key,
    with buffered=) - top-level and nested, strict_undefined on and off: the value seen there is the argument's value as
    for a native function, and no parameter is demanded from the context (NameError under strict_undefined); fixed
    witnesses for the <%block> / <%page> analogues and for filter functions that come from the context"""
    from mako.template import Template
    st = ctx.stream("oracle.def-attributes", "oracle")
    mem = _register_mem_cache()
    g = SigGen(ctx.rng)
    slots = list(ATTR_SLOTS)
    reported = {}
    i = 0
    for _ in range(n):
        params, cp, ck = g.gen()
        named = [p for p in params if p["kind"] not in ("bare", "slash")]
        if not named or sig_native(params, cp, ck)[0] != "ok":
            continue
        if sig_template("def", params, cp, ck) != sig_native(params, cp, ck):
            ctx.branch("oracle.def-attributes:skipped:signature-itself-differs")     # oracle.signatures reports those
            continue
        for p in named:
            slot = slots[i % len(slots)]
            i += 1
            want = attr_native(params, cp, ck, p["name"])
            for strict in (False, True):
                st["cases"] += 1
                got = attr_template(slot, params, cp, ck, p["name"], strict)
                if got[0] == "skip":
                    continue
                ctx.branch("oracle.def-attributes:%s:%s" % (slot, p["kind"]))
                if strict:
                    ctx.nontriv(("attr", slot, sig_text(params), p["name"]))
                if got == want:
                    continue
                msg = LAST_TEMPLATE_ERROR[0] if got[0] == "exc" else ""
                m = re.match(r"^NameError: '(\w+)' is not defined$", msg)
                if m and m.group(1) in [q["name"] for q in named]:
                    site = "construct-demands-own-parameter"
                    kind = next(q["kind"] for q in named if q["name"] == m.group(1))
                else:
                    site, kind = "def-attribute-value-differs", p["kind"]
                key = (site, kind, slot.split("-")[-1])
                ctx.branch("oracle.def-attributes:VIOLATION:%s:%s" % (site, kind))
                if key in reported:
                    continue
                reported[key] = True
                ctx.violation(site, {"input": "<%%def name=\"zz(%s)\"> reading %s in %s, called as zz(%s)" % (
                                         sig_text(params), p["name"], slot, call_text(cp, ck)),
                                     "param_kind": kind, "attribute": slot, "strict_undefined": strict, "params": params,
                                     "signature_beyond_plain": any(q["kind"] in ("star", "kw", "dstar", "bare") for q in params),
                                     "call_pos": cp, "call_kw": [list(kv) for kv in ck], "param": p["name"]},
                              "template gives %r (%s), the native function gives %r" % (got, msg, want), "oracle.def-attributes")
    for name, tmpl, kw, want in ATTR_WITNESSES:
        for strict in (False, True):
            st["cases"] += 1
            try:
                with time_limit(10):
                    got = Template(tmpl % ("\n" + ENV_SRC + "\n"), strict_undefined=strict).render(**kw).strip()
            except Hang:
                raise
            except Exception as e:
                got = "raises %s: %s" % (type(e).__name__, e)
            if got != want and (name, "w") not in reported:
                reported[(name, "w")] = True
                ctx.violation("construct-attribute-witness", {"input": tmpl % "…", "witness": name, "strict_undefined": strict},
                              "renders %r, expected %r" % (got, want), "oracle.def-attributes")


DRIVER_OPS = ["py"]   # per-area driver executable(s) this check talks to (built before any worker is forked)
