"""C17 - cached sections run once per key and replay their exact output.

corr  : the Lean cache model (lean/MakoModel/Cache/Model.lean, op `cache run`) against the real mako code on
        generated worlds (1-3 templates sharing one back end) x histories (<= 30 ops) of
        {render c, invalidate_body, invalidate_def d, invalidate_closure d, invalidate k, set k v, get k,
        cache_enabled = b, and "the last template is bound to an earlier one's URI now" (put_string again)}.
        Compared per step: render output / value returned by get, the execution counter's
        log (a counting function handed in through the context and called at the start of every section body),
        and every back-end call with its keyword arguments (recording CacheImpl registered through
        mako.cache.register_plugin; Beaker and dogpile are observed through a recording proxy around
        template.cache.impl).
oracle: a reference history interpreter written from the property text (no Lean, no look at mako's
        source): expected output = what the uncached section produced when its entry was created; body
        executed iff the back end holds nothing under the section's key (or caching is disabled); back-end
        arguments = Template cache_args (+) <%page> cache_* (+) the section's own, timeout an int, context iff
        pass_context; entries belong to the template that created them (a template that replaces another one under
        its URI is another template; under <%inherit> a section belongs to the template that declares it).  A def
        called through capture() puts its text into the captured string.  Fixed families besides the generated worlds: two templates sharing one back
        end with URIs that differ only in punctuation; set/get/invalidate on every back end; a URI re-bound by
        put_string, by a file edit + lookup reload, by a recycled memory:0x.. id, with and without cache_timeout.
A case that hangs (a back end waiting for a lock it holds) is cut off by a per-case watchdog and reported.
"""
from __future__ import annotations

import copy
import os
import re
import shutil
import signal
import tempfile
import time

from harness.common import enc, dec, ddmin

REGEN = ["Unicode", "Cache"]
RULE = ("worlds of 1-3 generated templates sharing one back end; a template = optional <%page> (cached, cache_key, "
        "cache_* args), 0-3 top-level defs with 0-2 nested defs each, named blocks (page level, nested in blocks), "
        "anonymous blocks (anywhere, distinct lines), each cached with p=.6, buffered p=.3, filter p=.25, cache_key "
        "(literal / ${var} / mixed; colliding keys allowed on the recording back end) p=.35, cache_type/foo/timeout/dyn "
        "attributes at template, page and section level; defs take one string argument and are called with literals, "
        "context variables and enclosing parameters, in four ways: ${f(a)}, ${f(a) | wrapS}, ${capture(f, a)}, "
        "${capture(f, a) | wrapS} (capture: another buffer is on top while the callable runs); in ~45 % of the multi-template "
        "worlds without colliding ids template 0 is a BASE template (its body holds ${next.body()}) from which the others "
        "<%inherit>, calling some of its defs as parent.f(..): same def names and anonymous-block lines in base and children, "
        "cache operations through base.cache and child.cache, the base is rendered through its children only; "
        "histories of 4-30 ops with contexts over x,y in {1,2,3}; URIs in a world may differ only in punctuation; in ~45 % of "
        "the multi-template worlds (not on dogpile) the last template REPLACES an earlier one under the same URI in mid-history (put_string "
        "again; op P), with and without cache_timeout; a fixed family re-binds a URI by put_string, by a file edit + lookup "
        "reload (filesystem_checks) and by a recycled memory:0x.. id, for timeouts 0/1000/86400 on the reference back end and "
        "Beaker memory/file; "
        "back ends: recording dict CacheImpl (one dict for all templates, namespaced by Cache.id and by the `type` argument, "
        "honouring Cache.starttime; pass_context on/off), Beaker memory, Beaker file (thorough), dogpile "
        "memory; a case is non-trivial when at least one cached section is served from the back end and at least one "
        "is re-created after an invalidation / toggle; distinct = distinct (world, history)")
ASSUMPTIONS = [
    "back ends obey the CacheImpl contract (get_or_create stores what it creates, invalidate removes, set/get; entries "
    "stored before Cache.starttime count as absent on the reference back end and Beaker - dogpile's plugin ignores it); "
    "which keyword arguments select the container is a parameter of the model (recording impl and Beaker: `type`; dogpile: `region`)",
    "expiry clocks are out of scope: every timeout used is >= 1000 s and runs take seconds",
    "context values, def arguments, keys and cached values are str; cache_timeout is a decimal literal",
    "templates render without raising; exceptions inside a creation function are C13's subject",
    "dogpile.cache's Mako plugin does not namespace keys by Cache.id and implements `put` but not `set` (third-party code, "
    "not in /repo): dogpile worlds give every template its own region objects, and `set` is not issued there",
]
TRUSTED_EXTRA = [
    "C17: the harness expands a template into its call tree (def bodies inlined at call sites) for the model; the "
    "expansion is checked by the output comparison itself",
    "C17: Beaker 1.14 / dogpile.cache 1.5 are driven for real; their internals are not modelled",
]

WRAPPERS = "<%!\ndef wrapD(s): return '[' + s + ']'\ndef wrapS(s): return '<' + s + '>'\n%>"
KINDS = {"page": 0, "topdef": 1, "nested": 2, "nblock": 3, "ablock": 4}

# =========================================================================== template descriptions
# parts  : [["l", "lit"], ["v", "x"], ...]
# sec    : {"kind","name","label","param","cached","buffered","filtered","key":parts|None,"attrs":[[attr,parts]],"body":[node]}
# node   : ["t", s] | ["v", x] | ["k", tag] | ["c", defname, parts|None, site 0..3[, "parent"]] | ["d", sec] | ["b", sec]
#          | ["n"]  (${next.body()} in a base template)
# tmpl   : {"uri","cache_args":[[k,v]],"enabled":bool,"has_page":bool,"page":sec[,"late":True,"replaces":index]
#           [,"is_base":True][,"inherits":index,"inherits_uri":uri]}
# op     : ["R",t,{ctx}] ["B",t] ["D",t,d] ["C",t,d] ["X",t,k,kw] ["S",t,k,v,kw] ["G",t,k,kw] ["N",t,b] ["P",t]   kw = [[k,v]]
#          (P t: the late template t is bound to the URI of the template it replaces now)


def parts_src_attr(parts):
    """attribute text:  lit${x}lit"""
    return "".join(p[1] if p[0] == "l" else "${%s}" % p[1] for p in parts)


def parts_src_py(parts):
    """Python expression for a call argument"""
    if not parts:
        return "''"
    return " + ".join(repr(p[1]) if p[0] == "l" else p[1] for p in parts)


def parts_eval(parts, env):
    return "".join(p[1] if p[0] == "l" else env[p[1]] for p in parts)


def sec_open_tag(sec):
    a = []
    if sec["kind"] in ("topdef", "nested"):
        a.append('name="%s(%s)"' % (sec["name"], sec["param"] or ""))
    elif sec["kind"] == "nblock":
        a.append('name="%s"' % sec["name"])
    if sec["cached"]:
        a.append('cached="True"')
    if sec["buffered"]:
        a.append('buffered="True"')
    if sec["filtered"]:
        a.append('filter="wrapD"')
    if sec["key"] is not None:
        a.append('cache_key="%s"' % parts_src_attr(sec["key"]))
    for k, v in sec["attrs"]:
        a.append('%s="%s"' % (k, parts_src_attr(v)))
    tag = "def" if sec["kind"] in ("topdef", "nested") else "block"
    return "<%%%s %s>" % (tag, " ".join(a)) if a else "<%%%s>" % tag


def render_nodes(nodes, out):
    """appends source text to the list `out`; records the line of every anonymous block"""
    for n in nodes:
        t = n[0]
        if t == "t":
            out.append(n[1])
        elif t == "v":
            out.append("${%s}" % n[1])
        elif t == "k":
            out.append("${tick(%r)}" % n[1])
        elif t == "c":
            arg = parts_src_py(n[2]) if n[2] is not None else ""
            fn = ("parent." if len(n) > 4 and n[4] == "parent" else "") + n[1]
            mode = int(n[3])
            if mode >= 2:           # capture(f, arg): a fresh buffer is on top while f runs
                call = "capture(%s%s)" % (fn, ", " + arg if arg else "")
            else:
                call = "%s(%s)" % (fn, arg)
            out.append("${%s%s}" % (call, " | wrapS" if mode in (1, 3) else ""))
        elif t == "n":
            out.append("${next.body()}")
        else:
            sec = n[1]
            if sec["kind"] == "ablock":
                sec["line"] = "".join(out).count("\n") + 1
            out.append(sec_open_tag(sec))
            render_nodes(sec["body"], out)
            out.append("</%def>" if t == "d" else "</%block>")


def template_source(td):
    out = [WRAPPERS]
    if td.get("inherits_uri"):
        out.append('<%%inherit file="%s"/>' % td["inherits_uri"])
    pg = td["page"]
    if td["has_page"]:
        a = []
        if pg["cached"]:
            a.append('cached="True"')
        if pg["key"] is not None:
            a.append('cache_key="%s"' % parts_src_attr(pg["key"]))
        for k, v in pg["attrs"]:
            a.append('%s="%s"' % (k, parts_src_attr(v)))
        out.append("<%%page %s/>" % " ".join(a))
    render_nodes(pg["body"], out)
    return "".join(out)


def all_sections(td):
    res = [td["page"]]

    def walk(nodes):
        for n in nodes:
            if n[0] in ("d", "b"):
                res.append(n[1])
                walk(n[1]["body"])
    walk(td["page"]["body"])
    return res


def fname(sec):
    k = sec["kind"]
    if k == "page":
        return "render_body"
    if k in ("topdef", "nblock"):
        return "render_" + sec["name"]
    if k == "nested":
        return sec["name"]
    return "__M_anon_%d" % sec["line"]


def module_id(uri):
    return re.sub(r"\W", "_", uri)


# =========================================================================== generator

TEXTS = ["a", "b ", "c.", "-", "zz", " ", "Q", "7", "_u", "\n", "k\n", "m n"]
VALS = ["1", "2", "3"]


class Gen:
    def __init__(self, rng, opts):
        self.rng = rng
        self.o = opts
        self.ndef = self.nnest = self.nblk = self.nanon = 0
        self.tickn = 0

    def parts(self, vars_, label, unique):
        r = self.rng
        c = r.random()
        if unique:
            # never collides with another section's key and never with a callable's name
            if c < 0.4:
                return [["l", "K" + label]]
            return [["l", "K" + label + "_"], ["v", r.choice(vars_)]]
        if c < 0.25:
            return [["l", r.choice(["ka", "kb", "K" + label])]]
        if c < 0.6:
            return [["v", r.choice(vars_)]]
        if c < 0.85:
            return [["l", r.choice(["k", "K" + label + "_"])], ["v", r.choice(vars_)]]
        return [["v", r.choice(vars_)], ["l", "_"], ["v", r.choice(vars_)]]

    def attrs(self, vars_, level):
        """cache_* attributes of a tag (level: 'page' or 'sec')"""
        r = self.rng
        o = self.o
        res = []
        if r.random() < 0.35 and o["types"]:
            res.append(["cache_type", [["l", r.choice(o["types"])]]])
        if r.random() < 0.3:
            res.append(["cache_timeout", [["l", r.choice(["1000", "2500", "04000", "86400"])]]])
        if o["free_args"]:
            if r.random() < 0.3:
                res.append(["cache_foo", [["l", r.choice(["f1", "f2", ""])]]])
            if r.random() < 0.15:
                res.append(["cache_bar", [["l", "b" + level]]])
            if level == "sec" and r.random() < 0.2:
                res.append(["cache_dyn", [["l", "d"], ["v", r.choice(vars_)]]])
        r.shuffle(res)
        return res

    def section(self, kind, vars_, depth, top_index, in_def):
        r = self.rng
        o = self.o
        sec = {"kind": kind, "name": "", "label": "", "param": None, "cached": r.random() < 0.6, "buffered": False,
               "filtered": False, "key": None, "attrs": [], "body": [], "line": 0}
        if kind == "topdef":
            sec["name"] = "f%d" % top_index
        elif kind == "nested":
            sec["name"] = "g%d" % self.nnest
            self.nnest += 1
        elif kind == "nblock":
            sec["name"] = "b%d" % (self.nblk + self.o.get("nblk_base", 0))
            self.nblk += 1
        elif kind == "ablock":
            self.nanon += 1
        sec["label"] = sec["name"] or ("an%d" % self.nanon if kind == "ablock" else "page")
        inner_vars = list(vars_)
        if kind in ("topdef", "nested"):
            if (self.top_param[top_index] if kind == "topdef" else r.random() < 0.75):
                sec["param"] = "p_" + sec["name"]
                inner_vars = inner_vars + [sec["param"]]
        if kind == "topdef" or kind == "nblock":
            inner_vars = [v for v in inner_vars if v in ("x", "y") or v == sec["param"]]
        if kind != "page":
            sec["buffered"] = r.random() < 0.3
            sec["filtered"] = r.random() < 0.25
        if sec["cached"]:
            if r.random() < 0.35:
                sec["key"] = self.parts(inner_vars, sec["label"], o["unique_keys"])
            sec["attrs"] = self.attrs(inner_vars, "sec") if kind != "page" else []
        elif r.random() < 0.1 and kind != "page":
            sec["attrs"] = self.attrs(inner_vars, "sec")      # arguments on an uncached section are inert
        sec["body"] = self.body(sec, inner_vars, depth, top_index, in_def or kind in ("topdef", "nested"))
        return sec

    def body(self, sec, vars_, depth, top_index, in_def):
        r = self.rng
        nodes = [["k", sec["label"]]]
        local_defs = []
        if sec["kind"] in ("topdef", "nested") and depth < 2:
            for _ in range(r.choice([0, 0, 1, 1, 2])):
                d = self.section("nested", vars_, depth + 1, top_index, True)
                local_defs.append(d)
                nodes.append(["d", d])
        n = r.randint(1, 4 if depth else 5)
        for _ in range(n):
            c = r.random()
            if c < 0.25:
                nodes.append(["t", r.choice(TEXTS)])
            elif c < 0.45:
                nodes.append(["v", r.choice(vars_)])
            elif c < 0.75:
                # a call: own nested defs, or a top-level def with a higher index (no recursion)
                cands = [(d["name"], d["param"] is not None) for d in local_defs]
                cands += [("f%d" % j, self.top_param[j]) for j in range(top_index + 1, self.o["ntop"])]
                if cands:
                    name, has_param = r.choice(cands)
                    a = r.random()
                    if not has_param:
                        arg = None
                    elif a < 0.4:
                        arg = [["l", r.choice(["a", "b", "1"])]]
                    elif a < 0.9:
                        arg = [["v", r.choice(vars_)]]
                    else:
                        arg = [["l", "w"], ["v", r.choice(vars_)]]
                    nodes.append(["c", name, arg, r.choice([0, 0, 0, 0, 0, 1, 1, 2, 3, 3])])
                else:
                    nodes.append(["t", r.choice(TEXTS)])
            elif c < 0.9 and depth < 3:
                nodes.append(["t", "\n"])          # anonymous blocks get a line of their own
                nodes.append(["b", self.section("ablock", vars_, depth + 1, top_index, in_def)])
            elif not in_def and depth < 3 and self.nblk < 3:
                nodes.append(["b", self.section("nblock", vars_, depth + 1, top_index, False)])
            else:
                nodes.append(["v", r.choice(vars_)])
        return nodes

    def template(self, uri):
        r = self.rng
        o = self.o
        o["ntop"] = r.choice([0, 1, 2, 2, 3])
        self.top_param = [r.random() < 0.75 for _ in range(o["ntop"])]
        self.ndef = self.nnest = self.nblk = self.nanon = 0
        page = {"kind": "page", "name": "", "label": "page", "param": None, "cached": False, "buffered": False,
                "filtered": False, "key": None, "attrs": [], "body": [], "line": 0}
        has_page = r.random() < 0.7
        if has_page:
            page["cached"] = r.random() < 0.45
            if page["cached"] and r.random() < 0.35:
                page["key"] = self.parts(["x", "y"], "page", o["unique_keys"])
            page["attrs"] = self.attrs(["x", "y"], "page")
        nodes = []
        for i in range(o["ntop"]):
            nodes.append(["d", self.section("topdef", ["x", "y"], 1, i, True)])
            if r.random() < 0.3:
                nodes.append(["t", "\n"])
        body_sec = dict(page)
        main = self.body(body_sec, ["x", "y"], 0, -1, False)
        page["body"] = nodes + main
        cache_args = []
        if o["types"] and (o["always_type"] or r.random() < 0.5):
            cache_args.append(["type", o["tmpl_type"] if o["tmpl_type"] else r.choice(o["types"])])
        if o["free_args"] and r.random() < 0.4:
            cache_args.append(["foo", "tf"])
        if o["free_args"] and r.random() < 0.2:
            cache_args.append(["zed", "tz"])
        if r.random() < 0.25:
            cache_args.append(["timeout", r.choice([1500, 7200])])
        for kv in o.get("extra_cache_args", []):
            cache_args.append(list(kv))
        td = {"uri": uri, "cache_args": cache_args, "enabled": r.random() < 0.9, "has_page": has_page, "page": page}
        template_source(td)          # assigns the lines of the anonymous blocks
        return td


URI_FAMILIES = [["/a-b.html", "/a_b.html", "/a.b.html"], ["/x/y.html", "/x_y.html", "/x-y.html"],
                ["/p q.txt", "/p+q.txt", "/p_q.txt"], ["/m.html", "/m_html", "/m-html"]]


def gen_world(rng, backend, k):
    """a case: templates + history"""
    r = rng
    allow_fa = r.random() < 0.12
    nt = r.choice([1, 1, 1, 2, 2, 3])
    collide = nt > 1 and r.random() < 0.25 and backend != "dogpile"     # dogpile worlds have one region set per template
    opts = {"types": ["ta", "tb"], "free_args": True, "unique_keys": False,
            "always_type": False, "tmpl_type": None}
    region_key = "type"
    if backend.startswith("beaker"):
        opts.update(types=["memory"], free_args=False, unique_keys=True, always_type=True,
                    tmpl_type="file" if backend == "beaker_file" else "memory")
        if backend == "beaker_file":
            opts["types"] = ["memory", "file"]
            opts["extra_cache_args"] = [["dir", "<tmp>"]]
    elif backend == "dogpile":
        opts.update(types=[], free_args=False, unique_keys=True)
        region_key = "region"
    if collide:
        fam = r.choice(URI_FAMILIES)
        uris = r.sample(fam, nt)
    else:
        uris = ["/t%d.html" % i for i in range(nt)]
    uris = ["/c%d%s" % (k, u) for u in uris]
    tds = []
    for u in uris:
        g = Gen(r, dict(opts))
        td = g.template(u)
        template_source(td)
        tds.append(td)
    # inheritance: template 0 is the base (its body holds ${next.body()}), the others inherit from it and call some of
    # its defs as parent.f(..); a section uses the cache of the template that declares it
    inherit = len(tds) >= 2 and not collide and r.random() < 0.45
    if inherit:
        base = tds[0]
        pos = [i for i, n_ in enumerate(base["page"]["body"]) if n_[0] != "d"]
        base["page"]["body"].insert(r.choice(pos) + 1 if pos else len(base["page"]["body"]), ["n"])
        base["is_base"] = True
        bdefs = [s_ for s_ in all_sections(base) if s_["kind"] == "topdef"]
        for ci in range(1, len(tds)):
            g = Gen(r, dict(opts, nblk_base=10 * ci))
            td = g.template(uris[ci])
            td["inherits"] = 0
            td["inherits_uri"] = base["uri"]
            for _ in range(r.randint(0, 3) if bdefs else 0):
                d = r.choice(bdefs)
                arg = None
                if d["param"]:
                    arg = [["l", r.choice(["a", "b"])]] if r.random() < 0.5 else [["v", r.choice(["x", "y"])]]
                body = td["page"]["body"]
                body.insert(r.randint(sum(1 for n_ in body if n_[0] == "d"), len(body)),
                            ["c", d["name"], arg, r.choice([0, 0, 0, 1, 2, 3]), "parent"])
            template_source(td)
            tds[ci] = td
    if backend == "dogpile":
        for i, td in enumerate(tds):
            td["cache_args"] = [kv for kv in td["cache_args"] if kv[0] != "type"] + [["region", "r0"]]
            for s in all_sections(td):
                s["attrs"] = [a for a in s["attrs"] if a[0] != "cache_type"]
                if s["cached"] and s["kind"] != "page" and r.random() < 0.3:
                    s["attrs"].append(["cache_region", [["l", "r1"]]])
    # takeover: the last template replaces an earlier one under the same URI (a second put_string): it is compiled in
    # the middle of the history (op P) and the replaced one is not used afterwards
    if backend != "dogpile" and len(tds) >= 2 and not inherit and r.random() < 0.45:
        j = len(tds) - 1
        i = r.randrange(j)
        tds[j]["uri"] = tds[i]["uri"]
        tds[j]["cache_args"] = [list(kv) for kv in tds[i]["cache_args"]]
        tds[j]["enabled"] = tds[i]["enabled"]
        tds[j]["late"] = True
        tds[j]["replaces"] = i
    case = {"backend": backend, "pass_context": backend == "rec" and r.random() < 0.5, "region_key": region_key,
            "starttime": backend != "dogpile", "templates": tds, "history": []}
    case["history"] = gen_history(r, case, allow_fa)
    return case


def gen_history(r, case, allow_early_inval):
    tds = case["templates"]
    nt = len(tds)
    names = []
    for t, td in enumerate(tds):
        secs = all_sections(td)
        # cached callables three times: most invalidations should address something that can be in the back end
        tops = [s["name"] for s in secs if s["kind"] in ("topdef", "nblock") for _ in range(3 if s["cached"] else 1)]
        closures = [fname(s) for s in secs if s["kind"] in ("nested", "ablock") for _ in range(3 if s["cached"] else 1)]
        keys = set()
        for s in secs:
            if s["cached"]:
                if s["key"] is None:
                    keys.add(fname(s))
                else:
                    for x in VALS:
                        try:
                            keys.add(parts_eval(s["key"], {"x": x, "y": x, **{p: x for p in _params(td)}}))
                        except KeyError:
                            pass
        names.append((tops, closures, sorted(keys)))
    types = {"rec": ["ta", "tb"], "beaker_memory": ["memory"], "beaker_file": ["memory", "file"], "dogpile": []}[case["backend"]]
    n = r.randint(4, 30)
    ops = []
    late = [j for j, td in enumerate(tds) if td.get("late")]
    active = [j for j in range(nt) if j not in late]
    takeover_at = {j: r.randint(1, max(1, n - 2)) for j in late}
    while len(ops) < n:
        for j, at in list(takeover_at.items()):
            if len(ops) >= at:
                ops.append(["P", j])
                active = [a for a in active if a != tds[j]["replaces"]] + [j]
                del takeover_at[j]
        t = r.choice(active)
        if ops and ops[-1][0] != "R" and ops[-1][1] in active and r.random() < 0.6:
            # look at the effect of what was just done (for a base template: in one of its children)
            tt = ops[-1][1]
            if tds[tt].get("is_base"):
                tt = r.choice([j for j in active if tds[j].get("inherits") == tt])
            ops.append(["R", tt, {"x": r.choice(VALS), "y": r.choice(VALS)}])
            continue
        tops, closures, keys = names[t]
        c = r.random()

        def kw():
            res = []
            if types and r.random() < 0.35:
                res.append(["type", r.choice(types)])
            if case["backend"] == "rec" and r.random() < 0.2:
                res.append(["foo", "of"])
            if case["backend"] == "dogpile" and r.random() < 0.3:
                res.append(["region", r.choice(["r0", "r1"])])
            return res
        if tds[t].get("is_base") and (c < 0.4):
            c = 0.4 + r.random() * 0.6          # a base template is rendered through its children only
        if c < 0.4:
            ops.append(["R", t, {"x": r.choice(VALS), "y": r.choice(VALS)}])
        elif c < 0.47:
            ops.append(["B", t])
        elif c < 0.6:
            ops.append(["D", t, r.choice(tops + ["nodef"]) if r.random() < 0.9 else "body"])
        elif c < 0.7:
            ops.append(["C", t, r.choice(closures + ["noclosure"])])
        elif c < 0.8:
            ops.append(["X", t, r.choice(keys + ["nokey"]), kw()])
        elif c < 0.88 and case["backend"] != "dogpile":
            ops.append(["S", t, r.choice(keys + ["free"]), r.choice(["SET1", "SET2", ""]), kw()])
        elif c < 0.94:
            ops.append(["G", t, r.choice(keys + ["free", "nokey"]), kw()])
        else:
            ops.append(["N", t, r.random() < 0.5])
    if not allow_early_inval:
        ops = drop_early_invalidations(case, ops)
    return ops


def _params(td):
    return [s["param"] for s in all_sections(td) if s["param"]]


def drop_early_invalidations(case, ops):
    """remove invalidate_body/def/closure ops that address a cached section's callable before that callable's
    first use of the back end (the known `_def_regions` defect shows only there)"""
    c2 = dict(case)
    keep = []
    for i, op in enumerate(ops):
        if op[0] in ("B", "D", "C"):
            c2["history"] = keep + [op]
            ref = Oracle(c2)
            ref.run()
            if ref.early_invalidation:
                continue
        keep.append(op)
    return keep


# =========================================================================== reference interpreter (oracle)

class Oracle:
    """Written from the property text.  The store is keyed by (template index, region, key): entries belong to the
    template that created them.  A section's back-end arguments are cache_args (+) page (+) own, fixed when the
    section first goes to the back end."""

    def __init__(self, case):
        self.case = case
        self.tds = case["templates"]
        self.store = {}
        self.enabled = [td["enabled"] for td in self.tds]
        self.fixed = [dict() for _ in self.tds]       # callable name -> its back-end arguments
        self.early_invalidation = False
        self.served = 0
        self.recreated = 0
        self.created_keys = set()
        self.defs = []
        self.byfname = []
        for td in self.tds:
            template_source(td)                       # fixes the lines of the anonymous blocks
            secs = all_sections(td)
            self.defs.append({s["name"]: s for s in secs if s["kind"] in ("topdef", "nested")})
            self.byfname.append({fname(s): s for s in secs})

    # -- arguments
    def static_args(self, t, sec, env):
        td = self.tds[t]
        kw = {k: v for k, v in td["cache_args"]}
        for src in (td["page"]["attrs"], sec["attrs"] if sec is not td["page"] else []):
            for a, parts in src:
                if a.startswith("cache_") and a != "cache_key":
                    name = a[len("cache_"):]
                    try:
                        kw[name] = parts_eval(parts, env) if env is not None else \
                            (parts_eval(parts, {}) if all(p[0] == "l" for p in parts) else ("?", name))
                    except KeyError:
                        kw[name] = ("?", name)
        if "timeout" in kw and not isinstance(kw["timeout"], tuple):
            kw["timeout"] = int(kw["timeout"])
        return kw

    def section_args(self, t, sec, env):
        fn = fname(sec)
        if fn not in self.fixed[t]:
            self.fixed[t][fn] = self.static_args(t, sec, env)
        return self.fixed[t][fn]

    def region(self, kw):
        return kw.get(self.case["region_key"])

    # -- rendering
    def render(self, t, ctx):
        """a section belongs to the template that declares it: with <%inherit> the base template's body runs (its
        sections are the base's), ${next.body()} is the rendered template's body, parent.f() a def of the base"""
        self.rendering = t
        self.ctx = dict(ctx)
        self.ticks = []
        self.calls = []
        base = self.tds[t].get("inherits")
        root = t if base is None else base
        return self.invoke(self.tds[root]["page"], None, 0, dict(ctx), True, root)

    def nodes(self, nodes, env, owner):
        out = []
        for n in nodes:
            k = n[0]
            if k == "t":
                out.append(n[1])
            elif k == "v":
                out.append(env[n[1]])
            elif k == "k":
                self.ticks.append(n[1])
            elif k == "c":
                o2 = self.tds[owner]["inherits"] if len(n) > 4 and n[4] == "parent" else owner
                d = self.defs[o2][n[1]]
                arg = parts_eval(n[2], env) if n[2] is not None else None
                out.append(self.invoke(d, arg, int(n[3]), env, False, o2))
            elif k == "b":
                out.append(self.invoke(n[1], None, 0, env, True, owner))
            elif k == "n":
                if self.rendering != owner:
                    out.append(self.invoke(self.tds[self.rendering]["page"], None, 0, dict(self.ctx), True, self.rendering))
        return "".join(out)

    def invoke(self, sec, arg, site, env, is_block, t):
        if sec["kind"] in ("nested", "ablock"):
            env2 = dict(env)
        else:
            env2 = dict(self.ctx)
        if sec["param"] and arg is not None:
            env2[sec["param"]] = arg

        def uncached():
            o = self.nodes(sec["body"], env2, t)
            return "[" + o + "]" if sec["filtered"] else o
        if not sec["cached"] or not self.enabled[t]:
            v = uncached()
        else:
            key = parts_eval(sec["key"], env2) if sec["key"] is not None else fname(sec)
            kw = self.section_args(t, sec, env2)
            sent = dict(kw)
            if self.case["pass_context"]:
                sent.setdefault("context", ("c",))
            self.calls.append(("goc", t, key, None, sent))
            K = (t, self.region(kw), key)
            if K in self.store:
                v = self.store[K]
                self.served += 1
            else:
                if K in self.created_keys:
                    self.recreated += 1
                v = uncached()
                self.store[K] = v
                self.created_keys.add(K)
        # delivered exactly as the uncached section would deliver it
        if is_block:
            return v        # a block shows its content where it stands, buffered or not
        # a def: what it writes / what it returns; capture() gives back what was written and drops the return value
        w, r = ("", v) if sec["buffered"] else (v, "")
        if site == 0:
            return w + r
        if site == 1:
            return w + "<" + r + ">"
        if site == 2:
            return w
        return "<" + w + ">"

    # -- the other operations
    def direct_kw(self, t, kw):
        res = {k: v for k, v in self.tds[t]["cache_args"]}
        res.update({k: v for k, v in kw})
        return res

    def invalidate_callable(self, t, key, fn):
        sec = self.byfname[t].get(fn)
        if sec is not None and sec["cached"]:
            if fn not in self.fixed[t]:
                self.early_invalidation = True
                kw = self.static_args(t, sec, None)
            else:
                kw = self.fixed[t][fn]
        elif fn in self.fixed[t]:
            kw = self.fixed[t][fn]
        else:
            kw = self.direct_kw(t, [])
        self.calls.append(("inv", t, key, None, dict(kw)))
        self.store.pop((t, self.region(kw), key), None)

    def step(self, op):
        self.ticks = []
        self.calls = []
        k, t = op[0], op[1]
        resp = None
        if k == "R":
            resp = self.render(t, op[2])
        elif k == "B":
            self.invalidate_callable(t, "render_body", "render_body")
        elif k == "D":
            self.invalidate_callable(t, "render_" + op[2], "render_" + op[2])
        elif k == "C":
            self.invalidate_callable(t, op[2], op[2])
        elif k == "X":
            kw = self.direct_kw(t, op[3])
            self.calls.append(("inv", t, op[2], None, kw))
            self.store.pop((t, self.region(kw), op[2]), None)
        elif k == "S":
            kw = self.direct_kw(t, op[4])
            self.calls.append(("set", t, op[2], op[3], kw))
            self.store[(t, self.region(kw), op[2])] = op[3]
            self.created_keys.add((t, self.region(kw), op[2]))
        elif k == "G":
            kw = self.direct_kw(t, op[3])
            self.calls.append(("get", t, op[2], None, kw))
            resp = ("got", self.store.get((t, self.region(kw), op[2])))
        elif k == "N":
            self.enabled[t] = op[2]
        return {"resp": resp, "ticks": self.ticks, "calls": self.calls}

    def run(self):
        return [self.step(op) for op in self.case["history"]]


# =========================================================================== implementation side

class _RecState:
    store = {}
    calls = []
    pass_context = False
    region_key = "type"


def _canon_kw(kw, ctxdata):
    res = {}
    for k, v in kw.items():
        if k in ("regions", "manager"):
            continue                                  # back-end handles, not arguments
        if isinstance(v, str) and _cur_tmp[0] and v == _cur_tmp[0]:
            v = "<tmp>"
        if k == "context":
            ok = False
            try:
                ok = all(v.get(a) == b for a, b in ctxdata.items()) if ctxdata is not None else False
            except Exception:
                ok = False
            res[k] = ("c",) if ok else ("badctx", type(v).__name__)
        else:
            res[k] = v
    return res


_cur_ctx = [None]
_cur_tmp = [None]


def _make_recording_impl():
    from mako.cache import CacheImpl

    class RecordingImpl(CacheImpl):
        """the in-tree reference dict back end: one dict shared by every template, namespaced by Cache.id and by the
        value of the region keyword (what Beaker does with `type`)"""

        @property
        def pass_context(self):
            return _RecState.pass_context

        def _k(self, key, kw):
            return (self.cache.id, kw.get(_RecState.region_key), key)

        def get_or_create(self, key, creation_function, **kw):
            _RecState.calls.append(("goc", self.cache.id, key, None, _canon_kw(kw, _cur_ctx[0])))
            k = self._k(key, kw)
            hit = self._fresh(k)
            if hit is None:
                v = creation_function()
                _RecState.store[k] = (v, time.time())
                return v
            return hit[0]

        def _fresh(self, k):
            """the entry under k unless it was stored before the template of this Cache was compiled (Cache.starttime)"""
            e = _RecState.store.get(k)
            if e is not None and e[1] < self.cache.starttime:
                return None
            return e

        def set(self, key, value, **kw):
            _RecState.calls.append(("set", self.cache.id, key, value, _canon_kw(kw, None)))
            _RecState.store[self._k(key, kw)] = (value, time.time())

        def get(self, key, **kw):
            _RecState.calls.append(("get", self.cache.id, key, None, _canon_kw(kw, None)))
            e = self._fresh(self._k(key, kw))
            return None if e is None else e[0]

        def invalidate(self, key, **kw):
            _RecState.calls.append(("inv", self.cache.id, key, None, _canon_kw(kw, None)))
            _RecState.store.pop(self._k(key, kw), None)
    return RecordingImpl


RecordingImpl = None
_registered = [False]


def _register():
    global RecordingImpl
    if not _registered[0]:
        from mako.cache import register_plugin
        RecordingImpl = _make_recording_impl()
        register_plugin("verif_recording", __name__, "RecordingImpl")
        _registered[0] = True


class _Proxy:
    """recording proxy around a third-party CacheImpl instance"""

    def __init__(self, inner):
        self._inner = inner
        self.cache = inner.cache

    @property
    def pass_context(self):
        return self._inner.pass_context

    def get_or_create(self, key, creation_function, **kw):
        _RecState.calls.append(("goc", self.cache.id, key, None, _canon_kw(kw, _cur_ctx[0])))
        return self._inner.get_or_create(key, creation_function, **kw)

    def set(self, key, value, **kw):
        r = self._inner.set(key, value, **kw)         # an implementation without `set` raises here: nothing reached it
        _RecState.calls.append(("set", self.cache.id, key, value, _canon_kw(kw, None)))
        return r

    def get(self, key, **kw):
        _RecState.calls.append(("get", self.cache.id, key, None, _canon_kw(kw, None)))
        return self._inner.get(key, **kw)

    def invalidate(self, key, **kw):
        _RecState.calls.append(("inv", self.cache.id, key, None, _canon_kw(kw, None)))
        return self._inner.invalidate(key, **kw)


def backend_available(name):
    """(ok, reason)"""
    try:
        if name.startswith("beaker"):
            import beaker  # noqa
            from mako.ext import beaker_cache
            return (beaker_cache.has_beaker, "beaker import failed inside mako.ext.beaker_cache")
        if name == "dogpile":
            import dogpile.cache  # noqa
            from mako.cache import _cache_plugins
            _cache_plugins.load("dogpile.cache")
            return True, ""
    except Exception as e:  # pragma: no cover
        return False, "%s: %s" % (type(e).__name__, e)
    return True, ""


def _reset_beaker():
    try:
        import beaker.cache
        import beaker.container
        beaker.cache.cache_managers.clear()
        beaker.container.MemoryNamespaceManager.namespaces.clear()
    except Exception:
        pass


class Impl:
    """runs a case on the real mako code"""

    def __init__(self, case, tmpdir=None):
        from mako.lookup import TemplateLookup
        _register()
        self.case = case
        _RecState.store = {}
        _RecState.calls = []
        _RecState.pass_context = case["pass_context"]
        _RecState.region_key = case["region_key"]
        self.lookup = TemplateLookup()
        self.templates = []
        self.tmpdir = tmpdir
        self.group_lookup = {}
        for idx, td in enumerate(case["templates"]):
            self.templates.append(None if td.get("late") else self.compile(idx))

    def compile(self, idx):
        """construct template idx now.  A template that is replaced / replaces another one is bound to its URI with
        lookup.put_string (the lookup carries the cache arguments), the others are constructed directly."""
        from mako.template import Template
        from mako.lookup import TemplateLookup
        case = self.case
        be = case["backend"]
        td = case["templates"][idx]
        args = {k: (self.tmpdir if v == "<tmp>" else v) for k, v in td["cache_args"]}
        if be == "rec":
            impl = "verif_recording"
        elif be.startswith("beaker"):
            impl = "beaker"
        else:
            impl = "dogpile.cache"
            from dogpile.cache import make_region
            args["regions"] = {"r0": make_region().configure("dogpile.cache.memory"),
                               "r1": make_region().configure("dogpile.cache.memory")}
        in_group = td.get("late") or any(o.get("replaces") == idx for o in case["templates"])
        try:
            if in_group:
                lk = self.group_lookup.get(td["uri"])
                if lk is None:
                    lk = self.group_lookup[td["uri"]] = TemplateLookup(cache_impl=impl, cache_args=args,
                                                                       cache_enabled=td["enabled"])
                lk.put_string(td["uri"], template_source(td))
                t = lk.get_template(td["uri"])
            else:
                t = Template(template_source(td), uri=td["uri"], lookup=self.lookup, cache_impl=impl, cache_args=args,
                             cache_enabled=td["enabled"])
                self.lookup.put_template(td["uri"], t)
        except Exception as e:          # a generated template must compile: reported per step, like a failing render
            return ("raised", type(e).__name__)
        if be != "rec":
            t.cache.impl = _Proxy(t.cache.impl)
        return t

    def step(self, op):
        _RecState.calls = []
        if op[0] == "P":
            self.templates[op[1]] = self.compile(op[1])
            t = self.templates[op[1]]
            return {"resp": t if isinstance(t, tuple) else None, "ticks": [], "calls": []}
        k, t = op[0], self.templates[op[1]]
        ticks = []
        resp = None
        if t is None:
            return {"resp": ("raised", "NotCompiledYet"), "ticks": [], "calls": []}
        if isinstance(t, tuple):
            return {"resp": t, "ticks": [], "calls": []}
        try:
            if k == "R":
                ctx = dict(op[2])
                _cur_ctx[0] = ctx

                def tick(tag):
                    ticks.append(tag)
                    return ""
                try:
                    resp = t.render(tick=tick, **ctx)
                finally:
                    _cur_ctx[0] = None
            elif k == "B":
                t.cache.invalidate_body()
            elif k == "D":
                t.cache.invalidate_def(op[2])
            elif k == "C":
                t.cache.invalidate_closure(op[2])
            elif k == "X":
                t.cache.invalidate(op[2], **{a: b for a, b in op[3]})
            elif k == "S":
                t.cache.set(op[2], op[3], **{a: b for a, b in op[4]})
            elif k == "G":
                try:
                    v = t.cache.get(op[2], **{a: b for a, b in op[3]})
                except KeyError:
                    v = None              # Beaker reports a missing key this way
                if v is not None and not isinstance(v, str):
                    v = None if not v else repr(v)    # dogpile's NO_VALUE is falsy
                resp = ("got", v)
            elif k == "N":
                t.cache_enabled = op[2]
        except CaseTimeout:
            self.hung = True
            _TIMEOUTS[0] += 1
            resp = ("raised", "CaseTimeout")
        except Exception as e:
            resp = ("raised", type(e).__name__)
        calls = [(c[0], c[1], c[2], c[3], c[4]) for c in _RecState.calls]
        return {"resp": resp, "ticks": ticks, "calls": calls}

    def run(self):
        res = []
        for op in self.case["history"]:
            if getattr(self, "hung", False):
                res.append({"resp": ("raised", "CaseTimeout"), "ticks": [], "calls": []})
            else:
                res.append(self.step(op))
        return res


class CaseTimeout(Exception):
    pass


def _alarm(signum, frame):
    raise CaseTimeout()


CASE_TIMEOUT_S = [10.0]      # wall clock; doubled whenever a timeout turns out to be machine load
HANG_CONFIRM_S = 90.0
_TIMEOUTS = [0]
_HANG_CONFIRMED = [False]


def _run_timed(case, seconds):
    old = signal.signal(signal.SIGALRM, _alarm)
    signal.setitimer(signal.ITIMER_REAL, seconds)
    try:
        return _run_impl(case)
    finally:
        signal.setitimer(signal.ITIMER_REAL, 0)
        signal.signal(signal.SIGALRM, old)


def run_impl(case):
    """(steps, cache ids).  A case that does not finish (a back end waiting for a lock it already holds, say) is cut
    off: the step it hung in answers ("raised", "CaseTimeout").  The first timeout of a run is confirmed by running
    the case again with a long limit, so that a loaded machine is not taken for a hang."""
    res = _run_timed(case, CASE_TIMEOUT_S[0])
    hung = any(st["resp"] == ("raised", "CaseTimeout") for st in res[0])
    if hung and not _HANG_CONFIRMED[0]:
        res = _run_timed(case, HANG_CONFIRM_S)
        if any(st["resp"] == ("raised", "CaseTimeout") for st in res[0]):
            _HANG_CONFIRMED[0] = True
        else:
            CASE_TIMEOUT_S[0] *= 2
    return res


def _run_impl(case):
    tmp = None
    try:
        if case["backend"] == "beaker_file":
            tmp = tempfile.mkdtemp(prefix="c17_")
        _cur_tmp[0] = tmp
        if case["backend"].startswith("beaker"):
            _reset_beaker()
        im = Impl(case, tmp)
        res = im.run()
        ids = [module_id(td["uri"]) if (t is None or isinstance(t, tuple)) else t.cache.id
               for t, td in zip(im.templates, case["templates"])]
        return res, ids
    finally:
        _cur_tmp[0] = None
        if case["backend"].startswith("beaker"):
            _reset_beaker()
        if tmp:
            shutil.rmtree(tmp, ignore_errors=True)


# =========================================================================== model side (wire format)

def w_parts(parts):
    return ["%d" % len(parts)] + [x for p in parts for x in (("L" if p[0] == "l" else "X"), enc(p[1]))]


def w_argv(v):
    if isinstance(v, bool):
        raise ValueError("bool argument")
    if isinstance(v, int):
        return ["i", str(v)]
    return ["s", enc(v)]


def w_kw(kw):
    out = ["%d" % len(kw)]
    for k, v in kw:
        out += [enc(k)] + w_argv(v)
    return out


def w_attrs(attrs):
    out = [str(len(attrs))]
    for a, parts in attrs:
        out += [enc(a)] + w_parts(parts)
    return out


def w_home(case, owner):
    """declaring template, given for every header of a world with inheritance"""
    if owner is None:
        return ["L"]
    td = case["templates"][owner]
    return ["H", str(owner), enc(td["uri"])] + w_kw(td["cache_args"]) + w_attrs(td["page"]["attrs"])


def w_hdr(sec, home=("L",)):
    attrs = []
    if sec["cached"]:
        attrs.append(["cached", [["l", "True"]]])
    if sec["buffered"]:
        attrs.append(["buffered", [["l", "True"]]])
    if sec["key"] is not None:
        attrs.append(["cache_key", sec["key"]])
    attrs += sec["attrs"]
    out = [str(KINDS[sec["kind"]]), enc(sec["name"]), str(sec.get("line", 0))]
    out += ["P", enc(sec["param"])] if sec["param"] else ["N"]
    out += ["1" if sec["cached"] else "0", "1" if sec["buffered"] else "0", "1" if sec["filtered"] else "0"]
    out += w_attrs(attrs)
    out += list(home)
    return out


class _Exp:
    """expansion of a world's templates into call trees"""

    def __init__(self, case, rendering):
        self.case = case
        self.rendering = rendering
        self.chain = any(td.get("inherits") is not None for td in case["templates"])
        self.defs = [{s["name"]: s for s in all_sections(td) if s["kind"] in ("topdef", "nested")} for td in case["templates"]]
        self.budget = [20000]

    def home(self, owner):
        return w_home(self.case, owner if self.chain else None)

    def items(self, nodes, owner):
        return w_items(self, nodes, owner)


def w_items(X, nodes, owner):
    out = []
    budget = X.budget
    for n in nodes:
        k = n[0]
        if k == "t":
            out += ["T", enc(n[1])]
        elif k == "v":
            out += ["V", enc(n[1])]
        elif k == "k":
            out += ["K", enc(n[1])]
        elif k == "c":
            o2 = X.case["templates"][owner]["inherits"] if len(n) > 4 and n[4] == "parent" else owner
            d = X.defs[o2][n[1]]
            out += ["I"] + w_hdr(d, X.home(o2)) + (["A"] + w_parts(n[2]) if n[2] is not None else ["N"]) + [str(int(n[3]))]
            out += w_items(X, d["body"], o2)
        elif k == "b":
            s = n[1]
            out += ["I"] + w_hdr(s, X.home(owner)) + ["N", "0"] + w_items(X, s["body"], owner)
        elif k == "n":
            if X.rendering != owner:
                pg = X.case["templates"][X.rendering]["page"]
                out += ["I"] + w_hdr(pg, X.home(X.rendering)) + ["N", "0"] + w_items(X, pg["body"], X.rendering)
        budget[0] -= 1
        if budget[0] < 0:
            raise OverflowError("call tree too large")
    out.append("E")
    return out


def w_case(case):
    toks = ["cache", "run", "1" if case["pass_context"] else "0", "1" if case.get("starttime", True) else "0",
            enc(case["region_key"]), str(len(case["templates"]))]
    for td in case["templates"]:
        template_source(td)
    for t, td in enumerate(case["templates"]):
        X = _Exp(case, t)
        root = td.get("inherits")
        root = t if root is None else root
        rp = case["templates"][root]["page"]
        toks += [enc(td["uri"])] + w_kw(td["cache_args"]) + ["1" if td["enabled"] else "0"] + w_hdr(rp, X.home(root))
        toks += X.items(rp["body"], root)
    toks.append(str(len(case["history"])))
    for op in case["history"]:
        k = op[0]
        if k == "R":
            env = sorted(op[2].items())
            toks += ["R", str(op[1]), str(len(env))] + [x for a, b in env for x in (enc(a), enc(b))]
        elif k == "B":
            toks += ["B", str(op[1])]
        elif k in ("D", "C"):
            toks += [k, str(op[1]), enc(op[2])]
        elif k == "X":
            toks += ["X", str(op[1]), enc(op[2])] + w_kw(op[3])
        elif k == "S":
            toks += ["S", str(op[1]), enc(op[2]), enc(op[3])] + w_kw(op[4])
        elif k == "G":
            toks += ["G", str(op[1]), enc(op[2])] + w_kw(op[3])
        elif k == "N":
            toks += ["N", str(op[1]), "1" if op[2] else "0"]
        elif k == "P":
            toks += ["P", str(op[1])]
    return " ".join(toks)


def parse_model(line):
    """-> list of {"resp","ticks","calls"} in the same canonical form as the implementation side"""
    if line in ("bad-args", "bad-op", "bad-request"):
        raise ValueError("model rejected the request: " + line)
    steps = []
    for chunk in line.split(" | "):
        t = chunk.split(" ")
        i = 0
        if t[0] == "o":
            resp, i = dec(t[1]), 2
        elif t[0] == "g":
            if t[1] == "none":
                resp, i = ("got", None), 2
            else:
                resp, i = ("got", dec(t[2])), 3
        elif t[0] == "u":
            resp, i = None, 1
        else:
            resp, i = ("noTemplate",), 1
        assert t[i] == "T"
        n = int(t[i + 1])
        ticks = [dec(x) for x in t[i + 2:i + 2 + n]]
        i = i + 2 + n
        assert t[i] == "C"
        nc = int(t[i + 1])
        i += 2
        calls = []
        for _ in range(nc):
            op, cid, key = t[i], dec(t[i + 1]), dec(t[i + 2])
            i += 3
            val = None
            if op == "set":
                val = dec(t[i])
                i += 1
            nk = int(t[i])
            i += 1
            kw = {}
            for _ in range(nk):
                k = dec(t[i])
                if t[i + 1] == "s":
                    kw[k] = dec(t[i + 2])
                    i += 3
                elif t[i + 1] == "i":
                    kw[k] = int(t[i + 2])
                    i += 3
                else:
                    kw[k] = ("c",)
                    i += 2
            calls.append((op, cid, key, val, kw))
        steps.append({"resp": resp, "ticks": ticks, "calls": calls})
    return steps


# =========================================================================== comparisons

def first_diff_model(impl, model):
    for i, (a, b) in enumerate(zip(impl, model)):
        for f in ("resp", "ticks", "calls"):
            x, y = a[f], b[f]
            if f == "calls":
                x = [(c[0], c[1], c[2], c[3], sorted(c[4].items(), key=lambda kv: kv[0])) for c in x]
                y = [(c[0], c[1], c[2], c[3], sorted(c[4].items(), key=lambda kv: kv[0])) for c in y]
            if x != y:
                return {"step": i, "field": f, "impl": x, "model": y}
    if len(impl) != len(model):
        return {"step": min(len(impl), len(model)), "field": "length", "impl": len(impl), "model": len(model)}
    return None


def _kw_match(exp, got):
    """expected arguments may contain ('?', name) for values the property does not fix before the first render"""
    if set(exp) != set(got):
        return False
    for k, v in exp.items():
        if isinstance(v, tuple) and v and v[0] == "?":
            continue
        if v != got[k] or type(v) is not type(got[k]):
            return False
    return True


def first_diff_oracle(impl, ids, ref):
    """impl steps vs reference steps; the reference names templates by index, the implementation by Cache.id"""
    for i, (a, b) in enumerate(zip(impl, ref)):
        if a["resp"] != b["resp"]:
            return {"step": i, "field": "resp", "impl": a["resp"], "expected": b["resp"]}
        if a["ticks"] != b["ticks"]:
            return {"step": i, "field": "ticks", "impl": a["ticks"], "expected": b["ticks"]}
        ca, cb = a["calls"], b["calls"]
        bad = len(ca) != len(cb)
        if not bad:
            for x, y in zip(ca, cb):
                if x[0] != y[0] or x[1] != ids[y[1]] or x[2] != y[2] or x[3] != y[3] or not _kw_match(y[4], x[4]):
                    bad = True
                    break
        if bad:
            return {"step": i, "field": "calls", "impl": [(c[0], c[1], c[2], c[3], sorted(c[4].items())) for c in ca],
                    "expected": [(c[0], ids[c[1]], c[2], c[3], sorted(c[4].items(), key=str)) for c in cb]}
    return None


def oracle_check(case):
    """None when the implementation behaves as the property says on this case, else a description"""
    impl, ids = run_impl(case)
    ref = Oracle(case).run()
    return first_diff_oracle(impl, ids, ref)


# =========================================================================== shrinking and classification

def _without_keys(case, **kw):
    c = copy.deepcopy(case)
    c.update(kw)
    return c


def valid_case(case):
    """the generator's own invariants (a shrinking step must not leave them): anonymous blocks on distinct lines"""
    for td in case["templates"]:
        template_source(td)
        lines = [s["line"] for s in all_sections(td) if s["kind"] == "ablock"]
        if len(set(lines)) != len(lines):
            return False
    for td in case["templates"]:
        if td.get("late"):
            o = case["templates"][td["replaces"]]       # bound through one lookup: same URI and cache configuration
            if (td["uri"], td["cache_args"], td["enabled"]) != (o["uri"], o["cache_args"], o["enabled"]):
                return False
    for i, td in enumerate(case["templates"]):
        b = td.get("inherits")
        calls_parent = ['"parent"' in __import__("json").dumps(td)]
        if b is None:
            if calls_parent[0]:
                return False
        else:
            base = case["templates"][b]
            if not base.get("is_base") or td.get("inherits_uri") != base["uri"]:
                return False
            names = {s_["name"]: s_ for s_ in all_sections(base) if s_["kind"] == "topdef"}

            def ok(nodes):
                for n_ in nodes:
                    if n_[0] == "c" and len(n_) > 4:
                        d = names.get(n_[1])
                        if d is None or (d["param"] is None) != (n_[2] is None):
                            return False
                    if n_[0] in ("d", "b") and not ok(n_[1]["body"]):
                        return False
                return True
            if not ok(td["page"]["body"]):
                return False
        if td.get("is_base"):
            if __import__("json").dumps(td).count('["n"]') != 1:
                return False
            if any(op[0] == "R" and op[1] == i for op in case["history"]):
                return False
    # a template that takes over a URI is compiled exactly once, before it is used; the replaced one is not used afterwards
    compiled = set(i for i, td in enumerate(case["templates"]) if not td.get("late"))
    dead = set()
    for op in case["history"]:
        if op[0] == "P":
            if op[1] in compiled or not case["templates"][op[1]].get("late"):
                return False
            compiled.add(op[1])
            dead.add(case["templates"][op[1]]["replaces"])
        elif op[1] not in compiled or op[1] in dead:
            return False
    return True


def shrink_case(case, fails0):
    """ddmin over the history, then greedy simplification of the templates"""
    case = copy.deepcopy(case)

    def fails(c):
        return valid_case(c) and fails0(c)

    def f_hist(ops):
        c = _without_keys(case, history=list(ops))
        try:
            return bool(fails(c))
        except Exception:
            return False
    case["history"] = ddmin(case["history"], f_hist, 300)
    # drop whole templates that no remaining op refers to (only from the end, indices stay valid)
    while len(case["templates"]) > 1 and all(op[1] != len(case["templates"]) - 1 for op in case["history"]) \
            and all(td.get("replaces") != len(case["templates"]) - 1 for td in case["templates"]) \
            and all(td.get("inherits") != len(case["templates"]) - 1 for td in case["templates"]):
        c = _without_keys(case, templates=case["templates"][:-1])
        try:
            if not fails(c):
                break
        except Exception:
            break
        case = c
    changed = True
    rounds = 0
    while changed and rounds < 6:
        changed = False
        rounds += 1
        for ti in range(len(case["templates"])):
            # remove nodes one at a time
            paths = []

            def walk(nodes, path):
                for i, n in enumerate(nodes):
                    paths.append(path + [i])
                    if n[0] in ("d", "b"):
                        walk(n[1]["body"], path + [i])
            walk(case["templates"][ti]["page"]["body"], [])
            for p in reversed(paths):
                c = copy.deepcopy(case)
                nodes = c["templates"][ti]["page"]["body"]
                try:
                    for i in p[:-1]:
                        nodes = nodes[i][1]["body"]
                    node = nodes[p[-1]]
                except (IndexError, KeyError):
                    continue
                if node[0] == "d":
                    # removing a def requires that nothing calls it
                    name = node[1]["name"]
                    if any(('"c", "%s"' % name) in __import__("json").dumps(td_) for td_ in c["templates"]):
                        continue
                hoisted = None
                if node[0] == "b":
                    hoisted = copy.deepcopy(c)
                    hn = hoisted["templates"][ti]["page"]["body"]
                    for i in p[:-1]:
                        hn = hn[i][1]["body"]
                    hn[p[-1]:p[-1] + 1] = hn[p[-1]][1]["body"]
                del nodes[p[-1]]
                done = False
                try:
                    if fails(c):
                        case = c
                        changed = True
                        done = True
                except Exception:
                    pass
                if not done and hoisted is not None:
                    try:
                        if fails(hoisted):
                            case = hoisted
                            changed = True
                    except Exception:
                        pass
            # lower flags / drop attributes
            secs_n = len(all_sections(case["templates"][ti]))
            for si in range(secs_n):
                for what in ("cached", "buffered", "filtered", "key", "attrs", "param", "site"):
                    c = copy.deepcopy(case)
                    s = all_sections(c["templates"][ti])[si]
                    if what in ("cached", "buffered", "filtered"):
                        if not s[what]:
                            continue
                        s[what] = False
                    elif what == "key":
                        if s["key"] is None:
                            continue
                        s["key"] = None
                    elif what == "attrs":
                        if not s["attrs"]:
                            continue
                        s["attrs"] = s["attrs"][:-1]
                    elif what == "param":
                        continue
                    else:
                        hit = False
                        for n in s["body"]:
                            if n[0] == "c" and n[3]:
                                n[3] = 0
                                hit = True
                        if not hit:
                            continue
                    try:
                        if fails(c):
                            case = c
                            changed = True
                    except Exception:
                        pass
            td = case["templates"][ti]
            for ai in range(len(td["cache_args"]) - 1, -1, -1):
                if td["cache_args"][ai][0] in ("region", "type", "dir") and case["backend"] != "rec":
                    continue          # the third-party back ends need them
                c = copy.deepcopy(case)
                del c["templates"][ti]["cache_args"][ai]
                try:
                    if fails(c):
                        case = c
                        changed = True
                        break
                except Exception:
                    pass
    for td in case["templates"]:
        template_source(td)
    return case


def _root(case, i):
    """index of the template whose URI template i (transitively) took over"""
    seen = set()
    while case["templates"][i].get("late") and i not in seen:
        seen.add(i)
        i = case["templates"][i]["replaces"]
    return i


def distinct_ids_variant(case):
    c = copy.deepcopy(case)
    for i, td in enumerate(c["templates"]):
        r = _root(case, i)
        td["uri"] = "/distinct%d_%s" % (r, re.sub(r"\W", "", case["templates"][r]["uri"]))
    return c


def no_early_invalidation_variant(case):
    c = copy.deepcopy(case)
    c["history"] = drop_early_invalidations(c, c["history"])
    return c


KNOWN_VARIANTS = []      # (site, variant function) - filled below


def colliding_only_by_nonword(case):
    uris = [td["uri"] for i, td in enumerate(case["templates"]) if _root(case, i) == i]
    ids = [module_id(u) for u in uris]
    return len(set(uris)) == len(uris) and len(set(ids)) < len(ids)


KNOWN_VARIANTS = [
    ("cache-id-collision-nonword-chars", lambda c: distinct_ids_variant(c) if colliding_only_by_nonword(c) else c),
    ("region-args-frozen-by-early-invalidate", no_early_invalidation_variant),
]


def strip_known(case):
    """the case with every input feature removed on which a recorded defect shows"""
    c = case
    for _, f in KNOWN_VARIANTS:
        c = f(c)
    return c


def classify(case, diff):
    """a short stable name of the failing input class, decided by which single change of the *input* makes the
    violation disappear (so that a different defect on the same kind of input is still reported under its own name)"""
    try:
        for site, f in KNOWN_VARIANTS:
            v = f(case)
            if v != case and oracle_check(v) is None:
                return site
    except Exception as e:  # classification must not hide the violation
        return "history-%s-mismatch(classification failed: %s)" % (diff.get("field"), type(e).__name__)
    return "history-%s-mismatch" % diff.get("field")


def case_summary(case):
    return {"backend": case["backend"], "pass_context": case["pass_context"], "region_key": case["region_key"],
            "templates": [{"uri": td["uri"], "cache_args": td["cache_args"], "cache_enabled": td["enabled"],
                           "source": template_source(td)} for td in case["templates"]],
            "history": case["history"], "case": case}


def report_violation(ctx, stream, case, diff, seen_sites):
    """shrink, classify, report (each site once per stream).  A case may show several defects at once: first every
    input feature on which a *recorded* defect shows is removed; if the case still fails, that failure is what is
    shrunk and reported, so a recorded defect never hides another one."""
    stripped = strip_known(case)
    d_s = oracle_check(stripped)
    if d_s is not None:
        # something no recorded defect explains: shrink without sliding into a recorded one (the first one of a stream
        # is minimised and reported, the others are counted)
        if (stream, "<unrecorded>") in seen_sites:
            ctx.branch("oracle:repeat:unrecorded-defect")
            ctx.stream(stream, "oracle")["disagreements"] += 1
            return
        seen_sites.add((stream, "<unrecorded>"))

        def fails_new(c):
            return oracle_check(strip_known(c)) is not None
        small = strip_known(shrink_case(stripped, fails_new))
        d2 = oracle_check(small) or d_s
        site = classify(small, d2)
    else:
        quick = classify(case, diff)
        if (stream, quick) in seen_sites:
            ctx.branch("oracle:repeat:" + quick)
            return

        def fails_same(c):
            d = oracle_check(c)
            return d is not None and classify(c, d) == quick
        # several recorded defects at once classify as "generic": any failure may then be kept while shrinking (the
        # case passes once all of them are stripped), which isolates one of them
        single = quick in {s_ for s_, _ in KNOWN_VARIANTS}
        small = shrink_case(case, fails_same if single else (lambda c: oracle_check(c) is not None))
        d2 = oracle_check(small) or diff
        site = classify(small, d2)
        if (stream, site) in seen_sites:
            seen_sites.add((stream, quick))
            ctx.branch("oracle:repeat:" + site)
            return
        seen_sites.add((stream, quick))
    seen_sites.add((stream, site))
    summ = case_summary(small)
    summ["input"] = " || ".join(t["source"] for t in summ["templates"]) + " @@ " + repr(small["history"])
    summ["colliding_module_ids"] = colliding_only_by_nonword(small)
    ctx.violation(site, summ, d2, stream)


# =========================================================================== streams

def is_nontrivial(case, ref_oracle):
    return ref_oracle.served > 0 and ref_oracle.recreated > 0


def histogram(ctx, case, ref):
    ctx.branch("backend:" + case["backend"])
    ctx.branch("templates:%d" % len(case["templates"]))
    if any(td.get("inherits") is not None for td in case["templates"]):
        ctx.branch("world:inheritance:%s" % case["backend"])
        base_cached = sum(1 for s_ in all_sections(case["templates"][0]) if s_["cached"])
        ctx.branch("world:inheritance:cached-sections-in-base", base_cached)
        ctx.branch("world:inheritance:parent-calls", __import__("json").dumps(case["templates"]).count('"parent"'))
    for td in case["templates"]:
        for m in re.findall(r'\["c", "[a-z0-9]+", (?:null|\[.*?\]\]), (\d)', __import__("json").dumps(td)):
            ctx.branch("call-site:" + ["plain", "filtered", "captured", "captured+filtered"][int(m)])
    ids = [module_id(td["uri"]) for td in case["templates"]]
    if len(set(ids)) < len(ids):
        ctx.branch("world:colliding-module-ids")
    for td in case["templates"]:
        for s in all_sections(td):
            if s["cached"]:
                ctx.branch("cached:%s%s%s%s" % (s["kind"], "+buffered" if s["buffered"] else "",
                                               "+filter" if s["filtered"] else "", "+key" if s["key"] is not None else ""))
            else:
                ctx.branch("uncached:" + s["kind"])
    for op in case["history"]:
        ctx.branch("op:" + op[0])
    ctx.branch("served-from-cache", ref.served)
    ctx.branch("re-created-after-removal", ref.recreated)
    if ref.early_invalidation:
        ctx.branch("history:early-invalidation")
    for td in case["templates"]:
        if td.get("late"):
            secs = [s_ for s_ in all_sections(td) if s_["cached"]]
            with_to = any(a[0] == "cache_timeout" for s_ in secs for a in s_["attrs"]) or \
                any(a[0] == "cache_timeout" for a in td["page"]["attrs"]) or any(kv[0] == "timeout" for kv in td["cache_args"])
            ctx.branch("world:takeover:%s:%s" % (case["backend"], "with-timeout" if with_to else "no-timeout"))


def run_stream(ctx, backend, n, seen_sites, k0):
    cs = ctx.stream("corr." + backend)
    os_ = ctx.stream("oracle." + backend, "oracle")
    drv = ctx.driver()
    cases = []
    t0 = time.time()
    for i in range(n):
        for attempt in range(20):
            case = gen_world(ctx.rng, backend, k0 + i)
            try:
                w_case(case)
                break
            except OverflowError:
                continue
        cases.append(case)
    lines = [w_case(c) for c in cases]
    outs = drv.ask_many(lines)
    t_before = _TIMEOUTS[0]
    for case, line in zip(cases, outs):
        if _TIMEOUTS[0] - t_before > 4:
            ctx.notes.append("%s: stream stopped after repeated case timeouts (back end hangs)" % backend)
            ctx.log("%s: stream stopped after repeated case timeouts" % backend)
            break
        impl, ids = run_impl(case)
        cs["cases"] += 1
        os_["cases"] += 1
        refo = Oracle(case)
        ref = refo.run()
        histogram(ctx, case, refo)
        if is_nontrivial(case, refo):
            ctx.nontriv(repr(case))
        try:
            model = parse_model(line)
            d = first_diff_model(impl, model)
        except Exception as e:
            d = {"field": "parse", "error": repr(e), "line": line[:300]}
        if d is not None and cs["disagreements"] > 0:
            ctx.disagree("corr." + backend, {"input": repr(case["history"])[:200], "note": "not minimised (a minimised "
                         "disagreement of this stream was already recorded)"}, d.get("model"), d)
        elif d is not None:
            small = case
            try:
                def fails(c):
                    im, _ = run_impl(c)
                    return first_diff_model(im, parse_model(drv.ask(w_case(c)))) is not None
                small = shrink_case(case, fails)
                im, _ = run_impl(small)
                d = first_diff_model(im, parse_model(drv.ask(w_case(small)))) or d
            except Exception:
                pass
            ctx.disagree("corr." + backend, case_summary(small), d.get("model"), d)
        do = first_diff_oracle(impl, ids, ref)
        if do is not None:
            report_violation(ctx, "oracle." + backend, case, do, seen_sites)
    ctx.log("%s: %d cases in %.1fs" % (backend, n, time.time() - t0))
    if cases:
        c = cases[0]
        ctx.sample({"stream": "corr." + backend, "template": template_source(c["templates"][0]), "history": c["history"][:6]})


def f5_case(u1, u2, backend="rec"):
    def td(uri, text):
        page = {"kind": "page", "name": "", "label": "page", "param": None, "cached": True, "buffered": False,
                "filtered": False, "key": None, "attrs": [], "body": [["k", "page"], ["t", text], ["v", "x"]], "line": 0}
        args = [["type", "memory"]] if backend.startswith("beaker") else []
        if backend == "dogpile":
            args = [["region", "r0"]]
        return {"uri": uri, "cache_args": args, "enabled": True, "has_page": True, "page": page}
    return {"backend": backend, "pass_context": False, "region_key": "region" if backend == "dogpile" else "type",
            "starttime": backend != "dogpile",
            "templates": [td(u1, "first "), td(u2, "second ")],
            "history": [["R", 0, {"x": "1", "y": "1"}], ["R", 1, {"x": "2", "y": "2"}], ["R", 0, {"x": "3", "y": "3"}]]}


def stream_shared_backend(ctx, seen_sites, backends):
    """two templates in one lookup sharing one back end, URIs that differ only in punctuation (and pairs that do not)"""
    st = ctx.stream("oracle.shared_backend", "oracle")
    pairs = [("/a-b.html", "/a_b.html"), ("/a.b.html", "/a-b.html"), ("/x/y.html", "/x_y.html"), ("/p q", "/p+q"),
             ("/same.html", "/other.html"), ("/a-b.html", "/a-c.html"), ("/A.html", "/a.html"), ("/é.html", "/e.html"),
             ("/a--b", "/a-b"), ("/m.html", "/m_html")]
    for be in backends:
        for (u1, u2) in pairs:
            case = f5_case(u1, u2, be)
            st["cases"] += 1
            ctx.branch("shared:%s:%s" % (be, "same-id" if module_id(u1) == module_id(u2) else "distinct-id"))
            d = oracle_check(case)
            if d is not None:
                report_violation(ctx, "oracle.shared_backend", case, d, seen_sites)


def _takeover_source(version, timeout):
    attr = ' cache_timeout="%d"' % timeout if timeout else ""
    return ('<%%page cached="True"%s/><%%def name="frag()" cached="True"%s>%s frag ${x}</%%def>'
            '<%%block name="blk" cached="True"%s>%s blk ${x}</%%block>|${frag()}|%s page ${x}'
            % (attr, attr, version, attr, version, version))


def _takeover_expect(version, x):
    return "%s blk %s|%s frag %s|%s page %s" % (version, x, version, x, version, x)


def takeover_scenarios(backend, tmp):
    """(label, got, expected) for every way a template takes over another one's cache id: the URI bound again with
    put_string, a file reloaded by a lookup with filesystem_checks, an anonymous template allocated at the address of a
    collected one - each for sections with and without cache_timeout.  After the takeover the new template must render
    its own text (its bodies run once) and then replay that, never the predecessor's."""
    import gc
    from mako.lookup import TemplateLookup
    from mako.template import Template
    res = []

    def args(tag):
        if backend == "rec":
            return "verif_recording", {}
        if backend == "beaker_memory":
            return "beaker", {"type": "memory"}
        d = os.path.join(tmp, "cache_" + tag)
        return "beaker", {"type": "file", "dir": d}
    for timeout in (0, 1000, 86400):
        # --- put_string twice
        impl, ca = args("ps%d" % timeout)
        lk = TemplateLookup(cache_impl=impl, cache_args=ca)
        uri = "/takeover/ps_%s_%d.html" % (backend, timeout)
        lk.put_string(uri, _takeover_source("v1", timeout))
        t = lk.get_template(uri)
        res.append(("put_string timeout=%d v1" % timeout, t.render(x=1), _takeover_expect("v1", 1)))
        res.append(("put_string timeout=%d v1 replay" % timeout, t.render(x=2), _takeover_expect("v1", 1)))
        lk.put_string(uri, _takeover_source("v2", timeout))
        t = lk.get_template(uri)
        res.append(("put_string timeout=%d v2" % timeout, t.render(x=3), _takeover_expect("v2", 3)))
        res.append(("put_string timeout=%d v2 replay" % timeout, t.render(x=4), _takeover_expect("v2", 3)))
        # --- file edit + reload through a lookup with filesystem_checks
        impl, ca = args("fr%d" % timeout)
        tdir = os.path.join(tmp, "tmpl_%s_%d" % (backend, timeout))
        os.makedirs(tdir)
        path = os.path.join(tdir, "index.html")
        with open(path, "w") as f:
            f.write(_takeover_source("v1", timeout))
        past = time.time() - 100
        os.utime(path, (past, past))
        lk = TemplateLookup(directories=[tdir], filesystem_checks=True, cache_impl=impl, cache_args=ca)
        t1 = lk.get_template("index.html")
        res.append(("file reload timeout=%d v1" % timeout, t1.render(x=1), _takeover_expect("v1", 1)))
        res.append(("file reload timeout=%d v1 replay" % timeout, t1.render(x=2), _takeover_expect("v1", 1)))
        with open(path, "w") as f:
            f.write(_takeover_source("v2", timeout))
        newer = t1.module._modified_time + 1          # the lookup compares whole seconds of mtime with the compile time
        os.utime(path, (newer, newer))
        t2 = lk.get_template("index.html")
        res.append(("file reload timeout=%d reloaded" % timeout, t2 is not t1, True))
        res.append(("file reload timeout=%d v2" % timeout, t2.render(x=3), _takeover_expect("v2", 3)))
        res.append(("file reload timeout=%d v2 replay" % timeout, t2.render(x=4), _takeover_expect("v2", 3)))
        # --- an anonymous template at the address of a collected one ("memory:0x..." is its cache id)
        impl, ca = args("an%d" % timeout)
        t = Template(_takeover_source("first", timeout), cache_impl=impl, cache_args=dict(ca))
        first_id = t.module_id
        res.append(("anonymous timeout=%d first" % timeout, t.render(x=1), _takeover_expect("first", 1)))
        del t
        gc.collect()
        keep = []
        for attempt in range(300):
            t = Template(_takeover_source("later", timeout), cache_impl=impl, cache_args=dict(ca))
            if t.module_id == first_id:
                res.append(("anonymous timeout=%d later template with the same id" % timeout, t.render(x=2),
                            _takeover_expect("later", 2)))
                break
            keep.append(t)          # keep it alive so that its address is not handed out again
            if len(keep) > 40:
                keep.pop(0)
        else:
            res.append(("anonymous timeout=%d (id not reused in 300 allocations)" % timeout, True, True))
    return res


def stream_takeover(ctx, seen_sites, backends):
    """a template that replaces another one under the same cache id is never served the predecessor's entries"""
    st = ctx.stream("oracle.takeover", "oracle")
    _register()
    for be in backends:
        if be == "dogpile":
            continue          # its plugin ignores Cache.id and starttime altogether (third party), see ASSUMPTIONS
        tmp = tempfile.mkdtemp(prefix="c17t_")
        try:
            if be.startswith("beaker"):
                _reset_beaker()
            _RecState.store = {}
            _RecState.pass_context = False
            _RecState.region_key = "type"
            try:
                res = takeover_scenarios(be, tmp)
            except Exception as e:
                res = [("takeover scenarios on %s raised" % be, "%s: %s" % (type(e).__name__, e), None)]
            for label, got, exp in res:
                st["cases"] += 1
                ctx.branch("takeover:%s:%s" % (be, label.split(" timeout")[0]))
                if got != exp and (be, "takeover") not in seen_sites:
                    seen_sites.add((be, "takeover"))
                    ctx.violation("takeover-served-predecessor-entry",
                                  {"input": "%s: %s" % (be, label), "backend": be, "scenario": label,
                                   "source_v1": _takeover_source("v1", int(label.split("timeout=")[1].split()[0]) if "timeout=" in label else 0)},
                                  {"got": got, "expected": exp}, "oracle.takeover")
        finally:
            if be.startswith("beaker"):
                _reset_beaker()
            shutil.rmtree(tmp, ignore_errors=True)


def stream_backend_api(ctx, seen_sites, backends):
    """cache.set / cache.get on every back end"""
    st = ctx.stream("oracle.backend_api", "oracle")
    for be in backends:
        if be == "dogpile":
            continue      # `set` is missing in dogpile's own plugin (third party), see ASSUMPTIONS
        case = f5_case("/api1.html", "/api2.html", be)
        case["history"] = [["S", 0, "k", "v1", []], ["G", 0, "k", []], ["G", 1, "k", []], ["X", 0, "k", []], ["G", 0, "k", []]]
        st["cases"] += 1
        d = oracle_check(case)
        if d is not None:
            report_violation(ctx, "oracle.backend_api", case, d, seen_sites)


def run(ctx):
    seen = set()
    backends = ["rec"]
    for be in ("beaker_memory", "beaker_file", "dogpile"):
        ok, why = backend_available(be)
        if ok:
            if be != "beaker_file" or not ctx.quick:
                backends.append(be)
        else:
            ctx.notes.append("back end %s skipped: %s" % (be, why))
            ctx.log("back end %s skipped: %s" % (be, why))
    ctx.notes.append("back ends exercised: " + ", ".join(backends))
    if "dogpile" in backends:
        try:
            a, b = dogpile_shared_region_probe()
            ctx.notes.append("dogpile.cache Mako plugin, one region shared by two templates with distinct ids: renders %r, %r "
                             "(the plugin does not namespace keys by Cache.id; third-party code, not counted - dogpile worlds "
                             "use one region set per template)" % (a, b))
        except Exception as e:
            ctx.notes.append("dogpile shared-region probe failed: %r" % (e,))
    n = {"rec": 600, "beaker_memory": 120, "beaker_file": 0, "dogpile": 80} if ctx.quick else \
        {"rec": 9000, "beaker_memory": 1500, "beaker_file": 300, "dogpile": 800}
    err = None
    k0 = 0
    try:
        for be in backends:
            run_stream(ctx, be, n[be], seen, k0)
            k0 += n[be]
    except Exception as e:
        err = e
    finally:
        stream_shared_backend(ctx, seen, backends)
        stream_backend_api(ctx, seen, backends)
        stream_takeover(ctx, seen, backends + (["beaker_file"] if "beaker_memory" in backends and "beaker_file" not in backends else []))
    if err is not None:
        raise err




def dogpile_shared_region_probe():
    """what dogpile.cache's own Mako plugin does when two templates share a region (informational, third-party code)"""
    from mako.template import Template
    from dogpile.cache import make_region
    regs = {"r0": make_region().configure("dogpile.cache.memory")}
    args = {"regions": regs, "region": "r0"}
    t1 = Template('<%page cached="True"/>first', uri="/dp-probe-1.html", cache_impl="dogpile.cache", cache_args=dict(args))
    t2 = Template('<%page cached="True"/>second', uri="/dp-probe-2.html", cache_impl="dogpile.cache", cache_args=dict(args))
    return t1.render(), t2.render()


# =========================================================================== replay

def replay(ctx, data):
    case = data.get("case")
    if isinstance(case, dict) and "case" in case:
        case = case["case"]
    if not isinstance(case, dict) or "templates" not in case:
        fd = (data.get("first_disagreements") or [{}])[0].get("case")
        case = fd["case"] if isinstance(fd, dict) and "case" in fd else fd
    if not isinstance(case, dict) or "templates" not in case:
        print("nothing to replay in this file (a proof/audit obligation broke; see `no_longer_checks`)")
        return False
    for td in case["templates"]:
        print("template %s  cache_args=%r cache_enabled=%r\n%s\n" % (td["uri"], td["cache_args"], td["enabled"], template_source(td)))
    impl, ids = run_impl(case)
    ref = Oracle(case).run()
    for i, (op, a, b) in enumerate(zip(case["history"], impl, ref)):
        print("step %d %r\n   impl     %r ticks=%r calls=%r\n   expected %r ticks=%r calls=%r" % (
            i, op, a["resp"], a["ticks"], a["calls"], b["resp"], b["ticks"], b["calls"]))
    d = first_diff_oracle(impl, ids, ref)
    print("oracle:", "property holds on this case" if d is None else "VIOLATED: %r" % (d,))
    try:
        model = parse_model(ctx.driver().ask(w_case(case)))
        dm = first_diff_model(impl, model)
        print("model :", "agrees with the implementation" if dm is None else "DIFFERS: %r" % (dm,))
    except Exception as e:
        print("model : not available (%r)" % (e,))
    return d is None


DRIVER_OPS = ["cache"]   # per-area driver executable(s) this check talks to (built before any worker is forked)
