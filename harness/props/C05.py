"""C05 - defs write at the call site; buffering, capture and calls with content.

Streams (templates; attribute parsing / signatures are harness/c05_attrs.py's streams - oracle.attrs, oracle.attrs.multi,
oracle.sig, corr.attrs*, corr.nsexpr, corr.sig, corr.sig.fields - and the VALUES of parameter defaults are
harness/c05_defaults.py's - oracle.sig.defaults, oracle.sig.default_names, corr.sig.defaults - all called from here)
  corr.structural     every generated template and every fixed witness (FIXED_SETS) in the plain surface style and in
                      sampled other styles (`self.`/`local.` calls, `<%self:d>`/`<%local:d>` tags with attribute
                      arguments): real `Template.code` canonicalised (harness/target_canon.py) vs the S-expression of
                      the Lean `codegenModule`;
  corr.behaviour / corr.spec
                      the crash-free render and a few crash points per set: outcome, output, stack depths, counter -
                      real mako vs the Lean pipeline (codegen -> exec) and vs the Lean `Spec.render` (driver op `tgt`);
                      a coverage line counts the blocks, includes, defs of a <%call> below control lines / in nested
                      <%call>s and cached defs in these sets (c05_gen.refinement_constructs);
  oracle.render       NO Lean: output of the real template vs the stack-free reference renderer
                      (harness/ref_render.py: output is a returned value, `caller` a lexical argument), every sampled
                      surface style, plus the instrumented variant;
  oracle.caller_identity
                      NO Lean: an instrumented variant of the source brackets every call site (`${d(…)}`, capture,
                      `<%call>`/`<%ns:def>`, `caller.body()`) with probes reading the real Context: top of
                      `caller_stack` (identity), its depth, `nextcaller`, depth of `_buffer_stack` - pre and post of the
                      same dynamic instance must agree; at every `<%call>` body entry the body's `caller` must be the
                      caller of the scope the tag is written in;
  oracle.buffer_filters   `Template(buffer_filters=[…])`: "a buffered def returns its content (after buffer_filters)";
  oracle.rich_signatures  defaults, *args, **kw, keyword-only parameters and keyword body args (not expressible
                      in the Lean wire syntax) interacting with buffering / caller / content (harness/c05_rich.py);
  oracle.decorators / corr.deco   "a decorator= wraps the call": decorators that TRANSFORM the arguments, top-level and
                      nested defs, every call path on which keywords reach the decorator; corr.deco: the real
                      runtime._decorate_toplevel / _decorate_inline vs the Lean model for 7 families x 70 argument lists
                      x 2 wrappers (harness/c05_deco.py);
  oracle.quirk.<name> one stream per code-generation quirk (QUIRK_STREAM).  For the RECORDED ones (call_expr_args =
                      F-C05-1b, return_in_buffered = F-C05-2) the generator knob is switched on - the main streams keep
                      away from them - and the oracle finds each on its own.  For the ones REPAIRED in /repo
                      (c05_gen.REPAIRED: nested_def_caller, decorated_call_def, nested_call_def_export - the last one
                      runs fixed witnesses, QUIRK_WITNESSES) the stream is a regression detector: the feature is part of
                      the main streams too, nothing is expected, and a violation is an unknown one.
FIXED_SETS (defs of a <%call> below a control line and in a nested <%call>; blocks and an include; buffered blocks) run
through every stream above in two surface styles with 6 crash points; they are the trees of the non-vacuity examples
of Props/C05.lean, kept inside the generator's grammar.
Every violation is shrunk (tree reduction with gen_template.shrinks' candidates) and classified by a *necessary feature*
test: a recorded quirk feature is present in the minimal tree AND neutralising it makes the failure disappear;
everything else is `render-differs-from-reference` / the identity site, i.e. an unknown violation.
"""
from __future__ import annotations

import copy
import json
import time

from harness import gen_template as G
from harness import ref_render as RR
from harness import target_canon as TC
from harness import tmpl_rt as rt
from harness import c05_gen as CG
from harness import c05_surface as SF
from harness import c05_rt
from harness.props import C13

RULE = ("template sets (1-2 templates, the second one included by the first) from harness/c05_gen.py: top-level and "
        "nested defs (plain / buffered / filter-only / decorated / cached and combinations); 'wrapper' defs using "
        "caller.body(args) zero, one or several times (in % for, % if) and caller.<nested def>(); <%call expr args> "
        "sites supplying matching body args and the nested defs the callee asks for (directly in the content, below "
        "its control lines, in nested <%call>s), nested to depth 4, in loops, in other defs, in call bodies; planted "
        "pattern caller.body() - call of another def - caller.body(); leaf defs called by name, capture(), inside "
        "concatenations, as arguments, buffered defs as values; <%block>s (anonymous anywhere, named at the top of a "
        "template - one planted there in a quarter of the templates - with buffered / filter=) and <%include>; three "
        "fixed witness sets (FIXED_SETS); each tree written in several surface styles (d(), self.d(), local.d(), "
        "<%call>, <%self:d attr=..>, <%local:d ..>); a case is non-trivial when a call with content runs its body at "
        "least once or a buffered/filtered/decorated/cached def is entered; distinct = distinct (template set, "
        "surface style, check).  Parameter defaults (harness/c05_defaults.py): expressions from a grammar of tuples "
        "of length 0/1/2, nested containers, operators, conditionals, lambdas, slices and quoted strings, in 3 "
        "declarations (positional, keyword-only after *, after *args) x 6 calling routes plus the body argument of a "
        "<%call> - all leaving the parameter to its default; value and type against a real "
        "Python function with the same signature text")
ASSUMPTIONS = [
    "templates are well-scoped, non-recursive, binders have unique names (gen_template invariants); the cache is a "
    "pass-through (cache_enabled=False; C17's subject); decorator bodies are user Python (a wrapping function)",
    "`caller` inside an anonymous <%block> is outside the quantifier (its grammar has defs and calls only): a block is "
    "a callable of its own, entered without content, so `caller` is None there - generator knob caller_in_block off",
    "a name bound by two `def` statements in one generated function has no behavioural effect and is only counted "
    "(branch closure-written-more-than-once): since /repo 4a9e6c6 that is the replacement callable "
    "write_cache_decorator writes after a cached nested def; the structural canonicaliser merges identical copies",
    "an anonymous <%block> reads parameters only (of enclosing defs, of <%call> bodies further out) - not the "
    "variables of a % for around it, not the body arguments of the <%call> it sits in; a named block reads no "
    "variables: the generator's grammar, which the fixed witness sets keep to",
    "variables of a <%call> body (its args=, its loop variables) are not visible to the defs of the same <%call> "
    "(they are siblings of body(), as documented); nested defs read def parameters of enclosing defs only",
    "argument evaluation order and exceptions are C13's business: crash point -1 plus a few crash points per set",
    "template sets whose reference render visits more than 30000 nodes (nested loops x repeated caller.body()) are "
    "skipped and counted (branch generator:too-expensive-to-render)",
]
TRUSTED_EXTRA = ["C05: harness/c05_gen.py (generator, quirk feature tests, construct statistics), "
                 "harness/c05_surface.py (surface styles, instrumentation), harness/c05_rt.py (probe, decorator "
                 "families), harness/c05_rich.py (rich signatures: expected values from Python's own argument "
                 "binding), harness/c05_deco.py (decorator oracle: the same Python decorator on a plain function), "
                 "harness/c05_attrs.py (attribute / signature ground truth: Python's re, repr, ast and def binding), "
                 "harness/c05_defaults.py (default values: a real Python function with the same signature text; "
                 "expression trees travel in C19's wire syntax, harness/props/C19.py wire_expr), "
                 "harness/ref_render.py (reference renderer = oracle), harness/target_canon.py, "
                 "harness/gen_template.py"]
DRIVER_OPS = ["tgt", "c05"]
REGEN = ["PyExpr"]      # Props/C05.lean reaches Generated/PyExpr.lean through Codegen/AttrsDefaults.lean (the printer model)
LEAN_EXTRA_TARGETS = ["MakoModel.Codegen.Spec"]

STYLES = [m for m in SF.MODES if m != "plain"]
MAX_REPORTS = 10

# recorded quirks: feature (harness/c05_gen.py) -> site name of the violation it explains
QUIRK_SITE = {
    "call-in-call-expr-args": "call-expr-args-disturb-nextcaller",
    "return-in-buffering-def": "return-in-buffered-def-loses-content",
    "caller-in-def-nested-in-call": "nested-def-in-call-sees-enclosing-caller",
    "decorated-def-in-call": "decorated-def-in-call-not-exported",
    "nested-call-def-reached-by-outer-callee": "nested-call-def-exported-to-outer-caller",
}
QUIRK_STREAM = {
    "call-in-call-expr-args": "oracle.quirk.call_expr_args",
    "return-in-buffering-def": "oracle.quirk.return_in_buffered",
    "caller-in-def-nested-in-call": "oracle.quirk.nested_def_caller",
    "decorated-def-in-call": "oracle.quirk.decorated_call_def",
    "nested-call-def-reached-by-outer-callee": "oracle.quirk.nested_call_def_export",
}


# --------------------------------------------------------------------------------------------- implementation

class Impl(C13.Impl):
    """one compiled template set in one surface style"""

    def __init__(self, bodies, style=None, buffer_filters=()):
        from mako.lookup import TemplateLookup
        self.bodies = bodies
        self.style = list(style or ("plain", 0))
        kw = {}
        if buffer_filters:
            kw["buffer_filters"] = ["flt%d" % i for i in buffer_filters]
        self.lk = TemplateLookup(cache_enabled=False, **kw)
        self.metas = []
        self.used = {}
        C13.Impl.serial += 1
        prefix = "c%d_" % C13.Impl.serial
        for i, b in enumerate(bodies):
            src, anon, used = SF.to_source(b, prefix, (self.style[0], self.style[1] + i))
            self.lk.put_string("%st%d.html" % (prefix, i), src)
            self.metas.append((src, anon))
            for k, v in used.items():
                self.used[k] = self.used.get(k, 0) + v
        self.ts = [self.lk.get_template("%st%d.html" % (prefix, i)) for i in range(len(bodies))]
        self._codes = [t.code for t in self.ts]

    def sources(self):
        return [m[0] for m in self.metas]

    def run(self, k, mode):
        try:
            return C13.Impl.run(self, k, mode)
        except RecursionError:
            # the grammar has no recursion: only a broken `caller` can make a template call itself for ever
            return {"res": "exc:recursion", "out": None, "nb": -1, "nf": -1, "nc": -1, "cnt": rt.STATE.cnt,
                    "same_object": None, "user_out": None}


class TooBig(Exception):
    """the template set renders more than STEP_LIMIT nodes (nested loops x repeated caller.body()): skipped"""


STEP_LIMIT = 30000
MODEL_STEP_LIMIT = 4000     # longer renders are judged by the oracle only (structure is still compared)


class Ref(RR.Ref):
    steps = 0

    def node(self, n, env, tmpl):
        self.steps += 1
        if self.steps > STEP_LIMIT:
            raise TooBig()
        return RR.Ref.node(self, n, env, tmpl)


def expected(bodies, k=-1, opts=None):
    opts = opts or {}
    r = Ref(bodies, k, strict_pending=True, buffer_filters=opts.get("buffer_filters") or ())
    x = r.render()
    res = {"ok": "val", "boom": "exc:0", "error": "exc:other"}[x["outcome"]]
    return {"res": res, "out": x["output"], "cnt": r.cnt, "steps": r.steps}


def render_site(r, e):
    """judge one run of the implementation against the reference"""
    if (r["res"], r["out"]) != (e["res"], (e["out"] or "") + "|A"):
        return "render-differs-from-reference", {"impl": {k: r[k] for k in ("res", "out")}, "expected": e}
    if (r["nb"], r["nf"], r["nc"]) != (1, 0, 0):
        return "stacks-not-restored-after-render", {"impl": {k: r[k] for k in ("res", "nb", "nf", "nc")}}
    if r["user_out"] != r["out"]:
        return "output-not-in-callers-buffer", {"impl": r}
    return None, None


def check_render(bodies, style, opts=None, k=-1):
    try:
        impl = Impl(bodies, style, (opts or {}).get("buffer_filters") or ())
    except Exception as ex:      # noqa
        return "template-does-not-compile", {"error": "%s: %s" % (type(ex).__name__, str(ex)[:300])}, None, None, None
    r = impl.run(k, {})
    e = expected(bodies, k, opts)
    site, detail = render_site(r, e)
    return site, detail, impl, r, e


def check_identity(bodies, style, opts=None, want_output=True):
    """render the instrumented variant; -> (site, detail, stats)"""
    inst, sites = SF.instrument(bodies)
    impl = Impl(inst, style, (opts or {}).get("buffer_filters") or ())
    events = c05_rt.reset()
    try:
        r = impl.run(-1, {})
    finally:
        c05_rt.LOG.events = None
    site, detail, per_call = SF.check_events(events, sites)
    stats = {"per_call": per_call, "events": events, "res": r["res"]}
    if site is None and want_output:
        e = expected(bodies, -1, opts)
        s2, d2 = render_site(r, e)
        if s2:
            site, detail = s2, dict(d2, variant="instrumented")
    return site, detail, stats


# --------------------------------------------------------------------------------------------- classification

def lost_pending_caller(raw_site, detail):
    """the implementation fails (or leaves nextcaller / the caller stack changed) where the reference renders: the
    callee of a call with content did not get its caller"""
    d = detail or {}
    impl, exp = d.get("impl") or {}, d.get("expected") or {}
    if raw_site in ("nextcaller-left-set", "caller-changed-after-call", "stacks-not-restored-after-render"):
        return True
    return str(impl.get("res", "")).startswith("exc") and exp.get("res") == "val"


def classify(bodies, fails, allow):
    """necessary-feature test on a (minimal) failing set: (site of the recorded quirk, feature) or (None, None)"""
    present = CG.features(bodies)
    for f in CG.FEATURES:
        if not present.get(f):
            continue
        try:
            still = fails(CG.neutralise(bodies, f))
        except Exception:      # noqa
            still = True
        if not still:
            return QUIRK_SITE[f], f
    return None, None


def shrink(bodies, fails, max_tests):
    """tree reduction with gen_template.shrinks' candidates; unlike gen_template.shrink_set a successful step does
    not restart the sweep (candidates before the current position were just seen to be needed), so one pass is
    linear in the size of the set"""
    tests = 0
    pos = 0
    while tests < max_tests:
        found = False
        for j, cand in enumerate(G.shrinks(bodies)):
            if j < pos:
                continue
            tests += 1
            if tests > max_tests:
                break
            try:
                bad = G.closed(cand) and fails(cand)
            except Exception:      # noqa
                bad = False
            if bad:
                bodies, pos, found = cand, j, True
                break
        if not found:
            if pos == 0:
                break
            pos = 0
    return bodies


class Reporter:
    def __init__(self, ctx):
        self.ctx = ctx
        self.seen = set()
        self.n = 0

    def report(self, stream, raw_site, bodies, style, opts, check, detail, allow=()):
        """shrink, classify, report (once per (site, feature))"""
        ctx = self.ctx
        if self.n >= MAX_REPORTS:
            return
        opts = opts or {}

        def site_of(bs):
            if check == "render":
                return check_render(bs, style, opts)[0]
            return check_identity(bs, style, opts)[0]

        def fails(bs):
            # shrinking must not walk into a recorded quirk the original case did not have
            if set(CG.features(bs)) - set(allow) - set(CG.REPAIRED) or not CG.wellformed(bs):
                return False
            return site_of(bs) == raw_site

        def fails_plain(bs):
            return site_of(bs) == raw_site
        site, feature = classify(bodies, fails_plain, allow)
        if feature == "call-in-call-expr-args" and lost_pending_caller(raw_site, detail):
            site = "call-expr-args-lose-pending-caller"
        key = (site or raw_site, feature)
        if key in self.seen:
            ctx.branch("violation-duplicate:%s" % (site or raw_site))
            return
        self.seen.add(key)
        self.n += 1
        t0 = time.time()
        small = bodies
        try:
            small = shrink(copy.deepcopy(bodies), fails, 300 if ctx.quick else 900)
        except Exception:      # noqa
            small = bodies
        site2, feature2 = classify(small, fails_plain, allow)
        if site2 is not None or feature is None:
            site, feature = site2, feature2
        try:
            if check == "render":
                s3, d3 = check_render(small, style, opts)[:2]
            else:
                s3, d3 = check_identity(small, style, opts)[:2]
            if s3 == raw_site:
                detail = d3
        except Exception:      # noqa
            pass
        if feature == "call-in-call-expr-args" and lost_pending_caller(raw_site, detail):
            # the defect repaired by /repo 555117c: the callee of the <%call> is entered WITHOUT its caller (a nested
            # <%call> run during argument evaluation cleared nextcaller).  What remains recorded (F-C05-1b) is the
            # opposite direction: a def called while the caller is pending takes it for its own.
            site = "call-expr-args-lose-pending-caller"
        srcs = [SF.to_source(b, "", (style[0], style[1] + i))[0][len(rt.PRELUDE):] for i, b in enumerate(small)]
        case = {"input": "\n-----\n".join(srcs), "bodies": small, "k": -1, "style": list(style), "check": check,
                "opts": opts, "feature": feature, "raw_site": raw_site,
                "where": {"features_present": CG.features(small), "necessary_feature": feature}}
        ctx.log("violation %s (%s, %s) shrunk %d -> %d nodes in %.1fs" % (
            site or raw_site, stream, feature, sum(G.count_nodes(b) for b in bodies),
            sum(G.count_nodes(b) for b in small), time.time() - t0))
        ctx.violation(site or raw_site, case, detail, stream)


# --------------------------------------------------------------------------------------------- one template set

def flags_of(bodies):
    res = {}
    for b in bodies:
        for _, n in G.walk(b):
            if n[0] in ("def", "block"):
                res[n[1]] = n[3]
    return res


def record_coverage(ctx, bodies, stats, tag, style):
    """histograms + non-triviality from the instrumented run"""
    fl = flags_of(bodies)
    nontriv = False
    for c in stats["per_call"]:
        ctx.branch("bodies-per-call:%s" % ("0" if c == 0 else "1" if c == 1 else "many"))
        if c:
            nontriv = True
    for ev in stats["events"]:
        if ev[0] == "enter" and ev[1] in fl:
            f = fl[ev[1]]
            kind = "+".join([k for k in ("buffered", "cached", "deco") if f[k]] + (["filtered"] if f["filters"] else []))
            ctx.branch("entered-def:" + (kind or "plain"))
            if kind:
                nontriv = True
            if ev[2] is not None and ev[2] is not c05_rt.EMPTY:
                ctx.branch("entered-def-with-caller:" + (kind or "plain"))
    ctx.branch("outcome:" + stats["res"])
    if nontriv:
        ctx.nontriv((tag, tuple(style), "identity"))
    return nontriv


def static_coverage(ctx, bodies):
    for b in bodies:
        for kk, v in G.kinds(b).items():
            ctx.branch("node:" + kk, v)
        for kk, v in CG.call_nesting(b).items():
            ctx.branch(kk, v)
        for kk, v in CG.expr_forms(b).items():
            ctx.branch("form:" + kk, v)


def duplicate_closures(code):
    """how often one generated function binds the same name with two `def` statements (since /repo 4a9e6c6: the
    replacement callable after a cached nested def): no behavioural effect, counted for the evidence"""
    import ast
    n = 0
    def own_defs(stmts, acc):
        for c in stmts:
            if isinstance(c, ast.FunctionDef):
                acc.append(c.name)
            else:
                for field in ("body", "orelse", "finalbody"):
                    own_defs(getattr(c, field, None) or [], acc)
                for h in getattr(c, "handlers", None) or []:
                    own_defs(h.body, acc)
        return acc
    for fn in ast.walk(ast.parse(code)):
        if isinstance(fn, ast.FunctionDef):
            names = [x for x in own_defs(fn.body, []) if x not in ("ccall", "body")]
            n += len(names) - len(set(names))
    return n


def pick_styles(ctx, n):
    r = ctx.rng
    return [("plain", 0)] + [(m, r.randrange(1 << 30)) for m in r.sample(STYLES, n)]


def oracle_set(ctx, rep, bodies, tag, s_render, s_ident, opts=None, allow=(), nstyles=2, sets=None, pending=None,
               crash_points=0):
    """all oracle checks of one template set (streams `s_render`, `s_ident`); queues correspondence work"""
    st_r = ctx.stream(s_render, "oracle")
    st_i = ctx.stream(s_ident, "oracle")
    styles = pick_styles(ctx, nstyles)
    bf = (opts or {}).get("buffer_filters") or ()
    try:
        e = expected(bodies, -1, opts)
    except TooBig:
        ctx.branch("generator:too-expensive-to-render")
        return
    first = True
    for style in styles:
        try:
            impl = Impl(bodies, style, bf)
        except Exception as ex:      # noqa
            # the generator keeps to what mako compiles (wellformed()): a template of the grammar that does not
            # compile is a failure of the property's subject, with a replay
            ctx.branch("uncompilable:%s:%s" % (style[0], type(ex).__name__))
            st_r["cases"] += 1
            rep.report(s_render, "template-does-not-compile", bodies, style, opts, "render",
                       {"error": "%s: %s" % (type(ex).__name__, str(ex)[:300])}, allow)
            continue
        r = impl.run(-1, {})
        st_r["cases"] += 1
        ctx.branch("style:" + style[0])
        for k, v in impl.used.items():
            ctx.branch("written:" + k, v)
        site, detail = render_site(r, e)
        if site:
            rep.report(s_render, site, bodies, style, opts, "render", detail, allow)
        if first:
            first = False
            dup = sum(duplicate_closures(c) for c in impl.codes())
            if dup:
                ctx.branch("closure-written-more-than-once(no-effect)", dup)
            # the public entry point gives the same text
            pub = impl.rerender()
            if pub[0] == "val" and r["res"] == "val" and pub[1] + "|A" != r["out"]:
                rep.report(s_render, "render-unicode-differs-from-render-context", bodies, style, opts, "render",
                           {"render_unicode": pub[1], "render_context": r["out"]}, allow)
        if sets is not None:
            sets.append((bodies, impl))
        if e["steps"] > MODEL_STEP_LIMIT:
            ctx.branch("behaviour-not-sent-to-lean(too-long)")      # the Lean interpreter is slow on long renders
        elif pending is not None and (style[0] == "plain" or ctx.rng.random() < 0.5):
            pending.append((bodies, -1, {"name": "caller"}, {"style": list(style)}, r))
            total = r["cnt"]
            if style[0] == "plain" and total and crash_points:
                for k in sorted(ctx.rng.sample(range(total), min(total, crash_points))):
                    rk = impl.run(k, {})
                    pending.append((bodies, k, {"name": "caller"}, {"style": list(style)}, rk))
                    ctx.branch("crash-point-runs")
    # caller identity (instrumented variant) in one of the styles
    style = styles[ctx.rng.randrange(len(styles))]
    try:
        site, detail, stats = check_identity(bodies, style, opts)
    except Exception as ex:      # noqa
        ctx.branch("generator:uncompilable-instrumented:" + type(ex).__name__)
        return
    st_i["cases"] += 1
    record_coverage(ctx, bodies, stats, tag, style)
    if site:
        rep.report(s_ident, site, bodies, style, opts, "identity", detail, allow)


# --------------------------------------------------------------------------------------------- streams

# fixed witnesses of the constructs the refinement was extended to (tree grammar: real mako, reference renderer, Lean
# pipeline and Lean specification all run them; the same trees are the non-vacuity examples of Props/C05.lean)
FIXED_SETS = [
    # defs of a <%call> below a control line (exported by that call) and in a nested <%call> (exported by the nested
    # call only - F-C05-5, repaired by 4a9e6c6; oracle.quirk.nested_call_def_export is its regression stream)
    ("call-defs-under-control-line-and-in-nested-call",
     [[["def", 1, [], G.FL(), [["text", "["], ["expr", ["caller", 5, [["lit", "p"]]], []], ["text", "|"],
                               ["expr", ["caller", 0, []], []], ["text", "]"]]],
       ["def", 2, [], G.FL(), [["text", "("], ["expr", ["caller", 7, []], []], ["text", ":"],
                               ["expr", ["caller", 0, []], []], ["text", ")"]]],
       ["call", ["call", 1, []], [],
        [["if", ["lit", "r"], [["def", 5, [5], G.FL(filters=[2]), [["text", "n"], ["expr", ["var", 5], []]]],
                               ["text", "X"]], []],
         ["call", ["call", 2, []], [], [["def", 7, [], G.FL(), [["text", "s"]]], ["text", "I"],
                                        ["expr", ["call", 7, []], []]]],
         ["text", "B"], ["expr", ["call", 5, [["lit", "q"]]], []]]]]]),
    # blocks (named at the top, anonymous in a loop with a loop of its own, anonymous in a def, buffered) and an include
    ("blocks-and-include",
     [[["def", 1, [1], G.FL(), [["text", "["], ["expr", ["var", 1], []], ["text", "]"]]],
       ["text", "a"],
       ["block", 11, False, G.FL(filters=[2]), [["text", "x"], ["expr", ["call", 1, [["lit", "q"]]], []]]],
       ["for", 3, [["lit", "7"], ["lit", "8"]],
        [["block", 12, True, G.FL(filters=[2]),
          [["for", 4, [["lit", "9"], ["lit", "p"]], [["expr", ["loopindex"], []], ["expr", ["var", 4], []]]]]]]],
       ["inc", 1],
       ["def", 2, [], G.FL(), [["text", "("], ["block", 13, True, G.FL(filters=[2]), [["expr", ["probe"], []]]],
                               ["text", ")"]]],
       ["expr", ["call", 2, []], []]],
      [["text", "I"], ["block", 14, False, G.FL(), [["text", "k"]]],
       ["block", 15, True, G.FL(buffered=True), [["text", "z"]]], ["text", "J"]]]),
    # a buffered block writes its content where it is placed (F-C06-4, repaired by 248d875: visitBlockTag writes
    # `__M_writer(<call> or '')`; the bare call dropped the returned content): anonymous, named, with filter=, inside a
    # def, inside a loop
    ("buffered-blocks",
     [[["def", 1, [1], G.FL(), [["text", "("], ["block", 21, True, G.FL(buffered=True), [["text", "d"], ["expr", ["var", 1], []]]],
                                ["text", ")"]]],
       ["text", "a"],
       ["block", 22, True, G.FL(buffered=True), [["text", "X"]]],
       ["block", 23, False, G.FL(buffered=True, filters=[1]), [["text", "Y"], ["expr", ["boom"], []]]],
       ["for", 3, [["lit", "7"], ["lit", "8"]],
        [["block", 24, True, G.FL(buffered=True, filters=[2, 0]), [["text", "l"], ["expr", ["probe"], []]]]]],
       ["expr", ["call", 1, [["lit", "p"]]], []],
       ["text", "b"]]]),
]


# F-C05-5 (repaired by /repo 4a9e6c6; regression witnesses): the defs of a <%call> nested in the content of another
# <%call> were written into the OUTER ccall too (DefVisitor's default traversal descended into the nested tag and into
# the nodes the lexer hangs under a control line): the outer callee reached them as caller.<name>
QUIRK_WITNESSES = {
    "nested-call-def-reached-by-outer-callee": [
        [[["def", 1, [], G.FL(), [["text", "["], ["expr", ["caller", 7, []], []], ["text", "|"],
                                  ["expr", ["caller", 0, []], []], ["text", "]"]]],
          ["def", 2, [], G.FL(), [["text", "("], ["expr", ["caller", 0, []], []], ["text", ")"]]],
          ["call", ["call", 1, []], [],
           [["call", ["call", 2, []], [], [["def", 7, [], G.FL(), [["text", "inner"]]], ["text", "x"]]]]]]],
        [[["def", 1, [1], G.FL(buffered=True), [["expr", ["var", 1], []], ["expr", ["caller", 0, []], []]]],
          ["def", 2, [], G.FL(), [["text", "<"], ["expr", ["caller", 8, [["lit", "p"]]], [3]], ["text", ">"]]],
          ["for", 3, [["lit", "7"], ["lit", "8"]],
           [["call", ["call", 2, []], [],
             [["text", "o"],
              ["if", ["var", 3], [["call", ["call", 1, [["var", 3]]], [],
                                   [["def", 8, [4], G.FL(filters=[1]), [["text", "n"], ["expr", ["var", 4], []]]],
                                    ["text", "y"]]]], []]]]]]]],
    ],
}


def main_knobs(ctx):
    K = CG.Knobs
    return [
        # name, knobs, sets quick / thorough
        ("mixed", K(), 34, 420),
        ("calls-deep", K(constructs={"text": 4, "expr": 5, "if": 1, "for": 1.5, "def": 2, "call": 8, "try": 0.3,
                                     "block": 0.3}, max_depth=7, budget=52), 16, 220),
        ("loops-and-flags", K(constructs={"text": 4, "expr": 6, "for": 4, "if": 2, "def": 3, "call": 4, "while": 0.5,
                                          "brk": 0.5, "cont": 0.3, "ret": 0.2, "block": 0.8, "texttag": 0.4},
                              p_pattern=0.8), 14, 200),
        ("two-templates", K(templates=(2, 2), constructs={"text": 4, "expr": 5, "inc": 2.5, "def": 2.5, "call": 4,
                                                          "for": 1, "if": 1}), 5, 70),
    ]


def quirk_knobs(ctx):
    K = CG.Knobs
    small = dict(budget=26, max_depth=5)
    return [
        ("call-in-call-expr-args", K(allow=("call-in-call-expr-args",), force="call-in-call-expr-args", probe=False,
                                     **small), 10, 60),
        ("return-in-buffering-def", K(allow=("return-in-buffering-def",), force="return-in-buffering-def",
                                      **small), 6, 40),
        ("caller-in-def-nested-in-call", K(allow=("caller-in-def-nested-in-call",),
                                           force="caller-in-def-nested-in-call", **small), 8, 50),
        ("decorated-def-in-call", K(allow=("decorated-def-in-call",), force="decorated-def-in-call", **small), 6, 40),
    ]


def run_oracles(ctx, sets, pending):
    rep = Reporter(ctx)
    ctx.stream("oracle.render", "oracle")
    ctx.stream("oracle.caller_identity", "oracle")
    n = 0
    for name, knobs, nq, nt in main_knobs(ctx):
        for _ in range(nq if ctx.quick else nt):
            bodies = CG.Gen(ctx.rng, knobs).template_set()
            static_coverage(ctx, bodies)
            ctx.branch("stream:" + name)
            oracle_set(ctx, rep, bodies, n, "oracle.render", "oracle.caller_identity", nstyles=2 if ctx.quick else 3,
                       sets=sets, pending=pending, crash_points=2 if ctx.quick else 5)
            if n == 0:
                ctx.sample({"template": SF.to_source(bodies[0], "", ("mixed", 1))[0][len(rt.PRELUDE):][:500],
                            "styles": list(SF.MODES)})
            n += 1
        ctx.log("oracle %s: %d sets so far, %d renders, %d violations" % (
            name, n, ctx.streams["oracle.render"]["cases"], len(ctx.violations)))
    for name, bodies in FIXED_SETS:
        before = len(sets)
        static_coverage(ctx, bodies)
        oracle_set(ctx, rep, copy.deepcopy(bodies), "fixed:" + name, "oracle.render", "oracle.caller_identity",
                   nstyles=2, sets=sets, pending=pending, crash_points=6)
        ctx.branch("fixed:" + name)
        if len(sets) == before:
            ctx.broke("oracle.fixed:" + name, "fixed witness did not compile or was not rendered")
    # Template(buffer_filters=…)
    k = CG.Knobs(p_flag=0.5)
    for _ in range(10 if ctx.quick else 120):
        bodies = CG.Gen(ctx.rng, k).template_set()
        bf = [ctx.rng.randrange(6) for _ in range(ctx.rng.choice([1, 1, 2]))]
        oracle_set(ctx, rep, bodies, n, "oracle.buffer_filters", "oracle.buffer_filters",
                   opts={"buffer_filters": bf}, nstyles=1)
        n += 1
    ctx.log("oracle.buffer_filters: %d sets" % ctx.streams["oracle.buffer_filters"]["cases"])
    # one stream per recorded quirk
    for feature, knobs, nq, nt in quirk_knobs(ctx):
        stream = QUIRK_STREAM[feature]
        ctx.stream(stream, "oracle")
        hit = 0
        for _ in range(nq if ctx.quick else nt):
            bodies = CG.Gen(ctx.rng, knobs).template_set()
            if CG.features(bodies).get(feature):
                hit += 1
                ctx.branch("quirk-present:" + feature)
            before = len(ctx.violations)
            oracle_set(ctx, rep, bodies, n, stream, stream, allow=(feature,), nstyles=1)
            n += 1
            if len(ctx.violations) > before:
                ctx.branch("quirk-found:" + feature)
        ctx.log("%s: %d sets (%d with the feature), violations so far %d" % (
            stream, nq if ctx.quick else nt, hit, len(ctx.violations)))
    for feature, witnesses in sorted(QUIRK_WITNESSES.items()):
        stream = QUIRK_STREAM[feature]
        ctx.stream(stream, "oracle")
        hit = 0
        before0 = len(ctx.violations)
        for bodies in witnesses:
            bodies = copy.deepcopy(bodies)
            if CG.features(bodies).get(feature):
                hit += 1
                ctx.branch("quirk-present:" + feature)
            before = len(ctx.violations)
            oracle_set(ctx, rep, bodies, n, stream, stream, allow=(feature,), nstyles=2)
            n += 1
            if len(ctx.violations) > before:
                ctx.branch("quirk-found:" + feature)
        ctx.log("%s: %d fixed witnesses (%d with the feature), violations %d" % (
            stream, len(witnesses), hit, len(ctx.violations) - before0))
    # rich signatures
    from harness import c05_rich
    c05_rich.run(ctx)
    coverage_summary(ctx)


def structural(ctx, drv, sets):
    """C13's structural comparison, every compiled surface style; the case carries the style"""
    st = ctx.stream("corr.structural")
    reqs, cases = [], []
    for bodies, impl in sets:
        for i, b in enumerate(bodies):
            reqs.append("tgt gen " + G.to_wire(b))
            cases.append((bodies, i, impl))
    outs = drv.ask_many(reqs)
    for (bodies, i, impl), o in zip(cases, outs):
        st["cases"] += 1
        src, anon = impl.metas[i]
        case = {"input": src[len(rt.PRELUDE):], "bodies": bodies, "template": i, "style": impl.style}
        try:
            py = TC.from_python(impl.codes()[i], anon)
        except TC.CanonError as ex:
            ctx.disagree("corr.structural", dict(case, what="real code not understood"), None, str(ex))
            continue
        try:
            ln = TC.from_lean(o)
        except Exception as ex:      # noqa
            ctx.disagree("corr.structural", dict(case, what="model answer not understood"), o[:300], str(ex))
            continue
        if py != ln:
            a, b2 = C13.first_diff(py, ln)
            ctx.disagree("corr.structural", case, b2, a)
        ctx.branch("structural:" + impl.style[0])
        for s in C13.count_shapes(py):
            ctx.branch("shape:" + s)


def coverage_summary(ctx):
    """the distribution of what was generated and run, so that thin coverage is visible in the log"""
    b = ctx.branches

    def group(prefix, strip=True):
        items = sorted((k, v) for k, v in b.items() if k.startswith(prefix))
        return " ".join("%s=%d" % (k[len(prefix):] if strip else k, v) for k, v in items) or "-"
    depth = {}
    where = {}
    for k, v in b.items():
        if k.startswith("call@depth"):
            d, w = k[len("call@depth"):].split(":")
            depth[d] = depth.get(d, 0) + v
            where[w] = where.get(w, 0) + v
    ctx.log("coverage: <%%call> nesting depth %s; written in %s" % (
        " ".join("%s=%d" % i for i in sorted(depth.items())), " ".join("%s=%d" % i for i in sorted(where.items()))))
    ctx.log("coverage: caller.body() runs per call with content: " + group("bodies-per-call:"))
    ctx.log("coverage: defs entered (instrumented runs), by flags: " + group("entered-def:"))
    ctx.log("coverage: ... of these with a caller: " + group("entered-def-with-caller:"))
    ctx.log("coverage: call forms: " + group("form:"))
    ctx.log("coverage: surface styles rendered: " + group("style:") + "; written: " + group("written:"))
    ctx.log("coverage: outcomes " + group("outcome:") + "; skipped " + group("generator:"))


def corr_streams(ctx, sets, pending):
    drv = ctx.driver()
    structural(ctx, drv, sets)
    ctx.log("corr.structural: %d templates" % ctx.streams["corr.structural"]["cases"])
    C13.behaviour(ctx, drv, pending)
    ctx.log("corr.behaviour: %d runs" % ctx.streams["corr.behaviour"]["cases"])
    seen = set()
    for bodies, k, _m, _w, _r in pending:
        key = json.dumps(bodies)
        if k == -1 and key not in seen:
            seen.add(key)
            for kk, v in CG.refinement_constructs(bodies).items():
                ctx.branch("corr-construct:" + kk, v)
    ctx.log("coverage: corr.behaviour / corr.spec template sets contain: " + (" ".join(
        "%s=%d" % (k[len("corr-construct:"):], v) for k, v in sorted(ctx.branches.items())
        if k.startswith("corr-construct:")) or "-"))


def attrs(ctx, what):
    try:
        from harness import c05_attrs
    except ImportError as ex:
        ctx.log("harness/c05_attrs.py not available (%s): attribute/signature streams skipped (%s)" % (ex, what))
        ctx.branch("c05_attrs:missing")
        return
    getattr(c05_attrs, what)(ctx)


def run(ctx):
    sets, pending = [], []
    from harness import c05_deco, c05_defaults
    try:
        run_oracles(ctx, sets, pending)
        c05_deco.oracle(ctx)
        attrs(ctx, "oracle")
        c05_defaults.oracle(ctx)
    finally:
        corr_streams(ctx, sets, pending)
        c05_deco.corr(ctx)
        attrs(ctx, "corr")
        c05_defaults.corr(ctx)


# --------------------------------------------------------------------------------------------- replay

def replay(ctx, data):
    case = data.get("case") or {}
    stream = data.get("stream") or ""
    if not case and data.get("first_disagreements"):
        d0 = data["first_disagreements"][0]
        case = d0.get("case") or {}
        stream = d0.get("stream") or ""
    if ".sig.default" in stream:                                     # harness/c05_defaults.py's streams
        from harness import c05_defaults
        if stream.startswith("corr."):
            print("signature:", case.get("input"))
            print("(correspondence: rerun the check; the model side is `c05 dsig`)")
            return False
        return c05_defaults.replay(ctx, case)
    if any(t in stream for t in (".attrs", ".sig", ".nsexpr")):      # harness/c05_attrs.py's streams
        from harness import c05_attrs
        return c05_attrs.replay_attrs(ctx, case)
    if isinstance(case, dict) and case.get("deco"):
        from harness import c05_deco
        return c05_deco.replay(ctx, case)
    if stream == "corr.deco":
        print("request:", case.get("input"))
        print("lean model:", ctx.driver().ask(case.get("input")))
        return False
    if isinstance(case, dict) and case.get("rich"):
        from harness import c05_rich
        return c05_rich.replay(ctx, case)
    bodies = case.get("bodies") if isinstance(case, dict) else None
    if not bodies:
        print("nothing to replay in", list(data))
        return False
    where = case.get("where") or {}
    style = case.get("style") or where.get("style") or ["plain", 0]
    opts = case.get("opts") or {}
    k = case.get("k", -1)
    print("surface style:", style, " options:", opts)
    try:
        impl = Impl(bodies, style, opts.get("buffer_filters") or ())
    except Exception as ex:      # noqa
        for i, b in enumerate(bodies):
            print("template %d:\n%s" % (i, SF.to_source(b, "", (style[0], style[1] + i))[0][len(rt.PRELUDE):]))
        print("property violated: template-does-not-compile: %s: %s" % (type(ex).__name__, ex))
        return False
    for i, s in enumerate(impl.sources()):
        print("template %d:\n%s" % (i, s[len(rt.PRELUDE):]))
    r = impl.run(k, {})
    e = expected(bodies, k, opts)
    print("implementation:", json.dumps({kk: r[kk] for kk in ("res", "out", "nb", "nf", "nc", "cnt")}))
    print("reference     :", json.dumps(e))
    ok = True
    site, detail = render_site(r, e)
    if site and k == -1:
        print("property violated:", site, json.dumps(detail)[:600])
        ok = False
    try:
        s2, d2, _ = check_identity(bodies, style, opts)
        if s2:
            print("property violated (instrumented run):", s2, json.dumps(d2)[:600])
            ok = False
    except Exception as ex:      # noqa
        print("instrumented variant does not run:", repr(ex))
    try:
        mode = {"name": "caller"}
        print("lean model    :", C13.parse_model(ctx.driver().ask(C13.model_req("run", bodies, k, mode))))
        print("lean spec     :", C13.parse_model(ctx.driver().ask(C13.model_req("spec", bodies, k, mode))))
        py = TC.from_python(impl.codes()[case.get("template", 0)], impl.metas[case.get("template", 0)][1])
        ln = TC.from_lean(ctx.driver().ask("tgt gen " + G.to_wire(bodies[case.get("template", 0)])))
        print("structure     :", "same" if py == ln else "differs: %r" % (C13.first_diff(py, ln),))
    except Exception as ex:      # noqa
        print("lean model unavailable:", ex)
    return ok
