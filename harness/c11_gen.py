"""Generator for C11: well-formed templates with a record of every *site* at which one fault can be planted, and
the planting itself with its ground truth.

A base template is built by appending text to a buffer; while it is built every construct records its offsets:

  python sites   label, node_start (offset the node begins at), code span [code_start, code_end), the offsets of
                 the binary `+` operators inside the code (one or more per code line).  A Python fault replaces one
                 `+` by `+ =`: CPython blames the `=`, which is on the same line.
  tags           keyword, start, end of the opening tag, span of the closing tag, attribute spans, enclosing tags
  control blocks keyword, span of the opening line, of every ternary line and of the end line, enclosing controls
  gaps           line starts at which a whole line can be inserted, with the enclosing tag / control stacks
  expr / block ends   for the unterminated-construct faults

Everything is derived from offsets in the final text, so CRLF, indentation, leading blank lines, multi-line
constructs and preceding multi-line text need no special treatment: line/column of an offset are recomputed from the
mutated text (`line_of`, `col_of`).  A line ends at "\n" (as for mako's lexer); control-line constructs begin at the
start of their line (the lexer's regex includes the indentation).
"""
from __future__ import annotations

TEXT_WORDS = ["lorem", "ipsum", "dolor", "sit", "amet", "x < y", "a & b", "100 %", "# not a comment", "$ 5", "été",
              "世界", "<b>bold</b>", "back\\slash", "semi;colon", "q?", "(paren)", "[brk]", "it's", 'say "hi"']
OPERANDS = ["a", "b", "v1", "v2", "1", "22", "len(a)", "'s'", "b[0]", "a.attr", "(1, 2)[0]", "f(a, b)"]
OPERANDS_NQ = [o for o in OPERANDS if "'" not in o and '"' not in o]
OPERANDS_MOD = ["1", "22", "(1, 2)[0]", "len('ab')", "3", "K0"]
FILTERS = ["h", "trim", "u", "n", "x", "str"]


def line_of(src, off):
    return 1 + src.count("\n", 0, off)


def col_of(src, off):
    return off - src.rfind("\n", 0, off)        # 1-based; rfind = -1 on the first line


class Base:
    """a generated well-formed template and its sites"""

    def __init__(self, src, nl, py, tags, ctls, gaps, exprs, blocks):
        self.src, self.nl = src, nl
        self.py, self.tags, self.ctls, self.gaps, self.exprs, self.blocks = py, tags, ctls, gaps, exprs, blocks


class Gen:
    def __init__(self, rng, nl="\n", size=6, depth=2):
        self.rng = rng
        self.nl = nl
        self.size = size
        self.maxdepth = depth
        self.buf = []
        self.n = 0
        self.py, self.tags, self.ctls, self.gaps, self.exprs, self.blocks = [], [], [], [], [], []
        self.tagstack = []      # keywords
        self.ctlstack = []      # keywords
        self.uid = 0
        self.have_page = False
        self.have_text_tag = False
        self.bol = True
        self.modmode = False

    # ------------------------------------------------------------------ primitives
    def emit(self, s):
        off = self.n
        if s:
            self.buf.append(s)
            self.n += len(s)
            self.bol = s.endswith("\n")
        return off

    def fresh(self):
        self.uid += 1
        return self.uid

    def newline_if_needed(self):
        if not self.bol:
            self.emit(self.nl)

    def gap(self):
        """the cursor is at a line start between two items: a whole line can be inserted here"""
        assert self.bol
        self.gaps.append({"off": self.n, "tags": list(self.tagstack), "ctls": list(self.ctlstack)})

    def indent(self, lo=0, hi=6):
        r = self.rng
        k = r.choice([0, 0, 1, 2, 4, r.randint(lo, hi)])
        return (" " * k) if r.random() < 0.85 else "\t" * min(k, 2)

    # ------------------------------------------------------------------ python text
    def pysum(self, nlines, cont_indent="    ", breaker=None, noquote=False):
        if self.modmode:
            return self._pysum(nlines, cont_indent, breaker, OPERANDS_MOD)
        return self._pysum(nlines, cont_indent, breaker, OPERANDS_NQ if noquote else OPERANDS)

    def _pysum(self, nlines, cont_indent, breaker, operands):
        """`o + o + o` over `nlines` lines.  Returns (text, [relative offsets of the `+`]).  Lines are joined by
        `breaker` + newline (`breaker` = '' inside brackets, ' \\' for a backslash continuation)."""
        r = self.rng
        out = []
        plus = []
        pos = 0
        for i in range(nlines):
            nops = r.randint(2, 3)
            parts = []
            for j in range(nops):
                parts.append(r.choice(operands))
            line = ""
            for j, p in enumerate(parts):
                if j:
                    plus.append(pos + len(line) + 1)
                    line += " + "
                line += p
            if i < nlines - 1:
                plus.append(pos + len(line) + 1)
                line += " +" + (breaker or "") + self.nl + cont_indent
            out.append(line)
            pos += len(line)
        return "".join(out), plus

    def add_py(self, label, node_start, code_start, text, plus_rel, **extra):
        site = {"label": label, "node_start": node_start, "code_start": code_start, "code_end": code_start + len(text),
                "plus": [code_start + p for p in plus_rel]}
        site.update(extra)
        self.py.append(site)
        return site

    # ------------------------------------------------------------------ items
    def text_run(self):
        r = self.rng
        n = r.choice([1, 1, 2, 3, 5])
        for i in range(n):
            words = [r.choice(TEXT_WORDS) for _ in range(r.randint(1, 4))]
            line = " ".join(words)
            if self.bol and (line.lstrip().startswith("%") or line.lstrip().startswith("##")):
                line = "t " + line
            self.emit(line)
            if i < n - 1 or r.random() < 0.7:
                self.emit(self.nl)
                if r.random() < 0.15:
                    self.emit(self.nl)          # an empty line

    def expression(self):
        r = self.rng
        start = self.emit("${")
        lead = r.choice(["", " ", " ", self.nl + "  ", self.nl + self.nl + "\t", "  " + self.nl + self.nl + self.nl + "    "])
        self.emit(lead)
        nlines = r.choice([1, 1, 1, 2, 3])
        if nlines == 1:
            code, plus = self.pysum(1)
            cs = self.emit(code)
        else:
            body, plus = self.pysum(nlines, cont_indent=r.choice(["", "  ", "      "]))
            self.emit("(")
            cs = self.n
            self.emit(body + ")")
            code = body
        # the raw code string starts directly after "${" (leading whitespace included)
        raw_start = start + 2
        trail = r.choice(["", "", " ", "  ", self.nl, " " * 14, self.nl + self.nl + "      ", self.nl + " " * 9 + self.nl + " " * 11])
        self.emit(trail)
        raw_end = self.n
        site = {"label": "expr", "node_start": start, "code_start": raw_start, "code_end": raw_end,
                "plus": [cs + p for p in plus]}
        self.py.append(site)
        has_filter = r.random() < 0.45
        flat = has_filter and self.n - start < 60 and "".join(self.buf[-6:]).count("\n") == 0
        bar = None
        if has_filter:
            bar = self.emit("|")
            flead = r.choice(["", " ", " ", self.nl + "   ", " " + self.nl + self.nl + " "])
            if r.random() < 0.4:
                flead = " "
            fstart = self.n
            self.emit(flead)
            plus_abs = []
            if r.random() < 0.45:
                # a multi-line filter list: several filters on several lines, a short first line, and the closing
                # brace on a line of its own after (long) indentation
                # (a filter on a new line must start in column 1: the list is parsed as Python statements, an
                # indented continuation outside brackets is an IndentationError)
                nfl = r.randint(2, 4)
                ind = ""
                for i in range(nfl):
                    kind = r.choice(["name", "call", "call", "multi"]) if i else r.choice(["name", "short", "call", "shortmulti"])
                    if kind == "name":
                        self.emit(r.choice(FILTERS))
                    elif kind == "short":
                        self.emit("f(")
                        cs = self.n
                        self.emit("1 + 2)")
                        plus_abs.append(cs + 2)
                    elif kind == "shortmulti":
                        self.emit("f(")
                        cs = self.n
                        self.emit("1 +" + self.nl + r.choice(["", "   ", "\t"]) + "2 + 3)")
                        plus_abs += [cs + 2, self.n - 4]
                    elif kind == "call":
                        self.emit("fl(")
                        body, plus = self.pysum(1)
                        cs = self.emit(body)
                        plus_abs += [cs + p_ for p_ in plus]
                        self.emit(")")
                    else:
                        self.emit("fl(")
                        body, plus = self.pysum(2, cont_indent=r.choice(["", "   ", "        "]))
                        cs = self.emit(body)
                        plus_abs += [cs + p_ for p_ in plus]
                        self.emit(")")
                    if i < nfl - 1:
                        self.emit("," + self.nl + ind)
                if not plus_abs:
                    self.emit("," + self.nl + ind + "fl(")
                    body, plus = self.pysum(1)
                    cs = self.emit(body)
                    plus_abs += [cs + p_ for p_ in plus]
                    self.emit(")")
                self.emit(r.choice(["", " ", self.nl, self.nl + " " * 8, self.nl + " " * 16, "  " + self.nl + self.nl + " " * 12,
                                    " " * 20]))
            else:
                names = [r.choice(FILTERS) for _ in range(r.randint(0, 2))]
                pre = "".join(n_ + ", " for n_ in names)
                self.emit(pre)
                fl = r.choice([1, 1, 2])
                body, plus = self.pysum(fl, cont_indent="     ") if fl > 1 else self.pysum(1)
                self.emit("fl(")
                cs = self.n
                self.emit(body + ")")
                plus_abs = [cs + p_ for p_ in plus]
                self.emit(r.choice(["", " ", self.nl + " ", self.nl + " " * 14]))
            fend = self.n
            self.py.append({"label": "filter", "node_start": start, "code_start": fstart, "code_end": fend,
                            "plus": plus_abs, "bar": bar})
        close = self.emit("}")
        self.exprs.append({"start": start, "close": close, "bar": bar})

    def code_block(self, module=False):
        r = self.rng
        inline = r.random() < 0.25
        if not inline:
            self.newline_if_needed()
            self.gap()
            self.emit(self.indent())
        start = self.emit("<%!" if module else "<%")
        raw_start = self.n
        plus_all = []
        self.modmode = module
        try:
            return self._code_block_body(module, inline, start, raw_start, plus_all)
        finally:
            self.modmode = False

    def _code_block_body(self, module, inline, start, raw_start, plus_all):
        r = self.rng
        if inline:
            self.emit(" ")
            if module:
                self.emit("K0 = 7; ")
            body, plus = self.pysum(1)
            self.emit("v%d = " % self.fresh())
            cs = self.n
            self.emit(body)
            plus_all += [cs + p for p in plus]
            self.emit(r.choice([" ", "  ", ""]))
        else:
            margin = r.choice(["", "  ", "    ", "\t", "        "])
            for _ in range(r.choice([0, 1, 1, 2, 3])):         # leading blank lines (the first ends the tag's line)
                self.emit(r.choice(["", " ", "   "]) + self.nl)
            if module:
                self.emit(margin + "K0 = 5" + self.nl)
            nst = r.randint(1, 4)
            for i in range(nst):
                kind = r.choice(["assign", "assign", "multi", "if", "comment"] + ([] if module else ["triple"]))
                if kind == "assign":
                    self.emit(margin + "v%d = " % self.fresh())
                    body, plus = self.pysum(1)
                    cs = self.emit(body)
                    plus_all += [cs + p for p in plus]
                    self.emit(self.nl)
                elif kind == "multi":
                    self.emit(margin + "v%d = (" % self.fresh())
                    body, plus = self.pysum(r.randint(2, 3), cont_indent=margin + "      ")
                    cs = self.emit(body)
                    plus_all += [cs + p for p in plus]
                    self.emit(")" + self.nl)
                elif kind == "if":
                    self.emit(margin + "if ")
                    body, plus = self.pysum(1)
                    cs = self.emit(body)
                    plus_all += [cs + p for p in plus]
                    self.emit(":" + self.nl + margin + "    v%d = " % self.fresh())
                    body, plus = self.pysum(1)
                    cs = self.emit(body)
                    plus_all += [cs + p for p in plus]
                    self.emit(self.nl)
                elif kind == "comment":
                    self.emit(margin + "# a comment " + self.nl)
                    self.emit(margin + "v%d = " % self.fresh())
                    body, plus = self.pysum(1)
                    cs = self.emit(body)
                    plus_all += [cs + p for p in plus]
                    self.emit(self.nl)
                else:
                    self.emit(margin + 'v%d = """one' % self.fresh() + self.nl + "  two" + self.nl + margin + '""" + ')
                    body, plus = self.pysum(1)
                    cs = self.emit(body)
                    plus_all += [cs + p for p in plus]
                    self.emit(self.nl)
                if r.random() < 0.2:
                    self.emit(self.nl)
            # trailing whitespace before %> (possibly long: several blank / indented lines)
            for _ in range(r.choice([0, 0, 1, 2, 4])):
                self.emit(" " * r.choice([0, 2, 6, 12]) + self.nl)
            self.emit(r.choice(["", margin, " " * 10]))
        raw_end = self.n
        close = self.emit("%>")
        self.py.append({"label": "block", "node_start": start, "code_start": raw_start, "code_end": raw_end,
                        "plus": plus_all, "module": module})
        self.blocks.append({"start": start, "close": close})
        if not inline and r.random() < 0.8:
            self.emit(self.nl)

    def control_line(self, keyword, cond_kind):
        """one `% kw …:` line at the start of a line.  Returns the record of the line."""
        r = self.rng
        assert self.bol
        ls = self.emit(self.indent())
        self.emit("%" + r.choice(["", " ", " ", "  "]))
        ts = self.n
        rec = {"keyword": keyword, "line_start": ls, "text_start": ts}
        if cond_kind is None:
            self.emit(keyword + ":")
        else:
            if keyword == "for":
                self.emit("for v%d in " % self.fresh())
            elif keyword == "with":
                self.emit("with ")
            elif keyword == "except":
                self.emit("except ")
            else:
                self.emit(keyword + " ")
            ncont = 1 if keyword in ("elif", "except") else r.choice([1, 1, 1, 2, 3])
            if ncont == 1:
                body, plus = self.pysum(1)
                cs = self.emit(body)
            else:
                use_paren = r.random() < 0.4
                if use_paren:
                    self.emit("(")
                    body, plus = self.pysum(ncont, cont_indent=r.choice(["", "    ", "  "]), breaker=" \\")
                    cs = self.emit(body)
                    self.emit(")")
                else:
                    body, plus = self.pysum(ncont, cont_indent=r.choice(["", "    ", "\t"]), breaker=" \\")
                    cs = self.emit(body)
            if keyword == "with":
                self.emit(" as v%d" % self.fresh())
            self.emit(":")
            rec["plus"] = [cs + p for p in plus]
        if r.random() < 0.15:
            self.emit(r.choice(["  # note", " #c", "   "]))
        te = self.n
        self.emit(self.nl)
        rec["text_end"] = te
        rec["line_end"] = self.n
        if cond_kind is not None:
            self.py.append({"label": "ctl", "node_start": ls, "code_start": ts, "code_end": te, "plus": rec["plus"],
                            "keyword": keyword})
        return rec

    def end_line(self, keyword):
        r = self.rng
        assert self.bol
        ls = self.emit(self.indent())
        self.emit("%" + r.choice(["", " "]) + "end" + keyword)
        last = self.n
        self.emit(self.nl)
        return {"line_start": ls, "line_end": self.n, "text_end": last}

    def control(self, depth):
        r = self.rng
        self.newline_if_needed()
        self.gap()
        kw = r.choice(["if", "if", "for", "while", "try", "with"])
        rec = {"keyword": kw, "enclosing": list(self.ctlstack), "tags": list(self.tagstack), "ternaries": []}
        rec["open"] = self.control_line(kw, None if kw == "try" else "cond")
        self.ctlstack.append(kw)
        self.ctl_body(depth)
        if kw == "if":
            for _ in range(r.choice([0, 0, 1, 2])):
                self.newline_if_needed()
                rec["ternaries"].append(self.control_line("elif", "cond"))
                self.ctl_body(depth)
            if r.random() < 0.5:
                self.newline_if_needed()
                rec["ternaries"].append(self.control_line("else", None))
                self.ctl_body(depth)
        elif kw == "try":
            self.newline_if_needed()
            rec["ternaries"].append(self.control_line("except", "cond" if r.random() < 0.7 else None))
            self.ctl_body(depth)
        elif kw == "for" and r.random() < 0.2:
            self.newline_if_needed()
            rec["ternaries"].append(self.control_line("else", None))
            self.ctl_body(depth)
        self.newline_if_needed()
        self.ctlstack.pop()
        rec["end"] = self.end_line(kw)
        self.ctls.append(rec)

    def ctl_body(self, depth):
        r = self.rng
        self.gap()
        n = r.randint(1, 3)
        for _ in range(n):
            k = r.choice(["text", "text", "expr", "code", "ctl", "include"])
            if k == "text":
                self.text_run()
            elif k == "expr":
                self.expression()
                self.text_run() if r.random() < 0.5 else self.emit(self.nl)
            elif k == "code":
                self.code_block()
            elif k == "ctl" and depth < self.maxdepth:
                self.control(depth + 1)
            elif k == "include":
                self.tag("include", depth)
            else:
                self.text_run()
        self.newline_if_needed()
        self.gap()

    # ------------------------------------------------------------------ tags
    def attr_value_python(self, label, node_start, prefix, suffix, multi):
        """emit prefix + python + suffix as an attribute value (the quotes are emitted by the caller)"""
        r = self.rng
        self.emit(prefix)
        n = r.choice([2, 3]) if multi else 1
        if label in ("sigdef", "sigargs"):
            body, plus = self._pysum(n, r.choice(["", "   "]), None, ["1", "22", "(1, 2)[0]", "3", "0x1F"])
        else:
            body, plus = self.pysum(n, cont_indent=r.choice(["", "   "]), noquote=True)
        cs = self.emit(body)
        self.emit(suffix)
        return cs, body, plus

    def tag(self, keyword, depth):
        """emit one tag with attributes (and body + closing tag unless self-closing)"""
        r = self.rng
        multi_tag = r.random() < 0.4            # attributes on later lines
        multi_val = r.random() < 0.3            # attribute values spanning lines
        if r.random() < 0.5:
            self.newline_if_needed()
            self.gap()
            self.emit(self.indent())
        start = self.emit("<%" + keyword)
        rec = {"keyword": keyword, "start": start, "attrs": {}, "tags": list(self.tagstack), "ctls": list(self.ctlstack),
               "multi_tag": multi_tag}
        uid = self.fresh()
        attrs = []        # (name, builder)
        selfclose = False
        body = None

        def sep():
            if multi_tag:
                return r.choice([self.nl + "    ", self.nl, " " + self.nl + "\t", " "])
            return r.choice([" ", "  "])

        def plain(name, value):
            attrs.append((name, lambda: self.emit(value) and None))

        def py(name, label, prefix, suffix):
            def build():
                vstart = self.n
                cs, bodytxt, plus = self.attr_value_python(label, start, prefix, suffix, multi_val)
                # raw code span per label
                if label in ("sigdef",):
                    c0, c1 = vstart, self.n                      # the whole attribute value
                elif label in ("sigargs", "dummyargs", "callexpr", "arglist"):
                    c0, c1 = vstart, self.n
                else:                                           # attrexpr: between ${ and }
                    c0, c1 = vstart + prefix.index("${") + 2, self.n - len(suffix) + suffix.index("}")
                self.py.append({"label": label, "node_start": start, "code_start": c0, "code_end": c1,
                                "plus": [cs + p for p in plus], "tag": keyword, "attr": name})
            attrs.append((name, build))

        if keyword == "include":
            selfclose = True
            if r.random() < 0.4:
                py("file", "attrexpr", "/inc${(", ")}.html")
            else:
                plain("file", "/other%d.html" % uid)
            if r.random() < 0.5:
                py("args", "dummyargs", "x=", "")
        elif keyword == "namespace":
            plain("name", "ns%d" % uid)
            if r.random() < 0.45:
                body = "namespace"          # a namespace with defs of its own (multi-line body)
                if r.random() < 0.3:
                    plain("file", "/ns%d.html" % uid)
            else:
                selfclose = True
                if r.random() < 0.5:
                    py("file", "attrexpr", "/ns${(", ")}.html")
                else:
                    plain("file", "/ns%d.html" % uid)
        elif keyword == "inherit":
            selfclose = True
            if r.random() < 0.5:
                py("file", "attrexpr", "/base${(", ")}.html")
            else:
                plain("file", "/base.html")
        elif keyword == "page":
            selfclose = True
            if r.random() < 0.6:
                py("args", "sigargs", "p1, p2=", "")
            if r.random() < 0.4:
                py("expression_filter", "arglist", "h, fl(", ")")
            if r.random() < 0.3:
                py("cache_key", "attrexpr", "pk${(", ")}")
        elif keyword == "def":
            py("name", "sigdef", "d%d(q, r=" % uid, ")")
            if r.random() < 0.3:
                py("filter", "arglist", "trim, fl(", ")")
            if r.random() < 0.3:
                py("cache_key", "attrexpr", "${ (", ") }k")
            body = "def"
        elif keyword == "block":
            named = (not any(t in ("def", "call") for t in self.tagstack)) and r.random() < 0.7
            if named:
                plain("name", "blk%d" % uid)
                rec["name"] = "blk%d" % uid
                if r.random() < 0.3:
                    py("args", "sigargs", "k1, k2=", "")
            if r.random() < 0.3:
                py("filter", "arglist", "h, fl(", ")")
            if r.random() < 0.3:
                py("cache_key", "attrexpr", "${\n (", ") }")
            body = "block"
        elif keyword == "call":
            py("expr", "callexpr", "fn%d(" % uid, ")")
            if r.random() < 0.4:
                py("args", "sigargs", "c1, c2=", "")
            body = "call"
        elif keyword == "text":
            if r.random() < 0.4:
                py("filter", "arglist", "h, fl(", ")")
            body = "text"
        r.shuffle(attrs)
        for name, build in attrs:
            a0 = self.n
            self.emit(sep())
            self.emit(name + r.choice(["=", "=", " = ", "= "]))
            q = r.choice(['"', '"', "'"])
            self.emit(q)
            v0 = self.n
            build()
            v1 = self.n
            self.emit(q)
            rec["attrs"][name] = {"attr_start": a0, "attr_end": self.n, "val_start": v0, "val_end": v1}
        if multi_tag and r.random() < 0.5:
            self.emit(self.nl)
        rec["selfclose"] = selfclose
        if selfclose:
            self.emit(r.choice(["/>", " />"]))
            rec["open_end"] = self.n
            rec["close_start"] = rec["close_end"] = None
        else:
            self.emit(">")
            rec["open_end"] = self.n
            self.tagstack.append(keyword)
            if body == "text":
                self.emit(r.choice(["raw ${not <%an> expression", "plain" + self.nl + "% not a line" + self.nl, "x"]))
            elif body == "namespace":
                save = self.ctlstack
                self.ctlstack = []
                self.emit(self.nl)
                for _ in range(r.randint(1, 3)):
                    self.gap()
                    if r.random() < 0.5:
                        self.emit(r.choice(["ignored text", "  more ignored text"]) + self.nl)
                        self.gap()
                    self.emit(self.indent())
                    self.tag("def", depth + 1)
                    self.newline_if_needed()
                self.gap()
                self.ctlstack = save
            else:
                save = self.ctlstack
                self.ctlstack = []          # the lexer's control stack is not tied to tags, but generated bodies are closed
                self.body(depth + 1, inner=body)
                self.ctlstack = save
            self.tagstack.pop()
            rec["close_start"] = self.emit("</%" + keyword + ">")
            rec["close_end"] = self.n
        self.tags.append(rec)
        if r.random() < 0.6:
            self.emit(self.nl)

    def body(self, depth, inner=None):
        r = self.rng
        n = r.randint(1, max(1, self.size - 2 * depth))
        for _ in range(n):
            kinds = ["text", "text", "expr", "expr", "code", "ctl"]
            if depth < self.maxdepth:
                kinds += ["def", "block", "call"]
            if inner is None:
                kinds += ["include", "namespace", "modcode", "texttag", "comment", "doc"]
            k = r.choice(kinds)
            if self.bol:
                self.gap()
            if k == "text":
                self.text_run()
            elif k == "expr":
                self.expression()
            elif k == "code":
                self.code_block()
            elif k == "modcode":
                self.code_block(module=True)
            elif k == "ctl":
                self.control(0)
            elif k == "texttag":
                if not self.have_text_tag:
                    self.have_text_tag = True
                    self.tag("text", depth)
            elif k == "comment":
                self.newline_if_needed()
                self.emit(self.indent() + "## a comment ${not + parsed" + self.nl)
            elif k == "doc":
                self.emit("<%doc> anything ${ <% " + self.nl + " </%doc>")
            else:
                self.tag(k, depth)
        if self.bol:
            self.gap()

    def template(self):
        r = self.rng
        for _ in range(r.choice([0, 0, 1, 2, 3])):          # leading blank lines
            self.emit(r.choice(["", "  "]) + self.nl)
        if r.random() < 0.35:
            self.have_page = True
            self.tag("page", 0)
            self.newline_if_needed()
        if r.random() < 0.15:
            self.tag("inherit", 0)
            self.newline_if_needed()
        self.body(0)
        src = "".join(self.buf)
        return Base(src, self.nl, self.py, self.tags, self.ctls, self.gaps, self.exprs, self.blocks)


# ------------------------------------------------------------------------------------------------ faults

def _ins(src, off, s):
    return src[:off] + s + src[off:]


def _rep(src, a, b, s):
    return src[:a] + s + src[b:]


def _truth(src, off):
    return {"line": line_of(src, off), "col": col_of(src, off), "off": off}


# every structural fault class `structural_faults` can plant (the raise sites of mako map onto these: see
# `siteClassTable` in lean/MakoModel/ErrPos/Model.lean and the `raise-site` stream of harness/props/C11.py)
STRUCTURAL_CLASSES = (
    "unterminated-expr", "unterminated-filter", "unterminated-block", "unknown-tag", "invalid-tag-name",
    "illegal-attribute", "missing-attribute", "namespace-needs-name", "namespace-file-and-module", "missing-parenthesis",
    "block-signature", "attribute-no-expression", "anon-block-args", "closing-mismatch", "unclosed-tag",
    "unclosed-text-tag", "duplicate-block", "closing-without-opening", "no-starting-keyword", "keyword-mismatch",
    "illegal-ternary", "invalid-control-line", "fragment-not-partial", "unsupported-keyword", "anon-block-in-namespace",
    "import-star", "named-block-in-def", "named-block-in-call", "unterminated-control", "deep-nesting")

DEEP_TERMS = 700       # operands of the `+` chain planted by `deep_nesting_faults` (the identifier visitors recurse once or
                       # more per level; the interpreter's default recursion limit is 1000)


def deep_nesting_faults(base, rng):
    """Python that CPython's parser accepts but that is nested deeper than mako's identifier visitors can recurse:
    one long `+` chain in every Python-bearing construct.  Ground truth: where the construct begins."""
    out = []
    src = base.src
    for si, site in enumerate(base.py):
        if not site["plus"]:
            continue
        off = rng.choice(site["plus"])
        operand = "1" if site["label"] in ("sigdef", "sigargs") or site.get("module") else "a"
        new = _rep(src, off, off + 1, "+ " + (operand + " + ") * DEEP_TERMS)
        ns = site["node_start"]
        out.append({"cls": "deep-nesting", "label": site["label"], "src": new, "construct": _truth(new, ns),
                    "line": line_of(new, ns), "tag": site.get("tag"), "attr": site.get("attr"),
                    "keyword": site.get("keyword"), "site": si})
    return out


PY_LABELS = ("expr", "filter", "block", "ctl", "sigdef", "sigargs", "attrexpr", "callexpr", "dummyargs", "arglist")


def python_faults(base):
    """every (site, +) pair: one Python syntax error"""
    out = []
    src = base.src
    for si, site in enumerate(base.py):
        for pi, off in enumerate(site["plus"]):
            new = _rep(src, off, off + 1, "+ =")
            fault_off = off + 2
            ns = site["node_start"]
            raw = new[site["code_start"]: site["code_end"] + 2]
            # does the code string (after the whitespace the constructor or the lexer drops) start on the node's first line?
            lead = len(raw) - len(raw.lstrip()) if site["label"] in ("expr", "filter", "block", "attrexpr", "callexpr") else 0
            first = new.count("\n", ns, site["code_start"] + lead) == 0
            starts_first = new.count("\n", ns, site["code_start"]) == 0
            out.append({
                "cls": "python", "label": site["label"], "src": new,
                "construct": _truth(new, ns),
                "line": line_of(new, fault_off),
                "code_start": site["code_start"], "code_len": len(raw),
                "code_on_first_line": first, "raw_on_first_line": starts_first,
                "code_line": 1 + new.count("\n", site["code_start"], fault_off),      # 1-based line within the raw code
                "site": si, "plus": pi, "keyword": site.get("keyword"), "tag": site.get("tag"), "attr": site.get("attr"),
            })
    return out


def structural_faults(base, rng):
    """one structural fault at every candidate site.  `construct` is where the offending construct begins."""
    out = []
    src = base.src
    nl = base.nl

    def add(cls, new, off, **kw):
        d = {"cls": cls, "src": new, "construct": _truth(new, off), "line": line_of(new, off)}
        d.update(kw)
        out.append(d)

    # unterminated ${ / filter list / <%
    for e in base.exprs:
        if src.find("}", e["close"] + 1) < 0:
            new = _rep(src, e["close"], e["close"] + 1, "")
            if e["bar"] is not None:
                add("unterminated-filter", new, e["start"], bar=_truth(new, e["bar"]))
            elif new.find("|", e["start"]) < 0:
                add("unterminated-expr", new, e["start"])
    for b in base.blocks:
        if src.find("%>", b["close"] + 2) < 0:
            add("unterminated-block", _rep(src, b["close"], b["close"] + 2, ""), b["start"])
    # tags
    for ti, t in enumerate(base.tags):
        kw = t["keyword"]
        s0 = t["start"]
        # unknown tag
        bad = rng.choice(["foo", "defx", "Def", "blok"])
        add("unknown-tag", _rep(src, s0 + 2, s0 + 2 + len(kw), bad), s0, tag=kw)
        # a tag name with more than one colon (CompileException since /repo b7eeddc)
        add("invalid-tag-name", _rep(src, s0 + 2, s0 + 2 + len(kw), rng.choice(["ns:", "a.b:"]) + kw + ":x"), s0, tag=kw)
        # illegal attribute
        add("illegal-attribute", _ins(src, s0 + 2 + len(kw), " bogus='1'"), s0, tag=kw, multi_tag=t["multi_tag"])
        if t["attrs"]:
            last = max(t["attrs"].values(), key=lambda a: a["attr_end"])
            add("illegal-attribute", _ins(src, last["attr_end"], nl + "  zzz = \"2\""), s0, tag=kw, multi_tag=True)
        # missing attribute
        req = {"include": "file", "def": "name", "call": "expr", "inherit": "file"}.get(kw)
        if req and req in t["attrs"]:
            a = t["attrs"][req]
            add("missing-attribute", _rep(src, a["attr_start"], a["attr_end"], ""), s0, tag=kw)
        if kw == "namespace" and "file" in t["attrs"]:
            last = max(t["attrs"].values(), key=lambda a: a["attr_end"])
            add("namespace-file-and-module", _ins(src, last["attr_end"], rng.choice([" ", nl + "  "]) + "module='os.path'"),
                s0, tag=kw)
        if kw == "namespace" and "name" in t["attrs"]:
            a = t["attrs"]["name"]
            add("namespace-needs-name", _rep(src, a["attr_start"], a["attr_end"], ""), s0, tag=kw)
        if kw == "def":
            a = t["attrs"]["name"]
            add("missing-parenthesis", _rep(src, a["val_start"], a["val_end"], "plainname"), s0, tag=kw)
        if kw == "block" and "name" in t["attrs"]:
            a = t["attrs"]["name"]
            add("block-signature", _ins(src, a["val_end"], "(x)"), s0, tag=kw)
            add("attribute-no-expression", _rep(src, a["val_start"], a["val_end"], "b${1}"), s0, tag=kw)
        if kw == "block" and "name" not in t["attrs"] and not any(x in ("def", "call") for x in t["tags"]):
            add("anon-block-args", _ins(src, s0 + 2 + len(kw), " args='zz'"), s0, tag=kw)
        if not t["selfclose"]:
            cs, ce = t["close_start"], t["close_end"]
            other = "block" if kw != "block" else "def"
            if kw != "text":
                add("closing-mismatch", _rep(src, cs, ce, "</%" + other + ">"), cs, tag=kw)
                add("closing-mismatch", _rep(src, cs, ce, "</% " + kw + "x >"), cs, tag=kw)
            if not t["tags"] and (kw != "text"):
                add("unclosed-tag", _rep(src, cs, ce, ""), s0, tag=kw)
            if kw == "text":
                add("unclosed-text-tag", _rep(src, cs, ce, ""), s0, tag=kw)
            if kw == "block" and "name" in t["attrs"]:
                # a second block of the same name, later, at top level
                name = src[t["attrs"]["name"]["val_start"]: t["attrs"]["name"]["val_end"]]
                for g in base.gaps:
                    if g["off"] >= ce and not g["tags"] and not g["ctls"]:
                        ins = rng.choice(["", "   "]) + "<%block name=\"" + name + "\">dup</%block>" + nl
                        new = _ins(src, g["off"], ins)
                        add("duplicate-block", new, g["off"] + len(ins) - len(ins.lstrip()), tag=kw)
                        break
    # gaps: whole lines inserted
    for g in base.gaps:
        o = g["off"]
        ind = rng.choice(["", "", "  ", "\t"])
        if not g["tags"]:
            add("closing-without-opening", _ins(src, o, ind + "</%def>" + nl), o + len(ind))
        else:
            inner = g["tags"][-1]
            if inner != "text":
                other = "block" if inner != "block" else "def"
                add("closing-mismatch", _ins(src, o, ind + "</%" + other + ">" + nl), o + len(ind), tag=inner)
        if g["tags"] and g["tags"][-1] == "text":
            continue
        # control-line faults (a control line is the whole line: it begins at the line start)
        if not g["ctls"]:
            add("no-starting-keyword", _ins(src, o, ind + "% endif" + nl), o)
        else:
            top = g["ctls"][-1]
            wrong = "for" if top != "for" else "if"
            add("keyword-mismatch", _ins(src, o, ind + "% end" + wrong + nl), o, keyword=top)
            tern = {"if": "except", "for": "elif", "while": "else", "try": "elif", "with": "else"}[top]
            line = "% " + tern + (" v9:" if tern == "elif" else ":")
            add("illegal-ternary", _ins(src, o, ind + line + nl), o, keyword=top)
        add("invalid-control-line", _ins(src, o, ind + "% (a):" + nl), o)
        add("fragment-not-partial", _ins(src, o, ind + "% v7 = 1" + nl), o)
        add("unsupported-keyword", _ins(src, o, ind + "% until a:" + nl), o)
        if g["tags"] and g["tags"][-1] == "namespace":
            ins = ind + rng.choice(["<%block>anon</%block>", "<%block filter='h'>" + nl + "anon" + nl + "</%block>"]) + nl
            add("anon-block-in-namespace", _ins(src, o, ins), o + len(ind))
        blk = rng.choice(["<% from os import * %>", "<%" + nl + "    v0 = 1" + nl + "    from os.path import *" + nl + "%>",
                          "<%! from os import * %>"])
        add("import-star", _ins(src, o, ind + blk + nl), o + len(ind))
        if g["tags"] and g["tags"][-1] == "def":
            ins = ind + "<%block name='inner_blk'>z</%block>" + nl
            add("named-block-in-def", _ins(src, o, ins), o + len(ind))
        if g["tags"] and g["tags"][-1] == "call":
            ins = ind + "<%block name='inner_blk2'>z</%block>" + nl
            add("named-block-in-call", _ins(src, o, ins), o + len(ind))
    # control structures
    for c in base.ctls:
        op, en = c["open"], c["end"]
        kw = c["keyword"]
        wrong = "for" if kw != "for" else "while"
        add("keyword-mismatch", _rep(src, en["line_start"], en["line_end"], "% end" + wrong + nl), en["line_start"], keyword=kw)
        if not c["enclosing"]:
            add("unterminated-control", _rep(src, en["line_start"], en["line_end"], ""), op["line_start"], keyword=kw)
    return out


# faults that pass every check of lexer / parse tree / code generator and only surface when the generated MODULE is
# compiled
def module_level_faults(base, rng):
    out = []
    src, nl = base.src, base.nl
    for g in base.gaps:
        if g["tags"] and (g["tags"][-1] == "text" or "namespace" in g["tags"]):
            continue            # (what is written inside <%namespace> other than the defs' render code is not compiled)
        o = g["off"]
        ind = rng.choice(["", "  "])
        in_loop = any(k in ("for", "while") for k in g["ctls"])
        cands = [("module-block-return", ind + "<%! return %>" + nl, len(ind)),
                 ("expr-two-statements", ind + "${a; b}" + nl, len(ind)),
                 ("def-duplicate-argument", ind + "<%def name=\"dd(z, z)\"></%def>" + nl, len(ind))]
        if not in_loop:
            cands.append(("block-break-outside-loop", ind + "<% break %>" + nl, len(ind)))
        if not g["ctls"]:
            cands.append(("stray-ternary", ind + "% else:" + nl, 0))
        cls, ins, d = rng.choice(cands)
        if o == len(src) and rng.random() < 0.5:
            cls, ins, d = "expr-trailing-comment", ind + "${v1 # c}", len(ind)
        new = _ins(src, o, ins)
        out.append({"cls": "module-level", "sub": cls, "src": new, "construct": _truth(new, o + d),
                    "line": line_of(new, o + d)})
    return out


def gen_base(rng, size=6, depth=2, nl=None):
    if nl is None:
        nl = rng.choice(["\n", "\n", "\r\n"])
    return Gen(rng, nl=nl, size=size, depth=depth).template()
