"""Surface styles of the C05 generator: one template tree (harness/gen_template.py), several source texts.

A *style* is `[mode, seed]`:
  plain        the text harness/gen_template.py writes: `d3(a)`, `<%call expr="d3(a)" args="v7">…</%call>`
  self, local  calls of TOP-LEVEL defs of the same template through the namespace: `self.d3(a)`, `capture(local.d3, a)`
  nstag-self, nstag-local
               calls with content of top-level defs as `<%self:d3 v1="…" args="v7">…</%self:d3>` (self-closing when
               the body is empty): every argument becomes an ATTRIBUTE, by keyword, in parameter order - a literal as
               plain text, any other expression as `${…}`, a left-nested concatenation chain as the mixture
               `p${v}q` (adjacent / empty literal pieces are written `${'q'}`: the attribute text could not tell
               them apart)
  mixed        every site picks one of the above (seeded)
The tree, the wire syntax and the reference renderer are the same whatever the style.

`instrument(bodies)` adds the probe nodes of the caller-identity oracle (harness/c05_rt.py); `check_events`
judges the recorded events.
"""
from __future__ import annotations

import copy
import random

from harness import gen_template as G
from harness import c05_rt
from harness.tmpl_rt import PRELUDE

MODES = ("plain", "self", "local", "nstag-self", "nstag-local", "mixed")
TEMPLATE_ID = 2000000      # 'enter' probe of template i: TEMPLATE_ID + i


def top_level_defs(body):
    """{def id: params} of the defs that are top-level callables of the template: not inside any tag"""
    res = {}

    def go(b):
        for n in b:
            k = n[0]
            if k == "def":
                res[n[1]] = list(n[2])
            elif k in ("if", "for", "while", "try"):
                for slot in G.BODY_SLOTS[k]:
                    go(n[slot])
    go(body)
    return res


def pieces(e):
    """left-nested concatenation chain -> list of pieces"""
    if e[0] == "cat":
        return pieces(e[1]) + [e[2]]
    return [e]


def attr_text(e):
    """the attribute value that mako parses back into exactly the expression `e`"""
    ps = pieces(e)
    if len(ps) == 1 and ps[0][0] == "lit":
        return ps[0][1]                 # pure text (also the empty string: `v=""` is `''`)
    out = []
    prev_text = False
    for p in ps:
        if p[0] == "lit" and p[1] != "" and not prev_text:
            out.append(p[1])
            prev_text = True
        else:
            s = G.ex_src(p)
            assert '"' not in s and "}" not in s and "{" not in s, s
            out.append("${%s}" % s)
            prev_text = False
    return "".join(out)


class Hook:
    def __init__(self, body, mode, seed):
        assert mode in MODES, mode
        self.mode = mode
        self.top = top_level_defs(body)
        self.rng = random.Random(seed)
        self.used = {}          # what was actually written (coverage)

    def _count(self, what):
        self.used[what] = self.used.get(what, 0) + 1

    def _prefix(self):
        m = self.mode
        if m == "mixed":
            m = self.rng.choice(["plain", "self", "local"])
        if m in ("self", "local"):
            return m + "."
        return ""

    def ex(self, e):
        k = e[0]
        if k in ("call", "capture") and e[1] in self.top:
            p = self._prefix()
            if not p:
                return None
            self._count("expr:" + p + k)
            name = p + G.callable_name(e[1])
            if k == "call":
                return "%s(%s)" % (name, ", ".join(G.ex_src(a) for a in e[2]))
            return "capture(%s)" % ", ".join([name] + [G.ex_src(a) for a in e[2]])
        return None

    def node(self, s, n):
        if n[0] != "call":
            return False
        e = n[1]
        if e[0] != "call" or e[1] not in self.top:
            return False
        m = self.mode
        if m == "mixed":
            m = self.rng.choice(["plain", "plain", "nstag-self", "nstag-local"])
        if not m.startswith("nstag-"):
            return False
        ns = m[6:]
        params = self.top[e[1]]
        if len(params) != len(e[2]) or "args" in ["v%d" % p for p in params]:
            return False            # an arity error stays a positional call
        attrs = "".join(' v%d="%s"' % (p, attr_text(a)) for p, a in zip(params, e[2]))
        if n[2]:
            attrs += ' args="%s"' % ", ".join("v%d" % v for v in n[2])
        tag = "%s:d%d" % (ns, e[1])
        if not n[3] and self.rng.random() < 0.7:
            self._count("tag:" + ns + ":selfclosing")
            s.emit("<%%%s%s/>" % (tag, attrs))
            return True
        self._count("tag:" + ns)
        s.emit("<%%%s%s>" % (tag, attrs))
        for c in n[3]:
            G._node_src(s, c)
        s.emit("</%%%s>" % tag)
        return True


def has_cprobe(body):
    for _, n in G.walk(body):
        if n[0] == "expr" and n[1][0] == "cprobe":
            return True
    return False


def to_source(body, prefix="", style=None):
    """(source text, {anonymous block id: line}, hook.used)"""
    mode, seed = style or ("plain", 0)
    hook = Hook(body, mode, seed) if mode != "plain" else None
    old = G.SRC_HOOK
    G.SRC_HOOK = hook
    try:
        src, anon = G.to_source(body, prefix)
    finally:
        G.SRC_HOOK = old
    if has_cprobe(body):
        src = src[:len(PRELUDE)] + c05_rt.IMPORT + src[len(PRELUDE):]
    return src, anon, (hook.used if hook else {})


# --------------------------------------------------------------------------------------------- instrumentation

def _ex_has_call(e):
    k = e[0]
    if k in ("call", "capture", "caller"):
        return True
    if k == "cat":
        return _ex_has_call(e[1]) or _ex_has_call(e[2])
    if k == "filt":
        return _ex_has_call(e[2])
    return False


def instrument(bodies):
    """-> (instrumented copy, sites): sites[n] = {"kind": 'expr'|'call'|'ctl', "owner": id of the callable the site is
    written in (def/block id, TEMPLATE_ID + i for a template body)}"""
    sites = {}
    counter = [0]

    def probe(kind, n, with_caller=False):
        return ["expr", ["cprobe", kind, n, bool(with_caller)], []]

    def go(body, owner):
        out = []
        for n in body:
            k = n[0]
            n = list(n)
            wrap = None
            if k == "expr" and _ex_has_call(n[1]):
                wrap = "expr"
            elif k == "if":
                n[2] = go(n[2], owner)
                n[3] = go(n[3], owner)
                if _ex_has_call(n[1]):
                    wrap = "ctl"
            elif k == "for":
                n[3] = go(n[3], owner)
                if any(_ex_has_call(e) for e in n[2]):
                    wrap = "ctl"
            elif k == "while":
                n[2] = go(n[2], owner)
            elif k == "try":
                n[1] = go(n[1], owner)
                n[2] = go(n[2], owner)
            elif k in ("def", "block"):
                n[4] = [probe("enter", n[1])] + go(n[4], n[1])
            elif k == "call":
                counter[0] += 1
                sid = counter[0]
                sites[sid] = {"kind": "call", "owner": owner}
                n[3] = [probe("body", sid, True)] + go(n[3], owner)
                out += [probe("pre", sid), n, probe("post", sid)]
                continue
            if wrap:
                counter[0] += 1
                sid = counter[0]
                sites[sid] = {"kind": wrap, "owner": owner}
                out += [probe("pre", sid), n, probe("post", sid)]
            else:
                out.append(n)
        return out
    res = []
    for ti, b in enumerate(bodies):
        res.append([probe("enter", TEMPLATE_ID + ti)] + go(copy.deepcopy(b), TEMPLATE_ID + ti))
    return res, sites


def check_events(events, sites):
    """-> (violation site name | None, detail, bodies run per completed call-with-content instance).

    The events are replayed on a stack: `pre` pushes an open call-site instance, `enter` the activation of a
    callable (inside the instance that made the call), `post` pops back to its `pre` (whatever was abandoned by a
    `return` / an exception goes with it).  pre and post of one instance must show the same Context; at a `body`
    event the body's `caller` must be the frame of the innermost live activation of the callable the <%call> is
    written in."""
    stack = []               # ["pre", event, bodies run] | ["enter", owner id, frame on top of the caller stack]
    per_call = []
    bad = None

    def describe(ev):
        kind, n, top, depth, nxt, nbuf, _c = ev
        return {"probe": kind, "site": n, "top_of_caller_stack": _name(top), "caller_stack_depth": depth,
                "nextcaller": _name(nxt), "buffer_depth": nbuf}

    for ev in events:
        kind, n, top, depth, nxt, nbuf, cvar = ev
        if kind == "enter":
            stack.append(["enter", n, top])
        elif kind == "pre":
            stack.append(["pre", ev, 0])
        elif kind == "body":
            for rec in reversed(stack):
                if rec[0] == "pre" and rec[1][1] == n:
                    rec[2] += 1
                    break
            owner = sites.get(n, {}).get("owner")
            act = None
            for rec in reversed(stack):
                if rec[0] == "enter" and rec[1] == owner:
                    act = rec
                    break
            if bad is None and act is not None and cvar is not act[2]:
                bad = ("body-runs-with-another-caller",
                       {"site": n, "owner": owner, "caller_in_body": _name(cvar),
                        "caller_of_the_calling_scope": _name(act[2])})
        elif kind == "post":
            rec = None
            for i in range(len(stack) - 1, -1, -1):
                if stack[i][0] == "pre" and stack[i][1][1] == n:
                    rec = stack[i]
                    del stack[i:]
                    break
            if rec is None:
                continue
            pre = rec[1]
            if sites.get(n, {}).get("kind") == "call":
                per_call.append(rec[2])
            if bad is not None:
                continue
            if pre[2] is not top or pre[3] != depth:
                bad = ("caller-changed-after-call", {"pre": describe(pre), "post": describe(ev)})
            elif pre[4] is not nxt:
                bad = ("nextcaller-left-set", {"pre": describe(pre), "post": describe(ev)})
            elif pre[5] != nbuf:
                bad = ("buffer-depth-changed-after-call", {"pre": describe(pre), "post": describe(ev)})
    if bad:
        return bad[0], bad[1], per_call
    return None, None, per_call


def _name(x):
    if x is None or isinstance(x, str):
        return x
    try:
        return "Namespace(%s)" % ",".join(sorted(x.callables))
    except Exception:      # noqa
        return type(x).__name__
