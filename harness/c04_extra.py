"""C04 helper: extended cases (bindings the stated product does not contain), statement forms against native
execution, reserved-name forms, random scope trees."""
from __future__ import annotations

from harness import c04_gen as G


# --------------------------------------------------------------------------- extended resolution cases

def _t(body, **kw):
    t = G.Template()
    t.body = body
    for k, v in kw.items():
        setattr(t, k, v)
    return t


def extended_cases():
    """(label, site name for a violation, Template, data tags, sites)"""
    out = []

    def add(label, site, t, data, sites):
        out.append((label, site, t, data, sites))
    R, A, CD, D = G.Read, G.Assign, G.CallDef, G.Def
    # a <% %> assignment inside an anonymous block / call body is local to that block
    add("anon-assign-then-enclosing-read", "block-local-binding-becomes-enclosing-local",
        _t([G.AnonBlock([A(["x"], "ASG1:x")]), R(1, "x")]), {"x": "CTX:x"}, {1: "x"})
    add("enclosing-read-then-anon-assign", "block-local-binding-becomes-enclosing-local",
        _t([R(1, "x"), G.AnonBlock([A(["x"], "ASG1:x"), R(2, "x")])]), {"x": "CTX:x"}, {1: "x", 2: "x"})
    add("anon-assign-in-def-then-read", "block-local-binding-becomes-enclosing-local",
        _t([CD("f", sid=9), D("f", [], [G.AnonBlock([A(["x"], "ASG1:x")]), R(1, "x")])]), {"x": "CTX:x"}, {1: "x", 9: None})
    add("anon-loop-target-then-enclosing-read", "block-local-binding-becomes-enclosing-local",
        _t([G.AnonBlock([G.For(["x"], "LOOP1:x", [R(2, "x")])]), R(1, "x")]), {"x": "CTX:x"}, {1: "x", 2: "x"})
    add("named-block-loop-target-then-body-read", "block-local-binding-becomes-enclosing-local",
        _t([G.NamedBlock("nb", [G.For(["x"], "LOOP1:x", [R(2, "x")])]), R(1, "x")]), {"x": "CTX:x"}, {1: "x", 2: "x"})
    add("anon-assign-sibling-anon-read", "block-local-binding-becomes-enclosing-local",
        _t([G.AnonBlock([A(["x"], "ASG1:x")]), G.AnonBlock([R(1, "x")])]), {"x": "CTX:x"}, {1: "x"})
    # … and must not change what a def called from the body sees
    add("anon-assign-then-topdef", "block-local-binding-leaks-into-M_locals",
        _t([G.AnonBlock([A(["x"], "ASG1:x")]), CD("td", sid=9), D("td", [], [R(1, "x")])]), {"x": "CTX:x"}, {1: "x", 9: None})
    add("callbody-assign-then-topdef", "block-local-binding-leaks-into-M_locals",
        _t([G.Call("wrap", [], None, [A(["x"], "ASG1:x")]), CD("td", sid=9), D("td", [], [R(1, "x")])]),
        {"x": "CTX:x"}, {1: "x", 9: None})
    # defs of a <%call> and the names of its body
    add("calldef-reads-call-arg", "call-def-believes-call-body-names-declared",
        _t([G.Call("wrap", ["q"], "CARG1:q", [D("d", [], [R(1, "q")])])]), {"q": "CTX:q"}, {1: "q"})
    add("calldef-reads-call-local", "call-def-believes-call-body-names-declared",
        _t([G.Call("wrap", [], None, [A(["q"], "ASG1:q"), D("d", [], [R(1, "q")])])]), {"q": "CTX:q"}, {1: "q"})
    add("calldef-reads-context", None,
        _t([G.Call("wrap", ["q"], "CARG1:q", [R(2, "q"), D("d", [], [R(1, "z")])])]), {"q": "CTX:q", "z": "CTX:z"}, {1: "z", 2: "q"})
    add("calldef-in-def-reads-enclosing-arg", None,
        _t([CD("f", ["ARG1:a"], sid=9), D("f", [("a", None)], [G.Call("wrap", [], None, [D("d", [], [R(1, "a")])])])]),
        {"a": "CTX:a"}, {1: "a", 9: None})
    # named block arguments
    add("named-block-args", "named-block-args-become-body-arguments",
        _t([G.NamedBlock("nb", [R(1, "q")], ["q"])]), {"q": "CTX:q"}, {1: "q"})
    # current values of the body's assignments
    add("reassign-between-calls", None,
        _t([A(["x"], "ASG1:x"), CD("td", sid=8), A(["x"], "ASG2:x"), CD("td", sid=9), D("td", [], [R(1, "x")])]),
        {"x": "CTX:x"}, {1: "x", 8: None, 9: None})
    add("call-before-assign", None,
        _t([CD("td", sid=8), A(["x"], "ASG1:x"), CD("td", sid=9), D("td", [], [R(1, "x")])]), {"x": "CTX:x"}, {1: "x", 8: None, 9: None})
    add("assign-in-if-then-call", None,
        _t([G.For(["i"], "LOOP1:i", [A(["x"], "ASG1:x")]), CD("td", sid=9), D("td", [], [R(1, "x")])]), {}, {1: "x", 9: None})
    add("def-calls-def", None,
        _t([A(["x"], "ASG1:x"), CD("mid", sid=9), D("mid", [], [CD("td", sid=8)]), D("td", [], [R(1, "x")])]), {"x": "CTX:x"},
        {1: "x", 8: None, 9: None})
    add("anon-block-calls-topdef", None,
        _t([A(["x"], "ASG1:x"), G.AnonBlock([CD("td", sid=9)]), D("td", [], [R(1, "x")])]), {"x": "CTX:x"}, {1: "x", 9: None})
    add("callbody-calls-topdef", None,
        _t([A(["x"], "ASG1:x"), G.Call("wrap", [], None, [CD("td", sid=9)]), D("td", [], [R(1, "x")])]), {"x": "CTX:x"}, {1: "x", 9: None})
    add("anon-block-call-body-calls-topdef", "body-nested-call-without-M_locals-overlay",
        _t([A(["x"], "ASG1:x"), G.AnonBlock([G.Call("wrap", [], None, [CD("td", sid=9)])]), D("td", [], [R(1, "x")])]),
        {"x": "CTX:x"}, {1: "x", 9: None})
    add("loop-target-not-overlaid", None,
        _t([G.For(["x"], "LOOP1:x", [CD("td", sid=9)]), D("td", [], [R(1, "x")])]), {"x": "CTX:x"}, {1: "x", 9: None})
    add("read-before-assign", None, _t([R(1, "x"), A(["x"], "ASG1:x")]), {"x": "CTX:x"}, {1: "x"})
    add("def-local-shadows-context-everywhere", None,
        _t([CD("f", sid=9), D("f", [], [R(1, "x"), A(["x"], "ASG1:x")])]), {"x": "CTX:x"}, {1: "x", 9: None})
    add("def-in-anon-block", None,
        _t([A(["x"], "ASG1:x"), G.AnonBlock([D("d", [], [R(1, "x")]), CD("d", sid=9)])]), {"x": "CTX:x"}, {1: "x", 9: None})
    add("nested-def-arg-shadows", None,
        _t([CD("f", ["ARG1:x"], sid=9), D("f", [("x", None)], [D("g", [("x", None)], [R(1, "x")]), CD("g", ["ARG2:x"], sid=8)])]),
        {"x": "CTX:x"}, {1: "x", 8: None, 9: None})
    add("module-shadows-import-and-context", None,
        _t([R(1, "x")], module=[("x", "MOD1:x")], imports=["x"], lib_defs=["libdef", "x"]), {"x": "CTX:x"}, {1: "x"})
    add("namespace-name", None, _t([R(1, "nsx"), CD("f", sid=9), D("f", [], [R(2, "nsx")])], ns_names=["nsx"]), {"nsx": "CTX:nsx"},
        {1: "nsx", 2: "nsx", 9: None})
    add("import-star", None, _t([R(1, "libdef"), R(2, "other")], import_star=True), {"libdef": "CTX:libdef", "other": "CTX:other"},
        {1: "libdef", 2: "other"})
    # identifier analysis of embedded Python (F12)
    add("comprehension-variable", "comprehension-variable-becomes-block-local",
        _t([G.Raw("ys = [x for x in z]", [("ys", "OTHER:list")], ["z"]), R(1, "x"), R(2, "ys")]),
        {"x": "CTX:x", "z": "CTX:z"}, {1: "x", 2: "ys"})
    add("genexp-variable-in-def", "comprehension-variable-becomes-block-local",
        _t([CD("f", sid=9), D("f", [], [G.Raw("ys = list(x for x in z)", [("ys", "OTHER:list")], ["z"]), R(1, "x")])]),
        {"x": "CTX:x", "z": "CTX:z"}, {1: "x", 9: None})
    return out


def strict_extended_cases():
    """cases that only differ from native behaviour under strict_undefined"""
    out = []
    R = G.Read
    out.append(("def-star-kwonly-params", "function-parameters-reported-undeclared",
                _t([G.Raw("def fn(a, *b, c=1, **d):\n    return (a, b, c, d)\nr = fn(1)", [("fn", "DEF:fn"), ("r", "OTHER:tuple")], []),
                    R(1, "r")]), {}, {1: "r"}))
    out.append(("lambda-star-params", "function-parameters-reported-undeclared",
                _t([G.Raw("g = lambda *a, **k: (a, k)\nr = g(1)", [("g", "DEF:<lambda>"), ("r", "OTHER:tuple")], []), R(1, "r")]),
                {}, {1: "r"}))
    out.append(("plain-params", None,
                _t([G.Raw("def fn(a, b=2):\n    return (a, b)\nr = fn(1)", [("fn", "DEF:fn"), ("r", "OTHER:tuple")], []), R(1, "r")]),
                {}, {1: "r"}))
    return out


# --------------------------------------------------------------------------- statement forms vs native execution

# (label, statements, names observed afterwards, names the context provides)
STATEMENT_FORMS = [
    ("assign", "a = v", ["a", "v"], ["v"]),
    ("multi-assign", "a = b = v", ["a", "b"], ["v"]),
    ("tuple-unpack", "a, (b, c) = v, (w, v)", ["a", "b", "c"], ["v", "w"]),
    ("star-unpack", "a, *b = [v, w]\nb = b[0]", ["a", "b"], ["v", "w"]),
    ("augassign", "a = [v]\na += [w]\na = a[1]", ["a"], ["v", "w"]),
    ("annassign", "a: object = v", ["a"], ["v"]),
    ("walrus", "b = (a := v)", ["a", "b"], ["v"]),
    ("for", "for i in [v, w]:\n    j = i", ["i", "j"], ["v", "w"]),
    ("for-else", "for i in []:\n    pass\nelse:\n    e = v", ["e"], ["v"]),
    ("while", "k = [v]\nwhile k:\n    x1 = k.pop()", ["x1"], ["v"]),
    ("if-else", "if v:\n    a = v\nelse:\n    a = w", ["a"], ["v", "w"]),
    ("with-as", "with cm as h:\n    g = h", ["h", "g"], ["cm"]),
    ("try-except-as", "try:\n    raise ValueError(v)\nexcept ValueError as ex:\n    r = ex.args[0]", ["r"], ["v"]),
    ("try-finally", "try:\n    a = v\nfinally:\n    b = w", ["a", "b"], ["v", "w"]),
    ("import", "import os.path", ["os"], []),
    ("import-as", "import os.path as osp", ["osp"], []),
    ("from-import", "from os import sep", ["sep"], []),
    ("from-import-as", "from os import sep as s2", ["s2"], []),
    ("def", "def fn(a, b=2):\n    return v\nr = fn(1)", ["r", "fn"], ["v"]),
    ("def-default-reads-context", "def fn(a, b=v):\n    return b\nr = fn(1)", ["r"], ["v"]),
    ("def-reads-context", "def fn():\n    return v\nr = fn()", ["r"], ["v"]),
    ("def-local", "def fn():\n    q = v\n    return q\nr = fn()", ["r", "q"], ["v", "q"]),
    ("def-star-kwonly", "def fn(a, *b, c=1, **d):\n    return (b, c, d, v)[3]\nr = fn(1)", ["r"], ["v"]),
    ("def-kwonly-read", "def fn(*, c):\n    return c\nr = fn(c=v)", ["r", "c"], ["v", "c"]),
    ("def-posonly", "def fn(a, /, b):\n    return a\nr = fn(v, 1)", ["r"], ["v"]),
    ("nested-def", "def outer():\n    t = v\n    def inner():\n        return t\n    return inner()\nr = outer()", ["r"], ["v"]),
    ("lambda", "g = lambda a, b=2: v\nr = g(1)", ["r"], ["v"]),
    ("lambda-default-reads-context", "g = lambda a, b=v: b\nr = g(1)", ["r"], ["v"]),
    ("lambda-star", "g = lambda *a, **k: a[0]\nr = g(v)", ["r"], ["v"]),
    ("class", "class K:\n    attr = 1\nr = v", ["r", "K"], ["v"]),
    ("class-body-reads-context", "class K:\n    attr = v\nr = K.attr", ["r"], ["v"]),
    ("class-base", "class K(base):\n    pass\nr = K.tag", ["r"], ["base"]),
    ("listcomp", "ys = [x for x in [v]]\nr = ys[0]", ["r", "x"], ["v", "x"]),
    ("setcomp", "ys = {x for x in [1]}\nr = v", ["r", "x"], ["v", "x"]),
    ("dictcomp", "ys = {k: k for k in [1]}\nr = v", ["r", "k"], ["v", "k"]),
    ("genexp", "ys = list(x for x in [v])\nr = ys[0]", ["r", "x"], ["v", "x"]),
    ("comp-reads-context", "ys = [w for _i in [1]]\nr = ys[0]", ["r"], ["w"]),
    ("comp-in-def", "def fn():\n    return [x for x in [v]][0]\nr = fn()", ["r", "x"], ["v", "x"]),
    ("global", "global gg\ngg = v", ["gg"], ["v"]),
    ("del", "a = v\nb = a\ndel a", ["b"], ["v"]),
    ("match-capture", "match v:\n    case cap:\n        r = cap", ["r", "cap"], ["v"]),
    ("async-def", "async def co():\n    return v\nr = co\nco = None", ["r"], ["v"]),
    ("chained-compare-subscript", "a = {1: v}[1] if v is not None else w", ["a"], ["v", "w"]),
    ("fstring", "a = f'{v.tag}'\nb = v", ["b"], ["v"]),
    ("print-like-builtins", "a = len([v])\nb = v", ["b", "len"], ["v"]),
]


# --------------------------------------------------------------------------- reserved names: binding forms

# (form, template source with NAME as the reserved name, is it a binding of the template?)
RESERVED_FORMS = [
    ("code-assign", "<% NAME = 1 %>"),
    ("code-augassign", "<% NAME += 1 %>"),
    ("code-annassign", "<% NAME: int = 1 %>"),
    ("code-tuple-assign", "<% a, (b, NAME) = 1, (2, 3) %>"),
    ("code-walrus", "<% (NAME := 1) %>"),
    ("code-for-target", "<%\nfor NAME in [1]:\n    pass\n%>"),
    ("code-with-as", "<%\nwith open('/dev/null') as NAME:\n    pass\n%>"),
    ("code-except-as", "<%\ntry:\n    pass\nexcept Exception as NAME:\n    pass\n%>"),
    ("code-import", "<% import os as NAME %>"),
    ("code-from-import", "<% from os import sep as NAME %>"),
    ("code-def-name", "<%\ndef NAME():\n    pass\n%>"),
    ("code-class-name", "<%\nclass NAME:\n    pass\n%>"),
    ("code-comprehension-var", "<% ys = [1 for NAME in [1]] %>"),
    ("code-global", "<%\nglobal NAME\nNAME = 1\n%>"),
    ("code-match-capture", "<%\nmatch 1:\n    case NAME:\n        pass\n%>"),
    ("code-async-def-name", "<%\nasync def NAME():\n    pass\n%>"),
    ("control-for-target", "% for NAME in [1]:\nx\n% endfor\n"),
    ("control-with-as", "% with open('/dev/null') as NAME:\nx\n% endwith\n"),
    ("control-except-as", "% try:\nx\n% except Exception as NAME:\ny\n% endtry\n"),
    ("code-in-def", "<%def name=\"f()\"><% NAME = 1 %></%def>"),
    ("code-in-nested-def", "<%def name=\"f()\"><%def name=\"g()\"><% NAME = 1 %></%def>${g()}</%def>"),
    ("code-in-anon-block", "<%block><% NAME = 1 %></%block>"),
    ("code-in-named-block", "<%block name=\"nb\"><% NAME = 1 %></%block>"),
    ("code-in-call-body", "<%call expr=\"f()\"><% NAME = 1 %></%call><%def name=\"f()\">${caller.body()}</%def>"),
    ("code-in-call-def", "<%call expr=\"f()\"><%def name=\"d()\"><% NAME = 1 %></%def></%call><%def name=\"f()\">${caller.d()}</%def>"),
    ("page-arg", "<%page args=\"NAME=1\"/>"),
    ("def-argument", "<%def name=\"f(NAME)\">x</%def>"),
    ("def-default-argument", "<%def name=\"f(a, NAME=2)\">x</%def>"),
    ("def-star-argument", "<%def name=\"f(*NAME)\">x</%def>"),
    ("def-kw-argument", "<%def name=\"f(**NAME)\">x</%def>"),
    ("nested-def-argument", "<%def name=\"f()\"><%def name=\"g(NAME)\">x</%def>${g(1)}</%def>"),
    ("def-name", "<%def name=\"NAME()\">x</%def>"),
    ("nested-def-name", "<%def name=\"f()\"><%def name=\"NAME()\">x</%def></%def>"),
    ("block-name", "<%block name=\"NAME\">x</%block>"),
    ("block-argument", "<%page args=\"q=1\"/><%block name=\"nb\" args=\"NAME\">x</%block>"),
    ("call-body-argument", "<%call expr=\"f()\" args=\"NAME\">x</%call><%def name=\"f()\">${caller.body(1)}</%def>"),
    ("module-assign", "<%! NAME = 1 %>"),
    ("module-import", "<%! import os as NAME %>"),
    ("module-def", "<%!\ndef NAME():\n    pass\n%>"),
    ("namespace-name", "<%namespace name=\"NAME\" file=\"/lib.html\"/>"),
]


# --------------------------------------------------------------------------- random scope trees (declaration sets only)

POOL = ["a", "b", "c", "d", "e", "g"]


class TreeGen:
    def __init__(self, rng):
        self.rng = rng
        self.n = 0
        self.defs = []

    def name(self):
        r = self.rng.random()
        if r < 0.03:
            return self.rng.choice(["loop", "context", "caller", "pageargs", "UNDEFINED", "self", "capture"])
        return self.rng.choice(POOL)

    def uniq(self, p):
        self.n += 1
        return "%s%d" % (p, self.n)

    def expr(self):
        r = self.rng.random()
        if r < 0.5:
            return self.name()
        if r < 0.8:
            return "%s + %s" % (self.name(), self.name())
        if self.defs and r < 0.95:
            return "%s(%s)" % (self.rng.choice(self.defs), self.name())
        return "[%s for %s in %s]" % (self.name(), self.rng.choice(POOL), self.name())

    def nodes(self, depth, where):
        """where: body | def | blk (block chain of the body) | call"""
        out = []
        for _ in range(self.rng.randint(1, 4 if depth else 6)):
            r = self.rng.random()
            if r < 0.22:
                flt = " | " + self.rng.choice(POOL + ["h", "trim", "n"]) if self.rng.random() < 0.2 else ""
                out.append("${%s%s}\n" % (self.expr(), flt))
            elif r < 0.36:
                tgt = self.rng.choice(POOL)
                if self.rng.random() < 0.05:
                    tgt = self.rng.choice(["loop", "context", "UNDEFINED"])
                out.append("<%% %s = %s %%>\n" % (tgt, self.expr()))
            elif r < 0.44:
                out.append("%% for %s in %s:\n%s%% endfor\n" % (self.rng.choice(POOL), self.expr(), "".join(self.leaves())))
            elif r < 0.50:
                out.append("%% if %s:\n%s%% endif\n" % (self.expr(), "".join(self.leaves())))
            elif r < 0.62 and depth < 3:
                f = self.uniq("d") if self.rng.random() < 0.92 else self.rng.choice(POOL)
                if f in self.defs:          # two defs of one name: the later replaces the earlier in mako's dicts (not modelled)
                    f = self.uniq("d")
                args = self.rng.sample(POOL, self.rng.randint(0, 2))
                sig = ", ".join(a if self.rng.random() < 0.7 else "%s=%s" % (a, self.name()) for a in args)
                flt = ' filter="%s"' % self.rng.choice(POOL + ["h"]) if self.rng.random() < 0.1 else ""
                self.defs.append(f)
                out.append("<%%def name=\"%s(%s)\"%s>\n%s</%%def>\n" % (f, sig, flt, "".join(self.nodes(depth + 1, "def"))))
            elif r < 0.72 and depth < 3:
                sub = "blk" if where in ("body", "blk") else where
                out.append("<%%block>\n%s</%%block>\n" % "".join(self.nodes(depth + 1, sub)))
            elif r < 0.78 and depth < 3 and where in ("body", "blk"):
                nb = self.uniq("nb")
                self.defs.append(nb)
                out.append("<%%block name=\"%s\">\n%s</%%block>\n" % (nb, "".join(self.nodes(depth + 1, "blk"))))
            elif r < 0.88 and depth < 3:
                args = self.rng.sample(POOL, self.rng.randint(0, 2))
                a = ' args="%s"' % ", ".join(args) if args else ""
                callee = self.rng.choice(self.defs) if self.defs and self.rng.random() < 0.5 else self.name()
                out.append("<%%call expr=\"%s(%s)\"%s>\n%s</%%call>\n" % (callee, self.name(), a, "".join(self.nodes(depth + 1, "call"))))
            elif r < 0.93:
                out.append("<%%include file=\"/inc.html\" args=\"%s=%s\"/>\n" % (self.rng.choice(POOL), self.name()))
            elif r < 0.96:
                out.append("<%%text filter=\"%s\">t</%%text>\n" % self.rng.choice(POOL + ["h"]))
            else:
                out.append("text\n")
        return out

    def leaves(self):
        return ["${%s}\n" % self.expr() for _ in range(self.rng.randint(0, 2))] + \
               (["<%% %s = %s %%>\n" % (self.rng.choice(POOL), self.name())] if self.rng.random() < 0.3 else [])

    def template(self):
        head = []
        if self.rng.random() < 0.3:
            args = self.rng.sample(POOL, self.rng.randint(1, 2))
            head.append("<%%page args=\"%s\"/>\n" % ", ".join("%s=1" % a for a in args))
        if self.rng.random() < 0.3:
            head.append("<%%namespace file=\"/lib.html\" import=\"%s\"/>\n" % self.rng.choice(["*", "libdef", self.rng.choice(POOL)]))
        if self.rng.random() < 0.2:
            head.append("<%%namespace name=\"%s\" file=\"/lib.html\"/>\n" % self.rng.choice(POOL + ["ns1"]))
        if self.rng.random() < 0.3:
            head.append("<%%! %s = 1 %%>\n" % self.rng.choice(POOL))
        return "".join(head + self.nodes(0, "body"))
