"""C04 helper: the binding-site x read-site product, random combinations and the extended (defect-hunting) cases."""
from __future__ import annotations

from harness import c04_gen as G

# "pagereassign*": a <%page> argument that a body <% %> block assigns again (once / twice / inside a control block)
BINDINGS = ["context", "page", "pagereassign", "pagereassign2", "pagereassignctl", "bodyassign", "defarg", "deflocal", "loop", "module", "import", "builtin", "nowhere"]
# read placements: (read site of the property, host function the read is placed in)
READS = [("body", "body"), ("topdef", "body"), ("nested", "body"), ("anon", "body"), ("named", "body"),
         ("callbody", "body"), ("ctl", "body"), ("attr", "body"), ("filter", "body"),
         ("topdef", "def"), ("nested", "def"), ("anon", "def"), ("callbody", "def"), ("ctl", "def"), ("attr", "def"), ("filter", "def")]


class Probe:
    """one probe name with its binding site and read placements"""

    def __init__(self, name, binding, ctx_has, reads, loop_host="body", uid=0, in_for=False):
        self.name, self.binding, self.ctx_has, self.reads, self.loop_host, self.uid = name, binding, ctx_has, reads, loop_host, uid
        self.in_for = in_for      # the read nodes sit inside a `% for` over an unrelated target


class Builder:
    """assembles one template from several probes"""

    def __init__(self):
        self.t = G.Template()
        self.sid = 0
        self.mid = 0
        self.data = {}
        self.body_pre, self.body_main, self.f_pre, self.f_main, self.top_defs = [], [], [], [], []
        self.f_params, self.f_args = [], []
        self.need_f = False
        self.sites = {}       # sid -> (probe name, read site, host, binding)

    def new_sid(self, probe, site, host):
        self.sid += 1
        self.sites[self.sid] = (probe.name, site, host, probe.binding)
        return self.sid

    def call(self, name, argtags=()):
        self.sid += 1
        self.sites[self.sid] = (None, "call", name, None)
        return G.CallDef(name, argtags, sid=self.sid)

    def mark(self, kind, x):
        self.mid += 1
        return "%s%d:%s" % (kind, self.mid, x)

    def read_nodes(self, probe, site, host):
        """(nodes for the host's main list, top-level defs)"""
        x, u = probe.name, "%d_%d" % (probe.uid, self.sid + 1)
        sid = self.new_sid(probe, site, host)
        if site in ("body", "topdef") and ((site == "body") == (host == "body")):
            return [G.Read(sid, x)], []
        if site == "topdef":        # placed in the body: a top-level def called by name from the body
            return [self.call("td" + u)], [G.Def("td" + u, [], [G.Read(sid, x)])]
        if site == "nested":
            if host == "body":
                inner = G.Def("in" + u, [], [G.Read(sid, x)])
                return [self.call("out" + u)], [G.Def("out" + u, [], [inner, self.call("in" + u)])]
            return [G.Def("g" + u, [], [G.Read(sid, x)]), self.call("g" + u)], []
        if site == "anon":
            return [G.AnonBlock([G.Read(sid, x)])], []
        if site == "named":
            return [G.NamedBlock("nb" + u, [G.Read(sid, x)])], []
        if site == "callbody":
            return [G.Call("wrap" + u, [], None, [G.Read(sid, x)])], []
        if site in ("ctl", "attr", "filter"):
            return [G.Read(sid, x, site)], []
        raise ValueError(site)

    def add(self, p):
        x, b = p.name, p.binding
        if p.ctx_has:
            self.data[x] = G.Mark("CTX:" + x)
        loop_wrap = None
        if b == "page":
            self.t.page_args.append((x, self.mark("PAGE", x)))
        elif b in ("pagereassign", "pagereassign2", "pagereassignctl"):
            self.t.page_args.append((x, self.mark("PAGE", x)))
            if b == "pagereassignctl":
                self.body_pre.append(G.If([G.Assign([x], self.mark("ASG", x))]))
            else:
                self.body_pre.append(G.Assign([x], self.mark("ASG", x)))
                if b == "pagereassign2":
                    self.body_pre.append(G.Assign([x], self.mark("ASG", x)))
        elif b == "bodyassign":
            self.body_pre.append(G.Assign([x], self.mark("ASG", x)))
        elif b == "defarg":
            self.need_f = True
            self.f_params.append((x, None))
            self.f_args.append(self.mark("ARG", x))
        elif b == "deflocal":
            self.need_f = True
            self.f_pre.append(G.Assign([x], self.mark("ASG", x)))
        elif b == "loop":
            loop_wrap = p.loop_host
            if loop_wrap == "def":
                self.need_f = True
        elif b == "module":
            self.t.module.append((x, self.mark("MOD", x)))
        elif b == "import":
            if x not in self.t.lib_defs:
                self.t.lib_defs.append(x)
            self.t.imports.append(x)
        for site, host in p.reads:
            nodes, tops = self.read_nodes(p, site, host)
            self.top_defs += tops
            if host == "def":
                self.need_f = True
            target = self.body_main if host == "body" else self.f_main
            if p.in_for:
                nodes = [G.For(["it%d_%d" % (p.uid, self.sid)], self.mark("IT", "it"), nodes)]
            if loop_wrap == host:
                target.append(G.For([x], self.mark("LOOP", x), nodes))
            else:
                target += nodes

    def finish(self):
        t = self.t
        t.body = self.body_pre + self.body_main
        if self.need_f:
            t.body.append(self.call("F", self.f_args))
            t.body.append(G.Def("F", self.f_params, self.f_pre + self.f_main))
        t.body += self.top_defs
        return t


def product(rng=None):
    """every (binding, context has the name too?, read placement): yields (descriptor, Builder)"""
    uid = 0
    for b in BINDINGS:
        for ctx_has in ((True,) if b == "context" else (False,) if b == "nowhere" else (False, True)):
            hosts = ("body", "def") if b == "loop" else ("body",)
            for lh in hosts:
                for site, host in READS:
                    uid += 1
                    name = "abs" if b == "builtin" else "px"
                    bd = Builder()
                    bd.add(Probe(name, b, ctx_has, [(site, host)], lh, uid))
                    yield {"binding": b, "ctx_has": ctx_has, "read": site, "host": host, "loop_host": lh}, bd


BUILTIN_NAMES = ["abs", "len", "zip", "max"]


def random_combo(rng, nprobes=None):
    n = nprobes or rng.randint(2, 4)
    bd = Builder()
    used = set()
    desc = []
    for i in range(n):
        b = rng.choice(BINDINGS)
        if b == "builtin":
            cands = [x for x in BUILTIN_NAMES if x not in used]
            if not cands:
                b = "nowhere"
        name = rng.choice([x for x in BUILTIN_NAMES if x not in used]) if b == "builtin" else "p%d" % i
        used.add(name)
        ctx_has = True if b == "context" else False if b == "nowhere" else rng.random() < 0.5
        reads = rng.sample(READS, rng.randint(1, 3))
        lh = rng.choice(["body", "def"])
        bd.add(Probe(name, b, ctx_has, reads, lh, i))
        desc.append({"name": name, "binding": b, "ctx_has": ctx_has, "reads": [list(r) for r in reads], "loop_host": lh, "uid": i})
    return {"probes": desc}, bd


def build_from_desc(desc):
    """rebuild the Builder of a random combination from its descriptor (used by shrinking and replay)"""
    bd = Builder()
    for i, p in enumerate(desc["probes"]):
        bd.add(Probe(p["name"], p["binding"], p["ctx_has"], [tuple(r) for r in p["reads"]], p["loop_host"], p.get("uid", i)))
    return bd


def build_product(desc):
    bd = Builder()
    name = desc.get("name") or ("abs" if desc["binding"] == "builtin" else "px")
    bd.add(Probe(name, desc["binding"], desc["ctx_has"], [(desc["read"], desc["host"])], desc["loop_host"], 1, desc.get("in_for", False)))
    cfg = desc.get("loopcfg", "on")
    bd.t.enable_loop = cfg != "off"
    bd.t.page_enable_loop = cfg == "page"
    return bd


def loop_name_product():
    """the probe is NAMED `loop`: with the loop context disabled it is an ordinary name (every binding site, read
    inside a `% for` over another target); with it enabled (constructor flag, or <%page enable_loop="True"/> on a
    template constructed with enable_loop=False) and bound nowhere it is the loop context"""
    for cfg in ("off", "on", "page"):
        bindings = [b for b in BINDINGS if b != "builtin"] if cfg == "off" else ["nowhere"]
        for b in bindings:
            for ctx_has in ((True,) if b == "context" else (False,) if (b == "nowhere" or cfg != "off") else (False, True)):
                for lh in (("body", "def") if b == "loop" else ("body",)):
                    for site, host in READS:
                        desc = {"binding": b, "ctx_has": ctx_has, "read": site, "host": host, "loop_host": lh,
                                "name": "loop", "in_for": True, "loopcfg": cfg}
                        yield desc, build_product(desc)
