"""Reference renderer: a direct, lexical, *stack-free* interpretation of a template tree (gen_template.py).

Written from the documented meaning of the constructs, not from mako's code: output is a *returned value*,
`caller` is a lexical argument, `loop` is the list of enclosing loop contexts, buffering is "use the returned
string as a value".  An exception carries the text that was written *directly* before it; a construct that
buffers (buffered / filtered / cached def or block, capture) drops that text when the exception passes through
it.  There is no state that an exception could leave behind, so the result for (template, crash point, handler)
is by construction "as if every abandoned construct had been exited normally".

Used as the oracle of C13 (and as the specification side of C05 / C03).
"""
from __future__ import annotations


class Boom(Exception):
    def __init__(self, at):
        Exception.__init__(self, "boom %d" % at)
        self.at = at


class TemplateError(Exception):
    """an error other than the planted one (no caller, no loop context, unknown name …)"""


class _Abort(Exception):
    """an exception travelling outwards; `out` = text written directly before it in the current buffer"""

    def __init__(self, exc, out):
        Exception.__init__(self)
        self.exc = exc
        self.out = out


class _Signal(Exception):
    def __init__(self, out):
        Exception.__init__(self)
        self.out = out


class _Return(_Signal):
    pass


class _Break(_Signal):
    pass


class _Continue(_Signal):
    pass


class _Def:
    """a callable: closes over its defining environment"""

    def __init__(self, node, env, tmpl, is_block=False, is_body=False, params=None, body=None):
        self.node = node
        self.env = env
        self.tmpl = tmpl
        self.is_block = is_block
        self.is_body = is_body
        self.params = params if params is not None else node[2]
        self.body = body if body is not None else node[4]
        self.flags = node[3] if node is not None and node[0] in ("def", "block") else \
            {"buffered": False, "filters": [], "cached": False, "deco": False}


class _Caller:
    """the namespace handed to a def called with content"""

    def __init__(self, callables):
        self.callables = callables      # name id (0 = body) -> _Def


class _Env:
    def __init__(self, vars, defs, caller, loops, nb, nf):
        self.vars = vars        # dict
        self.defs = defs        # dict id -> _Def
        self.caller = caller    # _Caller | None
        self.loops = loops      # list of [index] cells, innermost last
        self.nb = nb            # buffers below the current point (for probe)
        self.nf = nf            # callable activations below (for probe)

    def sub(self, **kw):
        e = _Env(dict(self.vars), dict(self.defs), self.caller, list(self.loops), self.nb, self.nf)
        e.__dict__.update(kw)
        return e


class Ref:
    def __init__(self, bodies, k=-1, ieh=None, strict_pending=False, buffer_filters=()):
        self.bodies = bodies
        self.k = k
        self.cnt = 0
        self.ieh = ieh            # include_error_handler: None | True | False
        # C05: the callee of a <%call expr="f(args)"> is f - with `strict_pending` the calls made while the
        # *arguments* are evaluated do not see the pending caller (default: they do, as mako's nextcaller)
        self.strict_pending = strict_pending
        self.buffer_filters = list(buffer_filters)    # Template(buffer_filters=[...]): ids of flt<i>
        self.cur = []             # ids of the nodes being interpreted (dynamic chain)
        self.raise_stack = None   # that chain when the planted exception was raised (for handler placement)

    # ---- evaluation points
    def tick(self):
        i = self.cnt
        self.cnt += 1
        if i == self.k:
            if self.raise_stack is None:
                self.raise_stack = list(self.cur)
            raise _Abort(Boom(i), "")

    # ---- expressions: return (value, side output); raise _Abort(exc, side output so far)
    def ev(self, e, env, pending=None):
        k = e[0]
        if k == "lit":
            return e[1], ""
        if k == "var":
            if e[1] not in env.vars:
                raise _Abort(TemplateError("name v%d" % e[1]), "")
            return env.vars[e[1]], ""
        if k == "cat":
            a, o1 = self.ev(e[1], env, pending)
            try:
                b, o2 = self.ev(e[2], env, pending)
            except _Abort as x:
                raise _Abort(x.exc, o1 + x.out)
            return a + b, o1 + o2
        if k == "boom":
            self.tick()
            return "", ""
        if k == "filt":
            v, o = self.ev(e[2], env, pending)
            try:
                self.tick()
            except _Abort as x:
                raise _Abort(x.exc, o)
            return "%d(%s)" % (e[1], v), o
        if k == "loopindex":
            if not env.loops:
                raise _Abort(TemplateError("no loop context"), "")
            return str(env.loops[-1][0]), ""
        if k == "probe":
            return "%d.%d.%d" % (env.nb, env.nf, 1 if pending is not None else 0), ""
        if k == "cprobe":
            return "", ""
        if k in ("call", "capture"):
            d = env.defs.get(e[1])
            if d is None:
                raise _Abort(TemplateError("name d%d" % e[1]), "")
            args, o = self.args(e[2], env, None if self.strict_pending else pending)
            if k == "call":
                try:
                    v, o2 = self.invoke(d, args, env, pending)
                except _Abort as x:
                    raise _Abort(x.exc, o + x.out)
                return v, o + o2
            # capture: what the callable writes becomes the value; its own return value is dropped
            try:
                _v, o2 = self.invoke(d, args, env.sub(nb=env.nb + 1), pending)
            except _Abort as x:
                raise _Abort(x.exc, o)
            return o2, o
        if k == "caller":
            c = env.caller
            if c is None or e[1] not in c.callables:
                raise _Abort(TemplateError("no caller"), "")
            d = c.callables[e[1]]
            args, o = self.args(e[2], env, None if self.strict_pending else pending)
            try:
                v, o2 = self.invoke(d, args, env, None)
            except _Abort as x:
                raise _Abort(x.exc, o + x.out)
            return v, o + o2
        raise ValueError(e)

    def args(self, es, env, pending):
        vals, out = [], ""
        for a in es:
            try:
                v, o = self.ev(a, env, pending)
            except _Abort as x:
                raise _Abort(x.exc, out + x.out)
            vals.append(v)
            out += o
        return vals, out

    # ---- callables: return (value, side output)
    def invoke(self, d, args, env, caller):
        """`env` is the environment of the *call site* (only its depth counters are used)"""
        if len(args) != len(d.params):
            raise _Abort(TemplateError("arity"), "")
        fl = d.flags
        if fl["deco"]:
            self.tick()
        buffering = fl["buffered"] or fl["cached"] or bool(fl["filters"])
        inner = d.env.sub(nb=env.nb + (1 if buffering else 0), nf=env.nf + (0 if d.is_body else 1))
        inner.vars.update(zip(d.params, args))
        if d.is_body:
            inner.loops = []          # a <%call> body has the loop contexts of its own `% for`s only
        else:
            inner.caller = caller
            inner.loops = []
        if d.is_block:
            inner.caller = None
        try:
            try:
                out = self.nodes(d.body, inner, d.tmpl)
            except _Return as r:
                out = r.out
            except (_Break, _Continue):
                raise _Abort(TemplateError("break outside loop"), "")
        except _Abort as x:
            raise _Abort(x.exc, "" if buffering else x.out)
        # filter= applies to the whole content, once; a failing filter loses the content
        for f in fl["filters"]:
            self.tick()
            out = "%d(%s)" % (f, out)
        if fl["buffered"]:
            for f in self.buffer_filters:      # "a buffered def returns its content (after buffer_filters)"
                self.tick()
                out = "%d(%s)" % (f, out)
            res = (out, "")
        else:
            res = ("", out)
        if fl["deco"]:
            # the decorator wraps the callable proper; for a cached def that is the *creation function*, whose
            # content is a value until the cache hands it back - so a decorator failing afterwards loses it
            try:
                self.tick()
            except _Abort as x:
                raise _Abort(x.exc, "" if fl["cached"] else res[1])
        return res

    # ---- nodes: return output; raise _Abort / _Return / _Break / _Continue with the output so far
    def nodes(self, body, env, tmpl):
        # defs of this scope are visible in the whole scope (also before their position)
        env = env.sub()
        self.declare(body, env, tmpl)
        out = ""
        for n in body:
            try:
                out += self.node(n, env, tmpl)
            except _Abort as x:
                raise _Abort(x.exc, out + x.out)
            except _Signal as s:
                raise type(s)(out + s.out)
        return out

    def declare(self, body, env, tmpl):
        for n in body:
            k = n[0]
            if k == "def":
                env.defs[n[1]] = _Def(n, env, tmpl)
            elif k == "block":
                env.defs[n[1]] = _Def(n, env, tmpl, is_block=True, params=[])
            elif k == "if":
                self.declare(n[2], env, tmpl)
                self.declare(n[3], env, tmpl)
            elif k in ("for",):
                self.declare(n[3], env, tmpl)
            elif k == "while":
                self.declare(n[2], env, tmpl)
            elif k == "try":
                self.declare(n[1], env, tmpl)
                self.declare(n[2], env, tmpl)

    def write_expr(self, e, env, pending=None):
        v, o = self.ev(e, env, pending)
        return o + v

    def seq(self, body, env, tmpl):
        """a nested body of the same scope (control structure): no new declarations"""
        out = ""
        for n in body:
            try:
                out += self.node(n, env, tmpl)
            except _Abort as x:
                raise _Abort(x.exc, out + x.out)
            except _Signal as s:
                raise type(s)(out + s.out)
        return out

    def node(self, n, env, tmpl):
        self.cur.append(id(n))
        try:
            return self.node1(n, env, tmpl)
        finally:
            self.cur.pop()

    def node1(self, n, env, tmpl):
        k = n[0]
        if k == "text":
            return n[1]
        if k == "expr":
            e = n[1]
            for f in n[2]:
                e = ["filt", f, e]
            return self.write_expr(e, env)
        if k == "if":
            v, o = self.ev(n[1], env)
            try:
                return o + self.seq(n[2] if v else n[3], env, tmpl)
            except _Abort as x:
                raise _Abort(x.exc, o + x.out)
            except _Signal as s:
                raise type(s)(o + s.out)
        if k == "for":
            items, out = self.args(n[2], env, None)
            uses_loop = _mentions_loop_deep(n)
            cell = [0]
            e2 = env.sub(loops=env.loops + [cell]) if uses_loop else env.sub()
            for it in items:
                e2.vars[n[1]] = it
                try:
                    out += self.seq(n[3], e2, tmpl)
                except _Abort as x:
                    raise _Abort(x.exc, out + x.out)
                except _Break as s:
                    out += s.out
                    break
                except _Continue as s:
                    out += s.out
                except _Return as s:
                    raise _Return(out + s.out)
                cell[0] += 1
            return out
        if k == "while":
            out = ""
            while True:
                i = self.cnt
                try:
                    self.tick()
                except _Abort as x:
                    raise _Abort(x.exc, out)
                if not i < n[1]:
                    break
                try:
                    out += self.seq(n[2], env, tmpl)
                except _Abort as x:
                    raise _Abort(x.exc, out + x.out)
                except _Break as s:
                    out += s.out
                    break
                except _Continue as s:
                    out += s.out
                except _Return as s:
                    raise _Return(out + s.out)
            return out
        if k == "try":
            try:
                return self.seq(n[1], env, tmpl)
            except _Abort as x:
                out = x.out
            try:
                return out + self.seq(n[2], env, tmpl)
            except _Abort as x:
                raise _Abort(x.exc, out + x.out)
            except _Signal as s:
                raise type(s)(out + s.out)
        if k == "def":
            return ""
        if k == "block":
            v, o = self.invoke(env.defs[n[1]], [], env, None)
            return o + v  # what the block wrote, then what it returned (a buffered block's content)
        if k == "call":
            callables = {}
            benv = env.sub()
            body_def = _Def(None, benv, tmpl, is_body=True, params=n[2], body=n[3])
            callables[0] = body_def
            self._call_defs(n[3], benv, tmpl, callables)
            ns = _Caller(callables)
            return self.write_expr(n[1], env, pending=ns)
        if k == "texttag":
            out = n[2]
            for f in n[1]:
                self.tick()
                out = "%d(%s)" % (f, out)
            return out
        if k == "inc":
            tb = self.bodies[n[1]]
            e0 = _Env({}, {}, None, [], env.nb, env.nf + 1)
            try:
                try:
                    return self.nodes(tb, e0, n[1])
                except _Return as r:
                    return r.out
            except _Abort as x:
                if self.ieh is None:
                    raise
                out = x.out + "[H]"
                if self.ieh:
                    return out
                raise _Abort(x.exc, out)
        if k == "ret":
            raise _Return("")
        if k == "brk":
            raise _Break("")
        if k == "cont":
            raise _Continue("")
        raise ValueError(n)

    def _call_defs(self, body, env, tmpl, callables):
        """defs directly inside a <%call> (under control lines) are the caller's other callables"""
        for n in body:
            k = n[0]
            if k == "def":
                callables[n[1]] = _Def(n, env, tmpl)
            elif k == "if":
                self._call_defs(n[2], env, tmpl, callables)
                self._call_defs(n[3], env, tmpl, callables)
            elif k == "for":
                self._call_defs(n[3], env, tmpl, callables)
            elif k == "while":
                self._call_defs(n[2], env, tmpl, callables)
            elif k == "try":
                self._call_defs(n[1], env, tmpl, callables)
                self._call_defs(n[2], env, tmpl, callables)

    # ---- whole render
    def render(self, error_handler=None, format_exceptions=False):
        """-> dict(outcome='ok'|'boom'|'error', output=str, at=crash point)  (render() semantics)"""
        self.cnt = 0
        e0 = _Env({}, {}, None, [], 1, 1)
        try:
            try:
                out = self.nodes(self.bodies[0], e0, 0)
            except _Return as r:
                out = r.out
            except (_Break, _Continue):
                raise _Abort(TemplateError("break outside loop"), "")
            return {"outcome": "ok", "output": out}
        except _Abort as x:
            kind = "boom" if isinstance(x.exc, Boom) else "error"
            if error_handler is True:
                return {"outcome": "ok", "output": x.out, "swallowed": kind}
            if error_handler is False:
                return {"outcome": kind, "output": x.out}
            if format_exceptions:
                return {"outcome": "ok", "output": None, "error_page": kind}
            return {"outcome": kind, "output": x.out}


def _mentions_loop_deep(n):
    from harness.gen_template import _ex_mentions_loop, BODY_SLOTS
    k = n[0]
    if k == "expr":
        return _ex_mentions_loop(n[1])
    if k == "if" and _ex_mentions_loop(n[1]):
        return True
    if k == "for" and any(_ex_mentions_loop(e) for e in n[2]):
        return True
    if k == "call" and _ex_mentions_loop(n[1]):
        return True
    for slot in BODY_SLOTS.get(k, ()):
        if any(_mentions_loop_deep(c) for c in n[slot]):
            return True
    return False
