"""C05 oracle stream `oracle.rich_signatures` (no Lean): defs with defaults, *args, **kw and keyword-only
parameters - not expressible in the Lean wire syntax - in INTERACTION with buffering, filter=, decorator=,
capture, concatenation, calls with content (keyword body args, rich `args=` declarations, `<%self:d k="…">`
feeding **kw) and the restoration of `caller` afterwards.

A case is a small *spec* (JSON); `source(spec)` writes the template, `expect(spec)` computes the expected text with
Python's OWN argument binding (a Python function with the same parameter list is called with the same actual
arguments) - "calling a def binds its arguments by Python's calling rules".  Binding on exhaustive small signatures
is harness/c05_attrs.py's stream; this one is about the interaction.
"""
from __future__ import annotations

import json

from harness import c05_rt

VALUES = ["1", "p q", "", "7", " "]


# --------------------------------------------------------------------------------------------- spec -> text

def sig_text(sig):
    parts = []
    for p in sig["pos"]:
        parts.append(p if p not in sig["defaults"] else "%s=%r" % (p, sig["defaults"][p]))
    if sig["star"]:
        parts.append("*" + sig["star"])
    elif sig["kwonly"]:
        parts.append("*")
    for name, dflt in sig["kwonly"]:
        parts.append(name if dflt is None else "%s=%r" % (name, dflt))
    if sig["starstar"]:
        parts.append("**" + sig["starstar"])
    return ", ".join(parts)


def show_text(sig):
    """template text that prints every parameter canonically"""
    out = []
    for p in sig["pos"]:
        out.append("%s=${%s};" % (p, p))
    if sig["star"]:
        out.append("%s=${'/'.join(%s)};" % (sig["star"], sig["star"]))
    for name, _ in sig["kwonly"]:
        out.append("%s=${%s};" % (name, name))
    if sig["starstar"]:
        out.append("%s=${','.join('%%s:%%s' %% i for i in sorted(%s.items()))};" % (sig["starstar"], sig["starstar"]))
    return "".join(out)


def show_value(sig, bound):
    out = []
    for p in sig["pos"]:
        out.append("%s=%s;" % (p, bound[p]))
    if sig["star"]:
        out.append("%s=%s;" % (sig["star"], "/".join(bound[sig["star"]])))
    for name, _ in sig["kwonly"]:
        out.append("%s=%s;" % (name, bound[name]))
    if sig["starstar"]:
        out.append("%s=%s;" % (sig["starstar"], ",".join("%s:%s" % i for i in sorted(bound[sig["starstar"]].items()))))
    return "".join(out)


def actual_text(act):
    """argument list as Python source"""
    parts = [repr(a) if not isinstance(a, dict) else a["var"] for a in act["args"]]
    if act.get("star"):
        parts.append("*" + act["star"])
    for k, v in act["kwargs"]:
        parts.append("%s=%s" % (k, repr(v) if not isinstance(v, dict) else v["var"]))
    if act.get("starstar"):
        parts.append("**" + act["starstar"])
    return ", ".join(parts)


def attr_text(act):
    """the same actual arguments as tag attributes (keywords only)"""
    out = []
    for k, v in act["kwargs"]:
        out.append(' %s="%s"' % (k, v if not isinstance(v, dict) else "${%s}" % v["var"]))
    return "".join(out)


def bind(sig, act, env):
    """Python's own binding: -> dict of parameter values, or raises TypeError"""
    ns = {}
    exec("def f(%s):\n    return dict(locals())" % sig_text(sig), ns)

    def val(a):
        return env[a["var"]] if isinstance(a, dict) else a
    args = [val(a) for a in act["args"]]
    if act.get("star"):
        args += list(env[act["star"]])
    kwargs = {}
    for k, v in act["kwargs"]:
        if k in kwargs:
            raise SyntaxError("keyword argument repeated")
        kwargs[k] = val(v)
    if act.get("starstar"):
        for k, v in env[act["starstar"]].items():
            if k in kwargs:
                raise TypeError("multiple values for keyword argument")
            kwargs[k] = v
    return ns["f"](*args, **kwargs)


def source(spec):
    d = spec["def"]
    fl = d["flags"]
    attrs = ""
    if fl.get("buffered"):
        attrs += ' buffered="True"'
    if fl.get("filter"):
        attrs += ' filter="flt1"'
    if fl.get("deco"):
        attrs += ' decorator="wdeco"'
    body = "[" + show_text(d["sig"])
    if d.get("body_call"):
        body += "|${caller.body(%s)}" % actual_text(d["body_call"])
    body += "]"
    out = [c05_rt.RICH_IMPORT, '<%%def name="d(%s)"%s>%s</%%def>' % (sig_text(d["sig"]), attrs, body)]
    site = spec["site"]
    form = site["form"]
    act = site["act"]
    bsig = site.get("bodysig")
    btext = ""
    if bsig is not None:
        btext = "(" + show_text(bsig) + "g=${g})"
    if form == "expr":
        s = "${d(%s)}" % actual_text(act)
    elif form == "cat":
        s = "${'p' + d(%s) + 'q'}" % actual_text(act)
    elif form == "capture":
        a = actual_text(act)
        s = "${'p' + capture(d%s) + 'q'}" % (", " + a if a else "")
    elif form == "call":
        s = '<%%call expr="d(%s)"%s>%s</%%call>' % (actual_text(act),
                                                    ' args="%s"' % sig_text(bsig) if sig_text(bsig) else "", btext)
    elif form == "nstag":
        s = '<%%%s:d%s%s>%s</%%%s:d>' % (site["ns"], attr_text(act),
                                         ' args="%s"' % sig_text(bsig) if sig_text(bsig) else "", btext, site["ns"])
    else:
        raise ValueError(form)
    if site.get("loop"):
        s = "\\\n%% for i in %r:\n%s\\\n%% endfor\n" % (site["loop"], s)
    if spec.get("wrapped"):
        # the rich call sits in a def called with content: `caller` must be the same before and after it
        out.append('<%%def name="w()">{${caller.body()}%s${caller.body()}}</%%def>' % s)
        out.append('A<%call expr="w()">WB</%call>Z')
    else:
        out.append("A" + s + "Z")
    return "".join(out)


def expect(spec):
    """-> ('val', text) | ('exc', exception class name)"""
    d = spec["def"]
    env = spec["env"]
    site = spec["site"]
    form = site["form"]
    fl = d["flags"]

    def one(envx):
        bound = bind(d["sig"], site["act"], envx)
        content = "[" + show_value(d["sig"], bound)
        if d.get("body_call"):
            if site.get("bodysig") is None:
                raise AttributeError("'NoneType' object has no attribute 'body'")
            # the body call's arguments are evaluated in the def's scope (its parameters)
            benv = dict(envx)
            benv.update(bound)
            bb = bind(site["bodysig"], d["body_call"], benv)
            content += "|(" + show_value(site["bodysig"], bb) + "g=" + envx["g"] + ")"
        content += "]"
        if fl.get("filter"):
            content = "1(%s)" % content
        value, side = (content, "") if fl.get("buffered") else ("", content)
        if fl.get("deco"):
            side = "<" + side + ">"
        if form in ("expr", "call", "nstag"):
            return side + value
        if form == "cat":
            return side + "p" + value + "q"
        if form == "capture":
            return "p" + side + "q"
        raise ValueError(form)
    try:
        if site.get("loop"):
            text = ""
            for i in site["loop"]:
                e2 = dict(env)
                e2["i"] = i
                text += one(e2)
        else:
            text = one(env)
    except (TypeError, AttributeError) as ex:
        return ("exc", type(ex).__name__)
    if spec.get("wrapped"):
        return ("val", "A{WB" + text + "WB}Z")
    return ("val", "A" + text + "Z")


def render(spec):
    from mako.template import Template
    src = source(spec)
    try:
        t = Template(src)
    except Exception as ex:      # noqa
        return ("compile-error", "%s: %s" % (type(ex).__name__, ex)), src
    try:
        return ("val", t.render_unicode(**spec["env"])), src
    except Exception as ex:      # noqa
        return ("exc", type(ex).__name__), src


# --------------------------------------------------------------------------------------------- generation

def gen_sig(r, names, allow_kwonly=True):
    names = list(names)
    r.shuffle(names)
    npos = r.choice([0, 1, 1, 2, 2])
    pos = names[:npos]
    names = names[npos:]
    defaults = {}
    ndef = r.choice([0, 0, 1, 2])
    for p in pos[len(pos) - min(ndef, len(pos)):]:
        defaults[p] = r.choice(VALUES)
    star = names.pop() if names and r.random() < 0.45 else None
    kwonly = []
    if allow_kwonly and names and star and r.random() < 0.6:       # a bare `*` is harness/c05_attrs.py's stream
        for _ in range(r.choice([1, 1, 2])):
            if names:
                kwonly.append([names.pop(), r.choice([None, r.choice(VALUES)])])
    starstar = names.pop() if names and r.random() < 0.45 else None
    return {"pos": pos, "defaults": defaults, "star": star, "kwonly": kwonly, "starstar": starstar}


def gen_actual(r, sig, env_lists, env_dicts, loopvar=False, wrong=0.12, keywords_only=False):
    """actual arguments that mostly bind"""
    def v():
        if loopvar and r.random() < 0.3:
            return {"var": "i"}
        if r.random() < 0.25:
            return {"var": "g"}
        return r.choice(VALUES)
    args, kwargs = [], []
    pos = list(sig["pos"])
    by_kw = keywords_only or r.random() < 0.3
    for p in pos:
        optional = p in sig["defaults"]
        if optional and r.random() < 0.4:
            by_kw = True        # a skipped positional: the rest goes by keyword
            continue
        if by_kw:
            kwargs.append([p, v()])
        else:
            args.append(v())
    star = None
    if sig["star"] and not by_kw and not keywords_only:
        x = r.random()
        if x < 0.4 and env_lists:
            star = r.choice(env_lists)
        elif x < 0.7:
            args += [v() for _ in range(r.choice([1, 2]))]
    for name, dflt in sig["kwonly"]:
        if dflt is None or r.random() < 0.6:
            kwargs.append([name, v()])
    starstar = None
    if sig["starstar"]:
        x = r.random()
        if x < 0.35 and env_dicts and not keywords_only:
            starstar = r.choice(env_dicts)
        elif x < 0.75:
            kwargs.append(["extra", v()])
            if r.random() < 0.4:
                kwargs.append(["more", v()])
    if r.random() < wrong:
        y = r.random()
        if y < 0.4 and not keywords_only:
            args.append(v())                       # one positional too many (fine with *args)
        elif y < 0.7:
            kwargs.append(["nosuch", v()])          # unexpected keyword (fine with **kw)
        elif kwargs:
            kwargs.pop(r.randrange(len(kwargs)))   # a missing argument (fine with a default)
    return {"args": args, "star": star, "kwargs": kwargs, "starstar": starstar}


def gen_case(r):
    sig = gen_sig(r, ["a", "b", "c", "k", "m", "xs", "kw"])
    flags = r.choice([{}, {"buffered": True}, {"filter": True}, {"deco": True}, {"buffered": True, "filter": True},
                      {"buffered": True, "deco": True}, {"filter": True, "deco": True}])
    env = {"g": r.choice(["G", "g g"]), "lst": [r.choice(VALUES) for _ in range(r.choice([0, 1, 2, 3]))],
           "dct": r.choice([{}, {"extra": "E"}, {"k": "KK"}, {"z": "Z", "y": "Y"}])}
    form = r.choice(["expr", "cat", "capture", "call", "call", "call", "nstag", "nstag"])
    loop = [r.choice(VALUES) for _ in range(r.choice([1, 2, 3]))] if r.random() < 0.3 else None
    site = {"form": form, "loop": loop}
    if form == "nstag":
        site["ns"] = r.choice(["self", "local"])
    site["act"] = gen_actual(r, sig, ["lst"], ["dct"], loopvar=bool(loop), keywords_only=form == "nstag")
    d = {"sig": sig, "flags": flags}
    if form in ("call", "nstag"):
        bsig = gen_sig(r, ["x", "y", "z", "rest", "opt"])
        site["bodysig"] = bsig
        if r.random() < 0.85:
            # the def's own parameters are the values handed to the body
            d["body_call"] = gen_actual(r, bsig, [], [], wrong=0.1)
            names = list(sig["pos"]) + [n for n, _ in sig["kwonly"]]
            if names:
                for i, a in enumerate(d["body_call"]["args"]):
                    if r.random() < 0.5:
                        d["body_call"]["args"][i] = {"var": r.choice(names)}
                for kv in d["body_call"]["kwargs"]:
                    if r.random() < 0.5:
                        kv[1] = {"var": r.choice(names)}
            if sig["star"] and r.random() < 0.3:
                d["body_call"]["star"] = sig["star"]
            if sig["starstar"] and r.random() < 0.3 and bsig["starstar"]:
                d["body_call"]["starstar"] = sig["starstar"]
    elif r.random() < 0.05:
        d["body_call"] = {"args": [], "star": None, "kwargs": [], "starstar": None}      # no caller: AttributeError
    return {"rich": True, "def": d, "site": site, "env": env, "wrapped": r.random() < 0.45}


def kind_of(spec):
    s = spec["def"]["sig"]
    k = []
    if s["defaults"]:
        k.append("defaults")
    if s["star"]:
        k.append("*args")
    if s["kwonly"]:
        k.append("kwonly")
    if s["starstar"]:
        k.append("**kw")
    return "+".join(k) or "positional"


def check(spec):
    """-> (site | None, detail, source)"""
    try:
        exp = expect(spec)
    except SyntaxError:
        return "skip", None, None
    got, src = render(spec)
    if got[0] == "compile-error" and "keyword argument repeated" in got[1]:
        return "skip", None, src
    if got != exp:
        return "rich-signature-render-differs", {"got": got, "expected": exp}, src
    return None, {"got": got}, src


def shrink(spec):
    """drop what can be dropped while the case still fails"""
    import copy

    def bad(s):
        try:
            return check(s)[0] == "rich-signature-render-differs"
        except Exception:      # noqa
            return False
    cur = spec
    progress = True
    while progress:
        progress = False
        cands = []
        for path in (("wrapped",), ("site", "loop"), ("def", "flags", "buffered"), ("def", "flags", "filter"),
                     ("def", "flags", "deco")):
            c = copy.deepcopy(cur)
            o = c
            for p in path[:-1]:
                o = o[p]
            if o.get(path[-1]):
                o[path[-1]] = None if path[-1] == "loop" else False
                cands.append(c)
        for where in (("site", "act"), ("def", "body_call")):
            o = cur
            for p in where:
                o = o.get(p) if o else None
            if not o:
                continue
            for key in ("args", "kwargs"):
                for i in range(len(o[key])):
                    c = copy.deepcopy(cur)
                    oo = c
                    for p in where:
                        oo = oo[p]
                    del oo[key][i]
                    cands.append(c)
            for key in ("star", "starstar"):
                if o.get(key):
                    c = copy.deepcopy(cur)
                    oo = c
                    for p in where:
                        oo = oo[p]
                    oo[key] = None
                    cands.append(c)
        for c in cands:
            if bad(c):
                cur = c
                progress = True
                break
    return cur


def run(ctx):
    st = ctx.stream("oracle.rich_signatures", "oracle")
    n = 150 if ctx.quick else 2500
    reported = 0
    for i in range(n):
        spec = gen_case(ctx.rng)
        site, detail, src = check(spec)
        if site == "skip":
            ctx.branch("rich:skipped")
            continue
        st["cases"] += 1
        ctx.branch("rich:sig:" + kind_of(spec))
        ctx.branch("rich:form:" + spec["site"]["form"] + (":loop" if spec["site"].get("loop") else "")
                   + (":in-wrapper" if spec.get("wrapped") else ""))
        fl = spec["def"]["flags"]
        ctx.branch("rich:flags:" + ("+".join(sorted(k for k in fl if fl[k])) or "plain"))
        got = (detail or {}).get("got") or ("?",)
        ctx.branch("rich:outcome:" + (got[0] if got[0] == "val" else str(got[1])))
        if got[0] == "val" and (spec["site"]["form"] in ("call", "nstag") or fl):
            ctx.nontriv(("rich", json.dumps(spec, sort_keys=True)))
        if site and reported < 3:
            reported += 1
            small = shrink(spec)
            s2, d2, src2 = check(small)
            case = dict(small)
            case["input"] = src2
            ctx.violation(site, case, d2, "oracle.rich_signatures")
    if n:
        ctx.sample({"rich_signature_template": source(gen_case(ctx.rng))[len(c05_rt.RICH_IMPORT):][:300]})
    ctx.log("oracle.rich_signatures: %d cases" % st["cases"])


def replay(ctx, case):
    spec = {k: case[k] for k in ("rich", "def", "site", "env", "wrapped") if k in case}
    site, detail, src = check(spec)
    print("template:\n" + (src or ""))
    print("render context:", json.dumps(spec["env"]))
    print("result:", json.dumps(detail))
    if site and site != "skip":
        print("property violated:", site)
        return False
    return True
