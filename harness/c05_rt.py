"""Runtime side of the C05 oracle's instrumentation: `cprobe(context, kind, n[, caller])`.

Instrumented templates (harness/c05_surface.py: `instrument`) import `cprobe` in their `<%! %>` block and call it
as `${cprobe(context, 'pre', n)}` ... `${cprobe(context, 'post', n)}` around every call site, as
`${cprobe(context, 'enter', id)}` at the start of every def / block / template body and as
`${cprobe(context, 'body', n, caller)}` at the start of every `<%call>` body.  It writes nothing (returns ''),
is not an evaluation point of harness/tmpl_rt.py, and records what the real Context looks like at that moment.
Objects are kept (not their ids), so identity comparisons are safe against address re-use.
"""
from __future__ import annotations

EMPTY = "<empty caller stack>"
NOARG = "<no caller argument>"


class _Log:
    events = None


LOG = _Log()


def reset():
    LOG.events = []
    return LOG.events


def cprobe(context, kind, n, caller=NOARG):
    cs = context.caller_stack
    top = list.__getitem__(cs, -1) if len(cs) else EMPTY
    if LOG.events is not None:
        LOG.events.append((kind, n, top, len(cs), cs.nextcaller, len(context._buffer_stack), caller))
    return ""


IMPORT = "<%! from harness.c05_rt import cprobe %>"


def wdeco(fn):
    """`decorator="wdeco"` of the rich-signature stream: visibly wraps the call"""
    def wrapped(context, *a, **kw):
        context.write("<")
        r = fn(*a, **kw)
        context.write(">")
        return r
    return wrapped


RICH_IMPORT = "<%! from harness.c05_rt import wdeco\nfrom harness.tmpl_rt import flt1 %>"


# ------------------------------------------------------------------------------------------------------------------
# decorator families that TRANSFORM the arguments (stream oracle.decorators, harness/c05_deco.py).
# A decorator gets the callable `fn` (taking *args, **kw) and returns a callable taking (context, *args, **kw);
# `transform(family, a, kw)` is the list of calls [(args', kwargs')] it makes.  The same decorator objects are applied
# to a plain Python function to compute the expected result.

DECO_FAMILIES = ("fwd", "kwrepl", "kwadd", "kwpop", "swap", "posmark", "twice")


def transform(family, a, kw):
    a = list(a)
    kw = dict(kw)
    if family == "fwd":
        return [(a, kw)]
    if family == "kwrepl":                       # replace every keyword value
        return [(a, {k: "R" + v for k, v in kw.items()})]
    if family == "kwadd":                        # add a keyword
        if "extra" not in kw:
            kw["extra"] = "ADD"
        return [(a, kw)]
    if family == "kwpop":                        # drop the first keyword (call order)
        for k0 in kw:
            del kw[k0]
            break
        return [(a, kw)]
    if family == "swap":                         # reverse the positionals
        return [(a[::-1], kw)]
    if family == "posmark":                      # mark every positional
        return [(["P" + x for x in a], kw)]
    if family == "twice":                        # two calls, the second with other keywords
        return [(a, kw), (a, {k: v + "2" for k, v in kw.items()})]
    raise ValueError(family)


def _mk(family):
    def deco(fn):
        def wrapped(context, *a, **kw):
            context.write("<%s:" % family)
            res = []
            for a2, kw2 in transform(family, a, kw):
                res.append(fn(*a2, **kw2))
            context.write(">")
            return "".join("" if r is None else str(r) for r in res)
        return wrapped
    deco.__name__ = "xd_" + family
    return deco


for _f in DECO_FAMILIES:
    globals()["xd_" + _f] = _mk(_f)

DECO_IMPORT = "<%! from harness.c05_rt import " + ", ".join("xd_" + f for f in DECO_FAMILIES) + \
    "\nfrom harness.tmpl_rt import flt1 %>"


def typed_repr(v, depth=0):
    """repr that names the type of the value and of everything inside it (a default must be bound to the value AND the
    type Python binds); a callable is shown by what it returns for a few argument lists"""
    t = type(v).__name__
    if depth > 6:
        return t + ":..."
    if isinstance(v, (tuple, list)):
        return "%s[%s]" % (t, ", ".join(typed_repr(x, depth + 1) for x in v))
    if isinstance(v, (set, frozenset)):
        return "%s{%s}" % (t, ", ".join(sorted(typed_repr(x, depth + 1) for x in v)))
    if isinstance(v, dict):
        return "%s{%s}" % (t, ", ".join("%s: %s" % (typed_repr(k, depth + 1), typed_repr(x, depth + 1))
                                        for k, x in v.items()))
    if callable(v) and t == "function":
        outs = []
        for args in ((), (5,), (5, 6)):
            try:
                outs.append("%r -> %s" % (args, typed_repr(v(*args), depth + 1)))
            except TypeError:
                outs.append("%r -> TypeError" % (args,))
        return "function<%s>" % "; ".join(outs)
    return "%s:%r" % (t, v)
