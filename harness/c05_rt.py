"""Runtime side of the C05 oracle's instrumentation: `cprobe(context, kind, n[, caller])`.

Instrumented templates (harness/c05_surface.py: `instrument`) import `cprobe` in their `<%! %>` block and call it
as `${cprobe(context, 'pre', n)}` ... `${cprobe(context, 'post', n)}` around every call site, as
`${cprobe(context, 'enter', id)}` at the start of every def / block / template body and as
`${cprobe(context, 'body', n, caller)}` at the start of every `<%call>` body.  It writes nothing (returns ''),
is not an evaluation point of harness/tmpl_rt.py, and records what the real Context looks like at that moment.
Objects are kept (not their ids), so identity comparisons are safe against address re-use.
"""
from __future__ import annotations

EMPTY = "<empty caller stack>"
NOARG = "<no caller argument>"


class _Log:
    events = None


LOG = _Log()


def reset():
    LOG.events = []
    return LOG.events


def cprobe(context, kind, n, caller=NOARG):
    cs = context.caller_stack
    top = list.__getitem__(cs, -1) if len(cs) else EMPTY
    if LOG.events is not None:
        LOG.events.append((kind, n, top, len(cs), cs.nextcaller, len(context._buffer_stack), caller))
    return ""


IMPORT = "<%! from harness.c05_rt import cprobe %>"


def wdeco(fn):
    """`decorator="wdeco"` of the rich-signature stream: visibly wraps the call"""
    def wrapped(context, *a, **kw):
        context.write("<")
        r = fn(*a, **kw)
        context.write(">")
        return r
    return wrapped


RICH_IMPORT = "<%! from harness.c05_rt import wdeco\nfrom harness.tmpl_rt import flt1 %>"
